"""Native replay harness: the real LangServer from the tree under test, over a recording connection."""
from __future__ import annotations

import io
import json
import os
import shutil
import tempfile


class RecordingRW:
    """Stands in for ReadWriter: input is a byte string of framed messages, output is captured."""

    def __init__(self, data: bytes = b""):
        self.inp = io.BytesIO(data)
        self.out = []

    def readline(self, *a):
        return self.inp.readline(*a).decode("utf-8")

    def read(self, *a):
        return self.inp.read(*a).decode("utf-8")

    def write(self, out):
        self.out.append(out)


def frame(msg: dict) -> bytes:
    body = json.dumps(msg, separators=(",", ":")).encode("utf-8")
    return b"Content-Length: " + str(len(body)).encode() + b"\r\n\r\n" + body


def parse_out(chunks) -> list:
    msgs = []
    for c in chunks:
        head, _, body = c.partition("\r\n\r\n")
        try:
            m = json.loads(body)
        except Exception:
            msgs.append({"_unparsed": c})
            continue
        # what goes on the wire is the UTF-8 encoding of the frame: the announced length must count its bytes
        declared = [h.split(":", 1)[1].strip() for h in head.split("\r\n") if h.lower().startswith("content-length")]
        if isinstance(m, dict) and declared and declared[0].isdigit() and int(declared[0]) != len(body.encode("utf-8")):
            m = dict(m, _bad_length={"declared": int(declared[0]), "bytes": len(body.encode("utf-8"))})
        msgs.append(m)
    return msgs


def default_settings(argv=()):
    from fortls.interface import cli
    s = vars(cli("fortls").parse_args(list(argv)))
    s["disable_autoupdate"] = True
    return s


def make_server(argv=(), data: bytes = b""):
    import logging
    logging.disable(logging.CRITICAL)  # the server's own log output is not part of any verdict
    from fortls.jsonrpc import JSONRPC2Connection
    from fortls.langserver import LangServer
    rw = RecordingRW(data)
    srv = LangServer(JSONRPC2Connection(rw), default_settings(argv))
    return srv, rw


class Workspace:
    """A scratch directory with files; removed on close()."""

    def __init__(self, files: dict | None = None):
        # not under /tmp: the repository's own test-suite indexes /tmp recursively in one test
        base = os.environ.get("PYVC_SCRATCH", "/var/tmp/pyvc_scratch")
        os.makedirs(base, exist_ok=True)
        self.root = tempfile.mkdtemp(prefix="ws_", dir=base)
        for name, text in (files or {}).items():
            self.write(name, text)

    def write(self, name, text):
        p = os.path.join(self.root, name)
        os.makedirs(os.path.dirname(p), exist_ok=True)
        with open(p, "w", newline="") as f:
            f.write(text)
        return p

    def path(self, name):
        return os.path.join(self.root, name)

    def uri(self, name):
        from fortls.jsonrpc import path_to_uri
        return path_to_uri(self.path(name))

    def close(self):
        shutil.rmtree(self.root, ignore_errors=True)


class SessionTimeout(BaseException):
    """Raised by the alarm; a BaseException so that the server's own `except Exception` cannot swallow it."""


def _alarm(signum, frame):
    raise SessionTimeout()


def session(ws: Workspace, messages: list, argv=(), init: bool = True, keep_threads: bool = False,
            timeout: int = 60):
    """Run LangServer.run() over the given messages (initialize prepended); returns (server, outputs)."""
    from fortls.jsonrpc import path_to_uri
    msgs = []
    if init:
        msgs.append({"jsonrpc": "2.0", "id": 0, "method": "initialize",
                     "params": {"rootUri": path_to_uri(ws.root), "rootPath": ws.root}})
    msgs += messages
    data = b"".join(frame(m) for m in msgs)
    srv, rw = make_server(argv, data)
    if not keep_threads:
        srv.nthreads = 1
    import signal
    old = signal.signal(signal.SIGALRM, _alarm)
    signal.alarm(timeout)
    try:
        srv.run()
    finally:
        signal.alarm(0)
        signal.signal(signal.SIGALRM, old)
    return srv, parse_out(rw.out)
