#!/usr/bin/env python3
"""Re-run every kept seeded change (seeded/<id>/patch.diff) against a scratch copy of /repo: the property's check must
exit 1.  usage: tools/seeds_all.py [C05 ...]"""
import concurrent.futures as cf
import os
import shutil
import subprocess
import sys
import tempfile

VERIF = os.path.dirname(os.path.dirname(os.path.abspath(__file__)))
REPO = "/repo"


def one(name):
    pid = name[:3]
    base = os.environ.get("PYVC_SCRATCH", "/var/tmp/pyvc_scratch")
    os.makedirs(base, exist_ok=True)
    tmp = tempfile.mkdtemp(prefix="seed_", dir=base)
    try:
        shutil.copytree(os.path.join(REPO, "fortls"), os.path.join(tmp, "fortls"), ignore=shutil.ignore_patterns("__pycache__"))
        r = subprocess.run(["patch", "-p1", "-s", "-d", tmp, "-i", (lambda d: os.path.join(d, "patch_rebased.diff") if os.path.exists(os.path.join(d, "patch_rebased.diff")) else os.path.join(d, "patch.diff"))(os.path.join(VERIF, "seeded", name))],
                           capture_output=True, text=True)
        if r.returncode != 0:
            return name, "PATCH-FAILED", (r.stdout + r.stderr)[-200:]
        env = dict(os.environ, PYVC_REPO=tmp, PYVC_WORK=os.path.join(tmp, ".work"), PYVC_JOBS="4")
        r = subprocess.run([os.path.join(VERIF, "check"), pid], capture_output=True, text=True, env=env, timeout=3600)
        lines = [l for l in (r.stdout + r.stderr).splitlines() if l.startswith(("VIOLATION", "UNDECIDED", "CHECKER"))]
        return name, "caught" if r.returncode == 1 else f"exit={r.returncode}", " | ".join(l[:150] for l in lines[:3])
    finally:
        shutil.rmtree(tmp, ignore_errors=True)


def main():
    want = sys.argv[1:]
    names = sorted(d for d in os.listdir(os.path.join(VERIF, "seeded")) if os.path.exists(os.path.join(VERIF, "seeded", d, "patch.diff"))
                   and (not want or d[:3] in want or d in want))
    bad = 0
    with cf.ThreadPoolExecutor(max_workers=4) as ex:
        for name, status, detail in ex.map(one, names):
            if status != "caught":
                bad += 1
                print(f"{name:8s} {status:12s} {detail}")
    print(f"{len(names) - bad}/{len(names)} seeded changes caught")
    return 1 if bad else 0


if __name__ == "__main__":
    sys.exit(main())
