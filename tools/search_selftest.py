#!/usr/bin/env python3
"""The bounded native searches only run when an obligation fails.  On the unchanged tree every one of them must find
nothing (apart from the recorded findings): a search that "finds" a witness there would turn a lost binding into a
false violation.  usage: tools/search_selftest.py [c02 ...]"""
import importlib
import os
import sys

VERIF = os.path.dirname(os.path.dirname(os.path.abspath(__file__)))
sys.path[:0] = [os.environ.get("PYVC_REPO", "/repo"), VERIF]
import logging  # noqa: E402
logging.disable(logging.CRITICAL)
from pyvc.source import Repo  # noqa: E402
from pyvc.contract import Registry  # noqa: E402

bad = 0
mods = sys.argv[1:] or sorted(f[:-3] for f in os.listdir(os.path.join(VERIF, "contracts")) if len(f) == 6 and f[0] == "c" and f[1:3].isdigit())
repo = Repo(os.environ.get("PYVC_REPO", "/repo"))
for m in mods:
    mod = importlib.import_module("contracts." + m)
    if not hasattr(mod, "search"):
        continue
    reg = Registry()
    mod.build(reg)
    funcs = set(getattr(mod, "TARGETS", []))
    try:
        funcs |= {it.func for it in mod.extra(repo, reg, "quick", 0) if it.func}
    except Exception as e:  # noqa: BLE001
        print(m, "extra() failed:", e)
    seen_keys = set()
    for f in sorted(funcs):
        key = f.rsplit('.', 1)[-1]
        if key in seen_keys:
            continue
        seen_keys.add(key)
        for tier in (("quick", "thorough") if os.environ.get("SELFTEST_THOROUGH") else ("quick",)):
            try:
                w = mod.search(f, tier, 0, "")
            except Exception as e:  # noqa: BLE001
                w = {"search crashed": repr(e)}
            if isinstance(w, tuple):
                w = w[0]
            if w:
                bad += 1
                print(f"{m} search({f}, {tier}) -> {str(w)[:300]}")
                break
print("native searches with a witness on this tree:", bad)
sys.exit(1 if bad else 0)
