#!/usr/bin/env python3
"""False-alarm guard: apply a behaviour-preserving patch to a scratch copy of /repo and run every check on it.
Each check must exit 0 (a 1 is a false alarm to be repaired in the machinery; a 2 means the contract lost its
binding to the code and has to be re-anchored — reported, not a violation).

usage: tools/harmless.py <patch.diff> [C03 C10 ...]
"""
import concurrent.futures as cf
import json
import os
import shutil
import subprocess
import sys
import tempfile

VERIF = os.path.dirname(os.path.dirname(os.path.abspath(__file__)))
REPO = os.environ.get("PYVC_REPO", "/repo")


def main():
    patch = os.path.abspath(sys.argv[1])
    pids = sys.argv[2:] or [c["property_id"] for c in json.load(open(os.path.join(VERIF, "MANIFEST.json")))["checks"]]
    base = os.environ.get("PYVC_SCRATCH", "/var/tmp/pyvc_scratch")
    os.makedirs(base, exist_ok=True)
    tmp = tempfile.mkdtemp(prefix="harmless_", dir=base)
    try:
        shutil.copytree(os.path.join(REPO, "fortls"), os.path.join(tmp, "fortls"), ignore=shutil.ignore_patterns("__pycache__"))
        r = subprocess.run(["patch", "-p1", "-s", "-d", tmp, "-i", patch], capture_output=True, text=True)
        if r.returncode != 0:
            print("PATCH-FAILED", r.stdout[-500:], r.stderr[-500:])
            return 3

        def one(pid):
            env = dict(os.environ, PYVC_REPO=tmp, PYVC_WORK=os.path.join(tmp, ".work_" + pid), PYVC_JOBS="3")
            r = subprocess.run([os.path.join(VERIF, "check"), pid], capture_output=True, text=True, env=env, timeout=3600)
            out = r.stdout + r.stderr
            lines = [l for l in out.splitlines() if l.startswith(("VIOLATION", "UNDECIDED", "CHECKER", "KNOWN"))]
            return pid, r.returncode, lines

        bad = 0
        with cf.ThreadPoolExecutor(max_workers=6) as ex:
            for pid, rc, lines in ex.map(one, pids):
                if rc != 0:
                    bad += 1
                    print(f"{os.path.basename(patch)} {pid} exit={rc}")
                    for l in lines[:6]:
                        print("   ", l[:260])
        print(f"{os.path.basename(patch)}: {len(pids) - bad}/{len(pids)} checks stayed green")
        return 1 if bad else 0
    finally:
        shutil.rmtree(tmp, ignore_errors=True)


if __name__ == "__main__":
    sys.exit(main())
