#!/bin/bash
# runs every claimed check (quick tier) and prints one line each
cd "$(dirname "$0")/.."
for id in $(python3 -c "import json;print(' '.join(c['property_id'] for c in json.load(open('MANIFEST.json'))['checks']))"); do
  out=$(./check $id 2>&1); rc=$?
  echo "$id exit=$rc $(echo "$out" | grep -E "^$id:" | tail -1)"
  [ $rc -ne 0 ] && echo "$out" | grep -E "^(VIOLATION|UNDECIDED|CHECKER)" | cut -c1-200 | head -5
done
