#!/usr/bin/env python3
"""Mutation self-test: each catalogue entry is a small change to a scratch copy of /repo that breaks a
property; the check must turn the named obligation red (exit 1, or 2 where the entry says so).  Entries with
"expect": "green" are harmless edits that must stay green (false-alarm guard).

usage: tools/mutants.py [C02 ...] [--only name] [--jobs N]
"""
import concurrent.futures as cf
import json
import os
import shutil
import subprocess
import sys
import tempfile

VERIF = os.path.dirname(os.path.dirname(os.path.abspath(__file__)))
REPO = os.environ.get("PYVC_REPO", "/repo")


def run_one(pid, m):
    base = os.environ.get("PYVC_SCRATCH", "/var/tmp/pyvc_scratch")
    os.makedirs(base, exist_ok=True)
    tmp = tempfile.mkdtemp(prefix="mut_", dir=base)
    try:
        shutil.copytree(os.path.join(REPO, "fortls"), os.path.join(tmp, "fortls"),
                        ignore=shutil.ignore_patterns("__pycache__"))
        for ed in m.get("edits", [m]):
            p = os.path.join(tmp, ed["file"])
            s = open(p).read()
            if s.count(ed["old"]) != 1:
                return m["name"], "BROKEN-MUTANT", f"pattern occurs {s.count(ed['old'])} times in {ed['file']}"
            open(p, "w").write(s.replace(ed["old"], ed["new"]))
        env = dict(os.environ, PYVC_REPO=tmp, PYVC_WORK=os.path.join(tmp, ".work"), PYVC_JOBS=os.environ.get("PYVC_MJOBS", "4"))
        r = subprocess.run([os.path.join(VERIF, "check"), pid] + (["--tier", m["tier"]] if m.get("tier") else []), capture_output=True, text=True, env=env, timeout=1800)
        out = r.stdout + r.stderr
        expect = m.get("expect", "")
        want_exit = m.get("exit", 0 if expect == "green" else 1)
        ok = r.returncode == want_exit and (expect == "green" or expect in out)
        if expect == "green" and ("VIOLATION" in out):
            ok = False
        lines = [l for l in out.splitlines() if l.startswith(("VIOLATION", "UNDECIDED", "CHECKER", pid + ":"))]
        return m["name"], "ok" if ok else "MISSED", f"exit={r.returncode} " + " | ".join(l[:160] for l in lines[:4])
    finally:
        shutil.rmtree(tmp, ignore_errors=True)


def main():
    args = [a for a in sys.argv[1:] if not a.startswith("--")]
    only = None
    if "--only" in sys.argv:
        only = sys.argv[sys.argv.index("--only") + 1]
        args = [a for a in args if a != only]
    jobs = 4
    pids = args or sorted(d for d in os.listdir(os.path.join(VERIF, "mutations")))
    tasks = []
    for pid in pids:
        path = os.path.join(VERIF, "mutations", pid, "catalogue.json")
        if not os.path.exists(path):
            continue
        for m in json.load(open(path)):
            if only and m["name"] != only:
                continue
            tasks.append((pid, m))
    bad = 0
    with cf.ThreadPoolExecutor(max_workers=jobs) as ex:
        for (pid, m), res in zip(tasks, ex.map(lambda t: run_one(*t), tasks)):
            name, status, detail = res
            print(f"{pid} {name:40s} {status:8s} {detail}")
            bad += status != "ok"
    print(f"{len(tasks) - bad}/{len(tasks)} mutants behaved as expected")
    return 1 if bad else 0


if __name__ == "__main__":
    sys.exit(main())
