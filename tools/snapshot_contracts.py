#!/usr/bin/env python3
"""Record the text of every outermost function of the package, as it is now, in contracts/snapshots.json.

The snapshot is only an aid for re-anchoring: contracts, loop invariants and shape obligations name local variables; when
a function later differs from its snapshot only by a one-to-one renaming of locally bound names, pyvc alpha-renames the
current code back to the snapshot's names before generating conditions (pyvc.source.Module._reanchor).  The verified text
is always the current code.  Run this after writing or re-anchoring contracts on a tree where every check is green."""
import ast
import json
import os
import sys

VERIF = os.path.dirname(os.path.dirname(os.path.abspath(__file__)))
REPO = os.environ.get("PYVC_REPO", "/repo")
out = {}
pkg = os.path.join(REPO, "fortls")
for dirpath, dirnames, filenames in os.walk(pkg):
    dirnames[:] = [d for d in dirnames if d != "__pycache__"]
    for fn in sorted(filenames):
        if not fn.endswith(".py"):
            continue
        full = os.path.join(dirpath, fn)
        rel = os.path.relpath(full, REPO)[:-3].replace(os.sep, ".")
        if rel.endswith(".__init__"):
            rel = rel[: -len(".__init__")]
        tree = ast.parse(open(full, encoding="utf-8").read())

        def visit(node, prefix):
            for ch in getattr(node, "body", []):
                if isinstance(ch, (ast.FunctionDef, ast.AsyncFunctionDef)):
                    out[prefix + "." + ch.name] = ast.unparse(ch)
                elif isinstance(ch, ast.ClassDef):
                    visit(ch, prefix + "." + ch.name)
        visit(tree, rel)
with open(os.path.join(VERIF, "contracts", "snapshots.json"), "w") as f:
    json.dump(out, f, indent=0, sort_keys=True)
print(len(out), "functions recorded")
