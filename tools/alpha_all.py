#!/usr/bin/env python3
"""Robustness self-test: write a copy of /repo/fortls in which every function-local name is renamed (x -> x_zz),
mechanically and consistently (closures included).  The copy behaves exactly like the original, so every check must
stay green on it (exit 0).  usage: tools/alpha_all.py <outdir> [file ...]   (files relative to fortls/, default: all)"""
import ast
import os
import shutil
import sys

REPO = os.environ.get("PYVC_REPO", "/repo")


def rename_function(fn: ast.FunctionDef):
    params, bound, declared = set(), set(), set()
    for n in ast.walk(fn):
        if isinstance(n, (ast.FunctionDef, ast.AsyncFunctionDef, ast.Lambda)):
            a = n.args
            params |= {x.arg for x in a.args + a.kwonlyargs + a.posonlyargs}
            if a.vararg:
                params.add(a.vararg.arg)
            if a.kwarg:
                params.add(a.kwarg.arg)
            if not isinstance(n, ast.Lambda) and n is not fn:
                declared.add(n.name)
        elif isinstance(n, (ast.Global, ast.Nonlocal)):
            declared |= set(n.names)
        elif isinstance(n, ast.Name) and isinstance(n.ctx, (ast.Store, ast.Del)):
            bound.add(n.id)
        elif isinstance(n, ast.ExceptHandler) and n.name:
            declared.add(n.name)
        elif isinstance(n, (ast.Import, ast.ImportFrom)):
            declared |= {(al.asname or al.name).split(".")[0] for al in n.names}
    names = {b for b in bound if b not in params and b not in declared and not b.startswith("__") and b != "_"}
    for n in ast.walk(fn):
        if isinstance(n, ast.Name) and n.id in names:
            n.id = n.id + "_zz"
    return len(names)


def main():
    out = sys.argv[1]
    only = set(sys.argv[2:])
    if os.path.exists(out):
        shutil.rmtree(out)
    shutil.copytree(os.path.join(REPO, "fortls"), os.path.join(out, "fortls"), ignore=shutil.ignore_patterns("__pycache__"))
    total = 0
    for root, _, files in os.walk(os.path.join(out, "fortls")):
        for f in files:
            if not f.endswith(".py"):
                continue
            p = os.path.join(root, f)
            rel = os.path.relpath(p, os.path.join(out, "fortls"))
            if only and rel not in only:
                continue
            src = open(p).read()
            tree = ast.parse(src)
            n = 0

            def visit(node):
                nonlocal n
                for ch in ast.iter_child_nodes(node):
                    if isinstance(ch, (ast.FunctionDef, ast.AsyncFunctionDef)):
                        n += rename_function(ch)
                    elif isinstance(ch, ast.ClassDef):
                        visit(ch)
            visit(tree)
            if n:
                # keep the module docstring / future imports as they are: unparse the whole tree
                open(p, "w").write(ast.unparse(tree) + "\n")
                total += n
    print(total, "local names renamed under", out)


if __name__ == "__main__":
    main()
