#!/bin/bash
# usage: tools/confirm_seed.sh <Cxx> [worktree] [name under /verif/seeded, default <Cxx>]   -- confirms a sub-agent's seeded change in its scratch worktree,
# stores it under /verif/seeded/<id>/, runs the check against it on /repo (apply, check, undo).
set -u
ID=$1; WT=${2:-/root/scratch/seed_$ID}; OUT=/verif/seeded/${3:-$ID}; mkdir -p $OUT
cd $WT || exit 2
git diff -- fortls > $OUT/patch.diff
cp demo.py $OUT/demo.py 2>/dev/null
echo "== demo with change"; PYTHONPATH=$WT timeout 600 /venv/bin/python demo.py > $OUT/demo_with.txt 2>&1; W=$?; echo "exit=$W"
echo "== tests with change"; PYTHONPATH=$WT timeout 1200 /venv/bin/python -m pytest -q -p no:cacheprovider -n 8 --timeout=900 2>&1 | tail -1 | tee $OUT/tests_with.txt
echo "== demo without change (the unchanged /repo tree; no stash: stashes are shared between worktrees)"
PYTHONPATH=/repo timeout 600 /venv/bin/python demo.py > $OUT/demo_without.txt 2>&1; N=$?; echo "exit=$N"
echo "== check against the change on /repo"
cd /repo && git apply $OUT/patch.diff && cd /verif && ./check $ID > $OUT/check_output.txt 2>&1; C=$?
git -C /repo checkout -- . ; git -C /repo status --short | head -3
grep -E "^(VIOLATION|UNDECIDED|CHECKER|$ID:)" $OUT/check_output.txt | cut -c1-220 | head -8
echo "demo_with=$W demo_without=$N check_exit=$C"
