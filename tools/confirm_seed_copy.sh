#!/bin/bash
# confirm a seed against a scratch copy of /repo (no change to /repo): usage confirm_copy.sh Cxx worktree name
set -u
ID=$1; WT=$2; OUT=/verif/seeded/$3; mkdir -p $OUT
cd $WT || exit 2
git diff -- fortls > $OUT/patch.diff
cp demo.py $OUT/demo.py 2>/dev/null
PYTHONPATH=$WT timeout 600 /venv/bin/python demo.py > $OUT/demo_with.txt 2>&1; W=$?
PYTHONPATH=/repo timeout 600 /venv/bin/python demo.py > $OUT/demo_without.txt 2>&1; N=$?
C=/var/tmp/pyvc_scratch/confirm_$3; rm -rf $C; mkdir -p $C; cp -r /repo/fortls $C/; ln -s /repo/test $C/test
(cd $C && patch -p1 -s < $OUT/patch.diff) || { echo "PATCH FAILED"; exit 3; }
cd /verif && PYVC_REPO=$C PYVC_WORK=$C/.work ./check $ID > $OUT/check_output.txt 2>&1; R=$?
rm -rf $C
grep -E "^(VIOLATION|UNDECIDED|CHECKER|$ID:)" $OUT/check_output.txt | cut -c1-220 | head -6
echo "demo_with=$W demo_without=$N check_exit=$R"
