#!/usr/bin/env python3
"""Writes MANIFEST.json from the table below (single place to edit)."""
import json
import os

VERIF = os.path.dirname(os.path.dirname(os.path.abspath(__file__)))

CLAIMS = {
    "C02": dict(
        text="Every obligation generated from the current source of FortranFile.apply_change, set_contents and "
             "LangServer.serve_onChange against the LSP line-level edit specification (all documents, all in-range "
             "ranges, all texts, all change sequences, no bound) is discharged by z3/cvc5; a refuted obligation is "
             "replayed on the real method.",
        note="Assumes: lists modelled by value; re.split lemma for splitlines' literal pattern (bounded, exhaustive "
             "to length 8/9 against CPython); code-point columns; update_workspace_file(read_file=False) does not "
             "touch the buffer (frame-checked); check_change_reparse/detect_fixed_format pure.",
        technique="VC generation from the Python AST (pyvc) + z3/cvc5; loop invariants; frame analysis",
        design="3/C02"),
    "C19": dict(
        text="For every configuration dict (any JSON values) and every option of the option table extracted from "
             "cli(): present => file value, absent => unchanged, other options untouched (three loaders, mode F); "
             "_load_config_file: no exception escapes for any file-system/parse outcome or top-level JSON type, a "
             "bad file gives exactly one message and leaves all options unchanged; table completeness is a finite "
             "mechanical obligation per option.",
        note="Option values are opaque JSON values; open/json5.load/os.path abstracted by ghost inputs; set-valued "
             "options iterable under the ghost verdict types_ok of _check_config_types (that it accepts exactly the "
             "well-typed files is checked natively on typed/mistyped tables, bounded); the *effect* of an option "
             "downstream is observed for six options only (native, one interpreter per server).",
        technique="VC generation from the Python AST (pyvc) + z3/cvc5; option table read from the AST; native tables and option-effect probes as bounded stand-in",
        design="3/C19"),
    "C15": dict(
        text="Narrow layer: workers share no state (effect analysis over everything reachable from the static method file_init), "
             "workspace_init merges the results in file-list order after close/join and links only against the complete index "
             "(structural obligations), type inheritance resolves the parent first whatever the link order (VCs, shared "
             "contract), references are collected to a fixed point. Equality of every answer across worker counts, enumeration "
             "orders, hash seeds and with the open-one-at-a-time path is decided only on a bounded schedule exploration.",
        note="confluence of link resolution is proved for type inheritance only; other link kinds and the pooled-vs-open path "
             "equality are bounded observations (7 schedules quick, 15 thorough, one generated workspace per seed).",
        technique="effect/frame analysis (pyvc mode E) + structural obligations + shared VCs; schedule exploration as bounded stand-in",
        design="3/C15"),
    "C16": dict(
        text="_send: the emitted frame starts with Content-Length equal to the UTF-8 byte length of the JSON text, "
             "one blank line, then the body (for every payload); _receive: for every grammatical frame (any number "
             "of header fields before and after Content-Length, any body bytes) returns the decoded message and "
             "consumes exactly that frame, EOFError on end of stream, loop variant; _read_header_content_length on "
             "both kinds of header line. ReadWriter/main shapes are structural obligations; URI round trip and "
             "library facts are bounded lemmas.",
        note="Byte streams modelled as strings of bytes with readline at line level (BufferedReader semantics "
             "trusted); json.dumps ASCII-only unless ensure_ascii=False; split/strip/int facts on the "
             "Content-Length line validated natively; URI round trip bounded (names <= 3 chars over 13 characters).",
        technique="VC generation from the Python AST (pyvc) + z3/cvc5; ghost stream state; loop invariant + variant",
        design="3/C16"),
    "C01": dict(
        text="handle: for every request dict with a method and every handler outcome (returns / raises "
             "JSONRPC2Error / raises anything else): exactly one response with the request's id, none for a "
             "notification, -32601 for methods outside the dispatch table (read from the AST), -32603 for handler "
             "failures, no exception escapes. run: loop invariant 'response ids == ids of the requests served so "
             "far, in order', stops only after exit or EOF, variant. The handler family contract is discharged per "
             "table entry by frame obligations: no handler reaches write_response/write_error or writes running.",
        note="read_message abstracted by the inbox (C16); JSON-serialisability of handler results not decided "
             "(residual); logging and post_message assumed not to raise; call graph over-approximates by method name.",
        technique="VC generation from the Python AST (pyvc) + z3/cvc5; ghost response channel; call-graph frame analysis",
        design="3/C01"),
    "C17": dict(
        text="Effect contract of the whole package, regenerated from the source on every run: every call of a "
             "code-execution, process, deserialisation, file-modifying or network primitive is either of an allowed "
             "shape (literal argument vector for pip, <root>/fortls_debug.log, read-only open, fixed URL) or a failed "
             "obligation with the call path from the server entry points; dynamic dispatch constructs must be on the "
             "reviewed list. A native run under sys.addaudithook on a hostile workspace is the bounded stand-in.",
        note="Sink list is syntactic (stated in contracts/c17.py); method calls resolved by name; json5 and stdlib "
             "internals trusted; no taint tracking: execution sinks are allowed only with literal arguments.",
        technique="effect/frame obligations over the whole-package call graph (pyvc mode E)",
        design="3/C17"),
    "C20": dict(
        text="Every recursion cycle of the package call graph (recomputed each run) has a measure whose obligations "
             "are decided on the AST: recursive calls descend one step along link_obj / inherit_var / ancestor_obj / "
             "parent / children, or carry a growing visited path, a version guard, a shrinking string, a sub-node; every "
             "writer of a link field is a constructor, assigns None, or sits under the links_back cycle check; tree "
             "fields are written only by the reviewed builders. A new cycle without measure is undecided, not red. The "
             "native cycle catalogue (lengths 1..4, all positional requests, recursion limit 400, 20 s hang timeout) is "
             "the bounded stand-in.",
        note="Obligations are structural (templates over the AST), not SMT; trusted: the graph lemma behind "
             "links_back, union-acyclicity assumptions for find_in_scope and the hover family, exempted by-name "
             "artefact cycles (listed with reasons in the evidence). Termination only; no time bound.",
        technique="termination obligations (measures + heap-shape writer obligations) over call-graph SCCs (pyvc mode T)",
        design="3/C20"),
    "C18": dict(
        text="_get_source_files: over an uninterpreted file system, the nested loops compute exactly the sequence "
             "[d/f | d in source_dirs, f in listdir(d), isfile, suffix regex accepts f, d/f not excluded, no excluded "
             "suffix] (loop invariants with fold specifications, any set/listing order); _add_source_dirs: runs only "
             "for source_dirs == {root}, result is the fold over os.walk of directories holding a source file and not "
             "excluded. Suffix regex: anchoring and escaping are structural obligations, acceptance is decided by "
             "finite enumeration against the property's suffix list. serve_initialize's step order is structural. "
             "Real directory trees x configurations x {file, command line} are the bounded stand-in.",
        note="File-system functions uninterpreted; order-independence of the resulting set is a stated meta-lemma; "
             "_resolve_globs_in_paths and pathlib globbing only covered natively (bounded).",
        technique="VC generation from the Python AST (pyvc) + z3/cvc5 with fold specifications; finite enumeration with the real re",
        design="3/C18"),
    "C06": dict(
        text="Text layer of references/rename: range_json/uri_json/change_json keep the four coordinates (VCs, the "
             "falsy-zero idiom is a precondition discharged at the call sites' shape); strip_comment returns a prefix of "
             "the line without `!` (VCs over str.split facts); the name regex taken from the source of "
             "get_all_references is escape-safe and finds exactly the whole-word occurrences (exhaustive small-scope "
             "lemma with the real re); loop shape and emitters are structural obligations; references and rename from "
             "every occurrence of every entity of two programs are the bounded stand-in.",
        note="That each hit is bound to the same entity is get_definition's business (C05) and only covered by the "
             "bounded stand-in; identifier characters = word characters and `$`.",
        technique="VC generation (pyvc) + z3/cvc5 for the range/strip functions; exhaustive lemma with the real re; structural obligations",
        design="3/C06"),
    "C09": dict(
        text="Safety obligations (mode S) over the nine position-based handlers, get_definition and their nested "
             "helpers: from a class table rebuilt from the source, every attribute access on a value whose possible "
             "classes are known is defined for each class and no possibly-None value is dereferenced without a "
             "dominating check (flow-sensitive narrowing on is None / isinstance / get_type()); get_definition's result "
             "signature is checked against its return statements; call sites pass a non-None file. Coordinates: add_error "
             "clamping and _create_ref_link are VCs (mode F). The native sweep (tens of thousands of positional requests, "
             "quick tier; ~380k thorough; plus documentSymbol of every document and workspace/symbol queries, every returned range checked) is the bounded stand-in for index errors in string helpers.",
        note="Values of unknown class are not checked (count in the evidence); hints: FortranFile.ast set before a "
             "file enters the workspace, Intrinsic.get_type in {2,3,14,15} (checked exhaustively on the bundled tables). "
             "IndexError/KeyError freedom of the string scanners is only covered by the sweep.",
        technique="class-flow safety obligations over the AST (pyvc mode S) + VCs for coordinate functions; native sweep as bounded stand-in",
        design="3/C09"),
    "C03": dict(
        text="Safety obligations (mode S) over FortranFile.parse, its scope helpers and the FortranAST builders: no "
             "possibly-None scope is dereferenced; helpers that assume an open scope are called only under the "
             "end_scope_regex guard, which implies an open scope by the representation invariant of FortranAST proved as "
             "VCs on add_scope/end_scope; get_line never raises (VCs); the main loop's progress and "
             "parse_docs/get_docstring monotonicity, literal macro substitution and regex escaping are structural "
             "obligations. Prefix/deletion/seeded-mutation sweeps (parse + diagnostics under a 5 s alarm) are the bounded "
             "stand-in.",
        note="Statement readers (read_var_def ...) and preprocess_file's directive machine are not under contract here "
             "(bounded sweep only; the conditional machine is C08's); regex running time is not bounded by any contract.",
        technique="class-flow safety obligations (pyvc mode S) + VCs for the scope-stack invariant + structural termination obligations; native sweeps as bounded stand-in",
        design="3/C03"),
    "C08": dict(
        category="exploration",
        text="Bounded stand-in (no proof): the conditional machine of preprocess_file is a 300-line regex-driven loop "
             "body outside the VC generator's reach, so the real function is compared with an independent reference "
             "preprocessor (ISO C 6.10.1) on every well-formed #if/#elif/#else/#endif skeleton up to 7 (thorough 9) "
             "directives with all truth assignments, on seeded random skeletons with #ifdef/#define/#undef and real "
             "conditions for five macro tables, on the index produced by the real parser, and on macro bodies with "
             "special characters, and on the same skeletons respelled with blanks, tabs and comments inside the directives. Structural/finite obligations: `defined` rewriting is parenthesis-neutral, the skip test "
             "dominates every index-building call in parse.",
        note="Bounded, never counted as proved; redefinition semantics and rescanning order of macro expansion are not "
             "decided; known finding: parameters substituted inside character literals of function-like macro bodies.",
        technique="bounded comparison of the real function with a reference C preprocessor (labelled bounded); structural obligations",
        design="3/C08"),
    "C10": dict(
        text="Freshness obligations regenerated from the source: every field assigned from a name lookup (enumerated "
             "mechanically: find_in_scope / find_in_workspace / climb_type_tree / obj_tree[..] / workspace[..]) is reset or "
             "unconditionally recomputed by a resolver that the save path runs for every live object; serve_onSave bumps the "
             "link version and re-resolves includes and links of the whole workspace; the delete path forgets the file and "
             "re-resolves; update_workspace_file prunes the previous version's keys before adding the new ones; the owner of a top-level name declared by several files is the file with the greatest path at start-up and after every save; parsing does "
             "not mutate the server's pp_defs/include_dirs arguments (frame analysis). Histories of sync events compared with "
             "a freshly started server are the bounded stand-in.",
        note="Obligations are structural (shape of each resolver) and frame-analytic, not a proof that recomputed values "
             "equal a fresh server's: that equality is observed only on the bounded histories (44 histories with save, unsaved change, ranged edit, create, delete, close and reopen operations over a 28-file workspace).",
        technique="freshness/frame obligations over the AST and call graph (pyvc mode E); native history replay as bounded stand-in",
        design="3/C10"),
    "C04": dict(
        text="Structure layer: the constructor/END-regex pairing of FortranFile.parse read from the AST and the keyword x "
             "regex acceptance table (exhaustive with the real re) match the standard's table; sline/eline come from the "
             "opening line and the END that pops the scope (stack discipline: invariant VCs of C03); find_in_workspace and "
             "its helper are proved (VCs with fold specifications over immutable object references) to return exactly the "
             "file-backed tops and module members whose lower-cased name contains the lower-cased query, pseudo scopes "
             "excluded, nothing dropped or duplicated; symbol construction, -1 line offsets and the sort key are structural "
             "obligations. Generated nested programs (outline + workspace/symbol vs the generator's expectation) are the "
             "bounded stand-in.",
        note="That each statement regex recognises exactly its Fortran statement is not decided (needs a grammar); "
             "numeric SymbolKind values are checked only by the generated-program stand-in; PROGRAM members count as module "
             "members (pinned by the repository's own test).",
        technique="finite tables from the AST + real re; VCs (pyvc mode F) with fold specifications; generated programs as bounded stand-in",
        design="3/C04"),
    "C05": dict(
        text="Lookup layer: find_in_scope.check_scope (VCs on the real nested function; its recursion through unnamed "
             "interface blocks is used through its own contract) returns None or an object whose lower-cased name is the "
             "requested name and which, when reached through USE, is not PRIVATE under the default accessibility of the "
             "module; find_in_scope's order (local, INCLUDE, USE tree with filter_public/ONLY/rename, host, ancestors) and "
             "climb_type_tree's link step are structural obligations. The USE-tree merge (get_use_tree: transitive ONLY and "
             "rename intersection, re-export accessibility) is decided only on generated multi-file programs with a "
             "model-derived expected binding for every use site (bounded stand-in, not proof).",
        note="'the declaration Fortran binds it to' has no specification short of a model of the language; get_use_tree, "
             "get_definition's statement classifier and %-chain typing are bounded-only. Proof covers the per-scope name and "
             "accessibility filter.",
        technique="VCs (pyvc mode F) on check_scope with object references; structural order obligations; generated-program definition oracle as bounded stand-in",
        design="3/C05"),
    "C07": dict(
        text="Detector layer: Scope.check_use (VCs with a fold specification over the scope's USE/IMPORT statements: IMPORT "
             "outside an interface body, unknown module, USE after IMPLICIT fire exactly on their fact, on that line, with that "
             "severity), the line-length part of FortranFile.check_file, mark_contains/parse_contains/parse_implicit and the "
             "check_valid_parent methods. Silence on valid programs and the resolution-dependent detectors are decided only on "
             "generated programs with one seeded defect per class and position (bounded stand-in, not proof).",
        note="'standard-conforming program' has no specification short of a model of Fortran; the generated-program oracle covers "
             "22 defect classes at random applicable positions of three-file programs and is labelled bounded.",
        technique="VCs (pyvc mode F) with fold specifications on the detector functions; generated valid/defective programs as bounded stand-in",
        design="3/C07"),
    "C11": dict(
        text="Narrow layer: FortranAST.add_doc and the documentation steps of add_variable/add_scope (VCs with a ghost map from "
             "entity to its documentation: a forward block is consumed by exactly the next entity, any other block lands on the "
             "last entity only, nothing stays pending); structural obligations on parse_docs/get_docstring (block boundaries) and "
             "on the active-parameter computation of serve_signature. Equivalence of the hover text with the source declaration, "
             "procedure hovers and the active parameter are decided only on declarations generated from a grammar with a known "
             "ground truth (bounded stand-in, not proof).",
        note="declaration-text equivalence needs a Fortran declaration grammar as specification; the regex pipeline is covered "
             "by the generator only.",
        technique="VCs (pyvc mode F) with ghost documentation map; structural obligations; generated-declaration hover/signature oracle as bounded stand-in",
        design="3/C11"),
    "C12": dict(
        text="Filter layer: the prefix filter of serve_autocomplete.get_candidates (VCs on a mechanical slice of the real "
             "nested function, loop invariant with fold specification) keeps exactly the candidates whose renamed or own "
             "lower-cased name starts with the prefix, with the rename list kept aligned; Scope.get_children(public_only) "
             "returns exactly the children not private in the scope (VCs); the context table (USE -> modules, ONLY -> public "
             "members, CALL -> callable, TYPE( -> types, object% -> its type's members without globals) and the inclusion of "
             "inherited members are structural obligations. Completion probes on a three-file program are the bounded "
             "stand-in.",
        note="Candidate generation through the USE tree (ONLY/rename merge) and the statement-context classifier are not "
             "decided (C05's layer); the slice drops the part of get_candidates that collects candidates.",
        technique="VCs (pyvc mode F) on a mechanical slice + fold specifications; structural context table; native probes as bounded stand-in",
        design="3/C12"),
}

NOT_APPLICABLE = {
    "C13": "relational two-run property over the whole regex parser; per-function contracts give only local lemmas "
           "that do not compose to it without a second, layout-normalising parser (a model)",
    "C14": "same relational shape as C13, and detect_fixed_format is a heuristic with no specification independent "
           "of its code",
}

ALL = [f"C{n:02d}" for n in range(1, 21)]


def main():
    checks = []
    for pid, c in sorted(CLAIMS.items()):
        checks.append({
            "property_id": pid,
            "quick_cmd": f"./check {pid} --tier quick",
            "thorough_cmd": f"./check {pid} --tier thorough",
            "evidence_file": f"evidence/{pid}.json",
            "replay_cmd_template": f"./check {pid} --replay {{path}}",
            "engine": "pyvc",
            "level_claimed": {"category": c.get("category", "proof"), "text": c["text"], "design_ref": c["design"]},
            "level_note": c["note"],
            "technique": c["technique"],
        })
    na = []
    for pid in ALL:
        if pid in CLAIMS:
            continue
        reason = NOT_APPLICABLE.get(pid, "check not built yet in this session (planned in DESIGN.md section 3); "
                                         "not claimed until its obligations are discharged on the unchanged tree")
        na.append({"property_id": pid, "reason": reason})
    man = {
        "version": 1,
        "setup_cmd": "./setup.sh",
        "hooks": {"guard": "FORTLS_VERIF", "enable": "none: contracts are sidecar files under /verif/contracts; "
                  "the repository is read from its working tree (PYTHONPATH=/repo), no instrumentation",
                  "baseline_off_cmd": "cd /repo && /venv/bin/python -m pytest -ra -q -p no:cacheprovider "
                                      "--timeout=900 --continue-on-collection-errors",
                  "source_commits": [], "add_only": True},
        "engines": [
            {"name": "pyvc", "path": "pyvc/", "serves_properties": sorted(CLAIMS),
             "kind_free_text": "verification-condition generator over the Python AST of /repo (symbolic execution "
                               "with contracts, loop invariants, frame/effect and termination obligations) "
                               "discharged by z3 5.1 and cvc5 1.0.3 through SMT-LIB"},
        ],
        "checks": checks,
        "not_applicable": na,
        "notes": "fix: commits in /repo are listed in known_findings.txt as 'fixed:' lines. Exit codes of ./check: 0 every obligation "
                 "discharged (known findings printed as KNOWN-FINDING lines); 1 a violation (VIOLATION line; with the failing input "
                 "replayed on the real code, or ending in no-failing-input-found for a refuted condition or a finding of the effect / "
                 "class-flow analyses); 2 undecided: solver unknown, a counter-model that did not replay, or a contract / shape "
                 "obligation that no longer binds to the code as it is written and for which the bounded native search found no "
                 "failing input (UNDECIDED lines; not a violation, see DESIGN 9.4c); 3 error of the checker itself.",
    }
    with open(os.path.join(VERIF, "MANIFEST.json"), "w") as f:
        json.dump(man, f, indent=1)
    print("MANIFEST.json written:", len(checks), "checks,", len(na), "not applicable")


if __name__ == "__main__":
    main()
