"""Static types of symbolic values and the values themselves."""
from __future__ import annotations

from . import smt
from .smt import Term


class Ty:
    def __eq__(self, o):
        return type(self) is type(o) and self.__dict__ == o.__dict__

    def __hash__(self):
        return hash(repr(self))

    def __repr__(self):
        args = ",".join(f"{v!r}" for v in self.__dict__.values())
        return f"{type(self).__name__}({args})"


class TInt(Ty):
    pass


class TBool(Ty):
    pass


class TStr(Ty):
    pass


class TNone(Ty):
    pass


class TJson(Ty):
    """Any JSON-like python value (opaque; uninterpreted sort Json)."""


class TSeq(Ty):
    def __init__(self, elem: Ty):
        self.elem = elem


class TOpt(Ty):
    def __init__(self, inner: Ty):
        self.inner = inner


class TTup(Ty):
    def __init__(self, items):
        self.items = tuple(items)


class TRec(Ty):
    """A dict with a fixed set of constant string keys (TypedDict).  Optional keys carry a
    presence flag.  Encoded as an SMT datatype so it can live inside sequences."""

    def __init__(self, name: str, fields: dict, optional=()):
        self.name = name
        self.fields = dict(fields)
        self.optional = tuple(optional)

    def __repr__(self):
        return f"TRec({self.name})"

    def __eq__(self, o):
        return isinstance(o, TRec) and o.name == self.name

    def __hash__(self):
        return hash(self.name)


class TMap(Ty):
    """dict[K, V] encoded as (Array K (Option V))."""

    def __init__(self, key: Ty, val: Ty):
        self.key = key
        self.val = val


class TObj(Ty):
    """Reference to an object of a repository class, addressed by access path."""

    def __init__(self, cls: str):
        self.cls = cls


class TRef(Ty):
    """An immutable view of a repository object inside a VC: an element of the uninterpreted sort Ref whose fields
    are uninterpreted functions (declared in the contract's `ref_fields`), pure methods likewise (`ref_methods`)."""

    def __init__(self, cls: str):
        self.cls = cls


class TSet(Ty):
    """set[T] encoded as (Array T Bool); iteration order unconstrained."""

    def __init__(self, elem: Ty):
        self.elem = elem


INT, BOOL, STR, NONE, JSON = TInt(), TBool(), TStr(), TNone(), TJson()


def sort_of(ty: Ty, decls: smt.Decls) -> str:
    if isinstance(ty, TInt):
        return smt.INT
    if isinstance(ty, TBool):
        return smt.BOOL
    if isinstance(ty, TStr):
        return smt.STR
    if isinstance(ty, TJson):
        return decls.usort("Json")
    if isinstance(ty, TSeq):
        return smt.SeqS(sort_of(ty.elem, decls))
    if isinstance(ty, TOpt):
        return decls.option(sort_of(ty.inner, decls))
    if isinstance(ty, TSet):
        return smt.ArrayS(sort_of(ty.elem, decls), smt.BOOL)
    if isinstance(ty, TMap):
        return smt.ArrayS(sort_of(ty.key, decls), decls.option(sort_of(ty.val, decls)))
    if isinstance(ty, TRec):
        fields = []
        for f, fty in ty.fields.items():
            if f in ty.optional:
                fields.append(("has_" + f, smt.BOOL))
            fields.append((f, sort_of(fty, decls)))
        return decls.record(ty.name, fields)
    if isinstance(ty, TTup):
        name = "Tup_" + "_".join(smt.mangle(sort_of(t, decls)) for t in ty.items)
        return decls.record(name, [(f"f{i}", sort_of(t, decls)) for i, t in enumerate(ty.items)])
    if isinstance(ty, (TObj, TRef)):
        return decls.usort("Ref")
    raise TypeError(f"no SMT sort for {ty}")


# ---------------------------------------------------------------- values
class Val:
    ty: Ty


class V(Val):
    """A value represented by an SMT term."""

    __slots__ = ("ty", "t")

    def __init__(self, ty: Ty, t: Term):
        self.ty = ty
        self.t = t

    def __repr__(self):
        return f"V({self.ty},{self.t.s[:60]})"


class NoneV(Val):
    ty = NONE

    def __repr__(self):
        return "NoneV"


class TupV(Val):
    def __init__(self, items):
        self.items = list(items)
        self.ty = TTup([i.ty for i in self.items])

    def __repr__(self):
        return f"TupV({self.items})"


class ObjV(Val):
    """Reference to an object by access path (distinct paths = distinct objects: assumed)."""

    def __init__(self, cls: str, path: tuple, present=None):
        self.ty = TObj(cls)
        self.cls = cls
        self.path = tuple(path)
        self.present = present  # None: certainly an object; a Bool term: the value is None unless it holds

    def __repr__(self):
        return f"ObjV({self.cls},{'.'.join(self.path)})"


class DictV(Val):
    """A python dict literal with constant string keys, kept at python level."""

    def __init__(self, items: dict):
        self.items = dict(items)
        self.ty = TJson()

    def __repr__(self):
        return f"DictV({list(self.items)})"


class ListV(Val):
    """A python list of concrete length whose items are not SMT-representable together."""

    def __init__(self, items):
        self.items = list(items)
        self.ty = TJson()


class FnV(Val):
    """A callable: kind in {'nested','bound','lambda','spec','builtin','symbolic'}."""

    def __init__(self, kind: str, **kw):
        self.kind = kind
        self.ty = TJson()
        self.__dict__.update(kw)

    def __repr__(self):
        return f"FnV({self.kind})"


class ExcV(Val):
    def __init__(self, cls: str, fields: dict | None = None, origin: str = ""):
        self.cls = cls
        self.fields = fields or {}
        self.origin = origin
        self.ty = TObj(cls)

    def __repr__(self):
        return f"ExcV({self.cls}@{self.origin})"
