"""Contract objects (sidecar data; repository files are never edited)."""
from __future__ import annotations

from .types import Ty


class LoopSpec:
    def __init__(self, fingerprint: str, invariants=(), variant: str | None = None, index: str | None = None,
                 unroll: bool = False, abstract: bool = False, allow_writes=(), ghost: dict | None = None):
        self.fingerprint = fingerprint  # must equal the loop header text in the current source
        self.invariants = list(invariants)  # [(name, expr)]
        self.variant = variant
        self.index = index
        self.unroll = unroll
        # abstract=True: the loop is outside the property; its body is not executed symbolically.  Instead a
        # frame obligation (mode E) shows that nothing it can reach writes a field the contract talks about.
        self.abstract = abstract
        self.allow_writes = tuple(allow_writes)
        # ghost loop variables: name -> (type, initial expr, expr giving the value after one more iteration)
        self.ghost = ghost or {}


class Raises:
    """An exceptional outcome a callee may have: class, when-condition (pre-state expr or None)
    and the post-state it guarantees."""

    def __init__(self, cls: str, when: str | None = None, ensures=(), fields: dict | None = None):
        self.cls = cls
        self.when = when
        self.ensures = list(ensures)
        self.fields = fields or {}


class Contract:
    def __init__(self, qualname: str, *, prop: str = "", params: dict | None = None, fields: dict | None = None,
                 requires=(), ensures=(), raises=(), no_raise: bool = True, modifies=(), loops: dict | None = None,
                 calls: dict | None = None, result: Ty | None = None, locals_: dict | None = None,
                 assumed: bool = False, note: str = "", receiver_cls: str | None = None,
                 ghost: dict | None = None, pure: bool = False, short: str | None = None,
                 nested_in: str | None = None, abstract_stmts: dict | None = None,
                 ref_fields: dict | None = None, ref_methods: dict | None = None):
        self.qualname = qualname
        self.prop = prop
        self.params = params or {}  # name -> Ty  (self handled through receiver_cls)
        self.fields = fields or {}  # "self.x.y" -> Ty : heap typing
        self.requires = list(requires)  # [(name, expr)]
        self.ensures = list(ensures)  # [(name, expr)]
        self.raises = list(raises)  # [Raises]
        self.no_raise = no_raise  # every exception class not listed in raises is a violation
        self.modifies = list(modifies)  # ["self.x", ...] heap paths the function may write
        self.loops = loops or {}  # ordinal -> LoopSpec
        self.calls = calls or {}  # callee expr text -> qualname | CallSpec | 'inline'
        self.result = result
        self.locals = locals_ or {}  # local name -> Ty (for `[]` / `{}` initialisers)
        self.assumed = assumed  # used at call sites, not verified here (listed in trusted base)
        self.note = note
        self.receiver_cls = receiver_cls
        self.ghost = ghost or {}
        self.pure = pure
        self.short = short or ".".join(qualname.split(".")[-2:])
        self.nested_in = nested_in
        # statements outside the property, keyed by their source text (ast.unparse): not executed; a frame
        # obligation shows they write no field the contract talks about (value: allowed field names)
        self.abstract_stmts = abstract_stmts or {}
        # objects seen as immutable references: (class, field) -> type; (class, method) -> (arg types, result type)
        self.ref_fields = ref_fields or {}
        self.ref_methods = ref_methods or {}


class Registry:
    def __init__(self):
        self.contracts: dict[str, Contract] = {}

    def add(self, c: Contract) -> Contract:
        self.contracts[c.qualname] = c
        return c

    def get(self, q: str) -> Contract:
        return self.contracts[q]

    def assumed(self):
        return [c for c in self.contracts.values() if c.assumed]


class FrameCall:
    """A call that is outside the property: it is not given a functional contract.  The verifier (mode E)
    shows that nothing reachable from it writes a field the caller's contract talks about (except
    allow_writes), and uses a fresh value of `result` for what it returns.  `raises` lists exception
    classes it may raise; exception freedom otherwise is an assumption recorded in the evidence."""

    def __init__(self, result=None, raises=(), allow_writes=(), note: str = "", modifies=()):
        self.result = result
        self.raises = tuple(raises)
        self.allow_writes = tuple(allow_writes)
        self.note = note
        self.modifies = tuple(modifies)  # declared heap paths of the caller's contract it may change (havocked)
