"""Mode E — whole-package call graph, write sets and primitive effects (DESIGN 2.2).

The graph over-approximates: a method call `x.m(...)` whose receiver class is unknown is resolved
to every method named `m` in the package (plus, for names that are also methods of builtin
containers, the builtin).  Dynamic escape hatches (getattr/setattr/globals/__import__/importlib
with non-constant names) are themselves reported as effects.
"""
from __future__ import annotations

import ast
from collections import defaultdict

from .source import Repo, FuncInfo

MUTATORS = {"append", "extend", "pop", "insert", "remove", "reverse", "sort", "add", "update", "clear",
            "popleft", "appendleft", "extendleft", "discard", "setdefault", "rotate", "popitem"}


class FuncEffects:
    def __init__(self, q: str, info: FuncInfo):
        self.q = q
        self.info = info
        self.calls: list[tuple[str, ast.Call]] = []  # resolved internal callees (qualnames)
        self.externals: list[tuple[str, ast.Call]] = []  # dotted external names, e.g. os.path.isfile, eval
        self.writes: list[tuple[str, str, ast.AST]] = []  # (receiver text, field, node)
        self.param_mutations: list[tuple[str, str, ast.AST]] = []  # (param, how, node)
        self.global_writes: list[tuple[str, ast.AST]] = []
        self.dynamic: list[tuple[str, ast.AST]] = []
        self.call_kind: dict = {}  # (callee, id(node)) -> 'self' | 'fresh' | 'other'
        self.fresh_locals: set = set()


class Effects:
    def __init__(self, repo: Repo):
        self.repo = repo
        self.funcs: dict[str, FuncEffects] = {}
        self.methods_by_name: dict[str, list[str]] = defaultdict(list)
        self.class_methods: dict[str, dict[str, str]] = {}  # class qualname -> {method -> qualname}
        self.class_bases: dict[str, list[str]] = {}
        self.class_by_short: dict[str, list[str]] = defaultdict(list)
        self.imports: dict[str, dict[str, str]] = {}  # module -> {local name -> dotted target}
        self._build()

    # ------------------------------------------------------------------ construction
    def _build(self):
        repo = self.repo
        for mname, mod in repo.modules.items():
            imp = {}
            for node in ast.walk(mod.tree):
                if isinstance(node, ast.Import):
                    for a in node.names:
                        imp[a.asname or a.name.split(".")[0]] = a.name if a.asname else a.name.split(".")[0]
                elif isinstance(node, ast.ImportFrom) and node.module:
                    for a in node.names:
                        imp[a.asname or a.name] = node.module + "." + a.name
            self.imports[mname] = imp
        for cq, mod, node in repo.classes():
            self.class_by_short[node.name].append(cq)
            self.class_bases[cq] = [ast.unparse(b) for b in node.bases]
            self.class_methods[cq] = {}
        for q, info in repo.all_functions():
            fe = FuncEffects(q, info)
            self.funcs[q] = fe
            if info.cls is not None and len(info.chain) >= 2 and info.chain[-2] is info.cls:
                cq = q.rsplit(".", 1)[0]
                self.class_methods.setdefault(cq, {})[info.node.name] = q
                self.methods_by_name[info.node.name].append(q)
        for q, fe in self.funcs.items():
            self._scan(fe)

    def _module_func_list(self, mname: str, name: str):
        mod = self.repo.modules.get(mname)
        if mod is None:
            return None
        for node in mod.tree.body:
            if isinstance(node, ast.Assign) and any(isinstance(t, ast.Name) and t.id == name for t in node.targets) \
                    and isinstance(node.value, (ast.List, ast.Tuple)) and node.value.elts \
                    and all(isinstance(e, ast.Name) for e in node.value.elts):
                out = [mname + "." + e.id for e in node.value.elts if (mname + "." + e.id) in self.funcs]
                if len(out) == len(node.value.elts):
                    return out
        return None

    def _resolve_class(self, name: str, mname: str):
        tgt = self.imports.get(mname, {}).get(name)
        if tgt and tgt in self.class_methods:
            return tgt
        if (mname + "." + name) in self.class_methods:
            return mname + "." + name
        c = self.class_by_short.get(name)
        return c[0] if c else None

    def method_of(self, cq: str, name: str):
        seen = set()
        stack = [cq]
        while stack:
            c = stack.pop(0)
            if c in seen or c is None:
                continue
            seen.add(c)
            m = self.class_methods.get(c, {}).get(name)
            if m:
                return m
            mname = c.rsplit(".", 1)[0]
            for b in self.class_bases.get(c, []):
                stack.append(self._resolve_class(b.split(".")[-1], mname))
        return None

    def subclasses(self, cq: str):
        out = [cq]
        changed = True
        while changed:
            changed = False
            for c, bases in self.class_bases.items():
                if c in out:
                    continue
                mname = c.rsplit(".", 1)[0]
                if any(self._resolve_class(b.split(".")[-1], mname) in out for b in bases):
                    out.append(c)
                    changed = True
        return out

    def _scan(self, fe: FuncEffects):
        info = fe.info
        mname = info.mod.name
        imp = self.imports.get(mname, {})
        params = {a.arg for a in info.node.args.args + info.node.args.kwonlyargs}
        if info.node.args.vararg:
            params.add(info.node.args.vararg.arg)
        own_cls = None
        if info.cls is not None:
            own_cls = mname + "." + info.cls.name
        nested_here = {}
        for depth in range(len(info.chain), 0, -1):
            parent = info.chain[depth - 1]
            if isinstance(parent, (ast.FunctionDef,)):
                prefix = mname + "." + ".".join(c.name for c in info.chain[:depth])
                for ch in ast.iter_child_nodes(parent):
                    pass
                for sub in _direct_defs(parent):
                    nested_here.setdefault(sub.name, prefix + "." + sub.name)
        local_assigned = {n.id for n in _walk_own(info.node) if isinstance(n, ast.Name) and isinstance(n.ctx, ast.Store)}
        # locals that only ever hold objects constructed in this function ("fresh"): x = Cls(...)
        assigned_from: dict[str, list] = defaultdict(list)
        for n in _walk_own(info.node):
            if isinstance(n, ast.Assign):
                for t in n.targets:
                    if isinstance(t, ast.Name):
                        assigned_from[t.id].append(n.value)
                    else:
                        for sub in ast.walk(t):
                            if isinstance(sub, ast.Name) and isinstance(sub.ctx, ast.Store):
                                assigned_from[sub.id].append(None)
            elif isinstance(n, (ast.For, ast.With, ast.AugAssign, ast.AnnAssign, ast.NamedExpr, ast.ExceptHandler)):
                for sub in ast.walk(n.target if hasattr(n, "target") else n):
                    if isinstance(sub, ast.Name) and isinstance(sub.ctx, ast.Store):
                        assigned_from[sub.id].append(None)

        def is_ctor(v):
            return (isinstance(v, ast.Call) and isinstance(v.func, ast.Name)
                    and self._resolve_class(v.func.id, mname) is not None and v.func.id not in params)

        # `for f in TABLE: f(...)` where TABLE is a module-level list of function names
        loop_over_funcs = {}
        for n in _walk_own(info.node):
            if isinstance(n, ast.For) and isinstance(n.target, ast.Name) and isinstance(n.iter, ast.Name):
                tbl = self._module_func_list(mname, n.iter.id)
                if tbl:
                    loop_over_funcs[n.target.id] = tbl
        fresh_locals = {x for x, vals in assigned_from.items() if vals and all(is_ctor(v) for v in vals)
                        and x not in params}
        fe.fresh_locals = fresh_locals

        def root_name(n):
            while isinstance(n, (ast.Attribute, ast.Subscript, ast.Call)):
                n = n.value if not isinstance(n, ast.Call) else n.func
            return n.id if isinstance(n, ast.Name) else None

        def wcls(recv_node):
            if isinstance(recv_node, ast.Name) and recv_node.id in fresh_locals:
                return "<fresh>"
            return own_cls if isinstance(recv_node, ast.Name) and recv_node.id == "self" else None

        def record_write(target, node):
            if isinstance(target, ast.Attribute):
                fe.writes.append((ast.unparse(target.value), target.attr, node, wcls(target.value)))
                r = root_name(target)
                if r in params and r != "self":
                    fe.param_mutations.append((r, f"{ast.unparse(target)} = ...", node))
            elif isinstance(target, ast.Subscript):
                inner = target.value
                if isinstance(inner, ast.Attribute):
                    fe.writes.append((ast.unparse(inner.value), inner.attr, node, wcls(inner.value)))
                r = root_name(target)
                if r in params and r != "self":
                    fe.param_mutations.append((r, f"{ast.unparse(target)} = ...", node))
            elif isinstance(target, (ast.Tuple, ast.List)):
                for e in target.elts:
                    record_write(e, node)
            elif isinstance(target, ast.Starred):
                record_write(target.value, node)

        globals_decl = set()
        for n in _walk_own(info.node):
            if isinstance(n, ast.Global):
                globals_decl |= set(n.names)
        for n in _walk_own(info.node):
            if isinstance(n, ast.Assign):
                for t in n.targets:
                    record_write(t, n)
                    if isinstance(t, ast.Name) and t.id in globals_decl:
                        fe.global_writes.append((t.id, n))
            elif isinstance(n, (ast.AugAssign, ast.AnnAssign)):
                record_write(n.target, n)
                if isinstance(n.target, ast.Name) and n.target.id in globals_decl:
                    fe.global_writes.append((n.target.id, n))
            elif isinstance(n, ast.Delete):
                for t in n.targets:
                    record_write(t, n)
            elif isinstance(n, ast.Call):
                f = n.func
                if isinstance(f, ast.Name):
                    name = f.id
                    if name in ("getattr", "setattr", "globals", "vars", "__import__", "delattr"):
                        const = len(n.args) >= 2 and isinstance(n.args[1], ast.Constant)
                        if name == "setattr":
                            fe.writes.append((ast.unparse(n.args[0]) if n.args else "?", "*", n,
                                              wcls(n.args[0]) if n.args else None))
                        if not const:
                            fe.dynamic.append((name, n))
                    if name in nested_here and name not in params:
                        fe.calls.append((nested_here[name], n))
                    elif name in loop_over_funcs:
                        for t in loop_over_funcs[name]:
                            fe.calls.append((t, n))
                    elif name in local_assigned or name in params:
                        fe.dynamic.append((f"call of local value {name}", n))
                    elif name in imp:
                        tgt = imp[name]
                        if tgt in self.funcs:
                            fe.calls.append((tgt, n))
                        elif tgt in self.class_methods:
                            init = self.method_of(tgt, "__init__")
                            if init:
                                fe.calls.append((init, n))
                                fe.call_kind[(init, id(n))] = "fresh"
                        else:
                            fe.externals.append((tgt, n))
                    elif (mname + "." + name) in self.funcs:
                        fe.calls.append((mname + "." + name, n))
                    elif (mname + "." + name) in self.class_methods:
                        init = self.method_of(mname + "." + name, "__init__")
                        if init:
                            fe.calls.append((init, n))
                            fe.call_kind[(init, id(n))] = "fresh"
                    else:
                        fe.externals.append((name, n))
                elif isinstance(f, ast.Attribute):
                    meth = f.attr
                    recv = f.value
                    rtxt = ast.unparse(recv)
                    r = root_name(f)
                    # module-qualified call (os.path.join, re.compile, json.dumps, ...)
                    if isinstance(recv, (ast.Name, ast.Attribute)) and r in imp and r not in params and r not in local_assigned:
                        dotted = imp[r] + rtxt[len(r):] + "." + meth
                        if dotted in self.funcs:
                            fe.calls.append((dotted, n))
                        else:
                            cq = imp[r] + rtxt[len(r):]
                            if cq in self.class_methods and self.method_of(cq, meth):
                                fe.calls.append((self.method_of(cq, meth), n))
                            else:
                                fe.externals.append((dotted, n))
                        continue
                    if meth in MUTATORS:
                        if isinstance(recv, ast.Attribute):
                            fe.writes.append((ast.unparse(recv.value), recv.attr, n, wcls(recv.value)))
                        if r in params and r != "self":
                            fe.param_mutations.append((r, f"{rtxt}.{meth}(...)", n))
                    targets = []
                    if isinstance(recv, ast.Name) and recv.id == "self" and own_cls:
                        for c in self.subclasses(own_cls):
                            m = self.method_of(c, meth)
                            if m and m not in targets:
                                targets.append(m)
                    elif isinstance(recv, ast.Call) and isinstance(recv.func, ast.Name) and recv.func.id == "super" and own_cls:
                        for b in self.class_bases.get(own_cls, []):
                            bc = self._resolve_class(b.split(".")[-1], mname)
                            m = self.method_of(bc, meth) if bc else None
                            if m:
                                targets.append(m)
                    else:
                        cls = self._resolve_class(rtxt, mname) if isinstance(recv, ast.Name) else None
                        if cls and self.method_of(cls, meth):
                            targets.append(self.method_of(cls, meth))
                        else:
                            targets = list(self.methods_by_name.get(meth, []))
                    kind = "other"
                    if isinstance(recv, ast.Name) and recv.id == "self":
                        kind = "self"
                    elif isinstance(recv, ast.Name) and recv.id in fresh_locals:
                        kind = "fresh"
                    for t in targets:
                        fe.calls.append((t, n))
                        fe.call_kind[(t, id(n))] = kind
                    if not targets or meth in BUILTIN_METHOD_NAMES:
                        fe.externals.append((f"<obj>.{meth}", n))
                else:
                    fe.dynamic.append((f"call of {type(f).__name__}", n))

    # ------------------------------------------------------------------ queries
    def reachable(self, roots, stop=()):
        """Transitive callees: returns {qualname: predecessor or None} (for path reconstruction)."""
        pred = {}
        stack = []
        for r in roots:
            if r in self.funcs:
                pred[r] = None
                stack.append(r)
        while stack:
            q = stack.pop()
            if q in stop:
                continue
            for callee, _ in self.funcs[q].calls:
                if callee not in pred and callee in self.funcs:
                    pred[callee] = q
                    stack.append(callee)
            # a nested function is reachable as soon as its parent runs only if called; closures that
            # are passed as values (lambda/handlers) are covered by 'dynamic' reports
        return pred

    def path(self, pred, q):
        out = []
        while q is not None:
            out.append(q)
            q = pred.get(q)
        return list(reversed(out))

    def writers_of(self, field: str, among=None):
        out = []
        for q, fe in self.funcs.items():
            if among is not None and q not in among:
                continue
            for recv, f, node, cls in fe.writes:
                if f == field or f == "*":
                    out.append((q, recv, node, cls))
        return out

    def related(self, c1: str | None, c2: str | None) -> bool:
        """May an object of (static) class c1 be an instance of class c2 or vice versa?  None = unknown."""
        if c1 is None or c2 is None:
            return True
        return c1 in self.subclasses(c2) or c2 in self.subclasses(c1)

    # (function qualname, receiver text) -> class short name, declared by a contract (listed among its assumptions)
    receiver_classes: dict = {}

    def _excluded_by_hint(self, q, node, callee) -> bool:
        if not self.receiver_classes or not (isinstance(node, ast.Call) and isinstance(node.func, ast.Attribute)):
            return False
        hint = self.receiver_classes.get((q, ast.unparse(node.func.value)))
        hq = self.class_by_short.get(hint, [None])[0] if hint else None
        ccls = callee.rsplit(".", 1)[0]
        return hq is not None and ccls in self.class_methods and not self.related(ccls, hq)

    def reachable_ctx(self, roots):
        """Reachability over (function, self_is_fresh) pairs.  roots: [(qualname, fresh)]."""
        pred = {}
        stack = []
        for r in roots:
            if r[0] in self.funcs and r not in pred:
                pred[r] = None
                stack.append(r)
        while stack:
            q, fresh = stack.pop()
            fe = self.funcs[q]
            for callee, node in fe.calls:
                if callee not in self.funcs:
                    continue
                if self._excluded_by_hint(q, node, callee):
                    continue
                kind = fe.call_kind.get((callee, id(node)), "other")
                nf = True if kind == "fresh" else (fresh if kind == "self" else False)
                key = (callee, nf)
                if key not in pred:
                    pred[key] = (q, fresh)
                    stack.append(key)
        return pred

    def block_writes(self, q: str, lo: int, hi: int, calls_only: bool = False, recv_hints: dict | None = None):
        """Fields of pre-existing objects written by the statements of function q between source lines
        lo..hi, directly or through calls made there (transitively).  Writes to objects constructed inside
        the examined code (x = Cls(...); x.m(); writes through `self` inside Cls.__init__ / x.m) are not
        writes to pre-existing objects and are left out.  Returns ([(field, cls, call path, where)], dynamic)."""
        fe = self.funcs[q]
        out = []
        for recv, f, node, cls in fe.writes:
            if calls_only:
                break
            if lo <= node.lineno <= hi and cls != "<fresh>":
                out.append((f, cls, [q], f"{fe.info.where(node)}"))
        roots = []
        for c, node in fe.calls:
            if lo <= node.lineno <= hi:
                # the contract declares the class of the receiver (`self.ast`: FortranAST): candidates of the
                # name-based resolution that are methods of unrelated classes are not callees of this call
                if recv_hints and isinstance(node, ast.Call) and isinstance(node.func, ast.Attribute):
                    hint = recv_hints.get(ast.unparse(node.func.value))
                    hq = self.class_by_short.get(hint, [None])[0] if hint else None
                    ccls = c.rsplit(".", 1)[0]
                    if hq is not None and ccls in self.class_methods and not self.related(ccls, hq):
                        continue
                kind = fe.call_kind.get((c, id(node)), "other")
                roots.append((c, kind == "fresh"))
        pred = self.reachable_ctx(roots)
        dyn = [(d, fe.info.where(node)) for d, node in fe.dynamic if lo <= node.lineno <= hi]
        for (callee, fresh) in pred:
            cfe = self.funcs[callee]
            for recv, f, node, cls in cfe.writes:
                if cls == "<fresh>":
                    continue
                if fresh and recv == "self":
                    continue
                chain = [q] + [x[0] + ("[fresh self]" if x[1] else "") for x in self.path(pred, (callee, fresh))]
                out.append((f, cls, chain, cfe.info.where(node)))
            dyn += [(d, cfe.info.where(node)) for d, node in cfe.dynamic]
        return out, dyn


BUILTIN_METHOD_NAMES = {"get", "pop", "items", "keys", "values", "append", "extend", "copy", "update", "add",
                        "format", "join", "split", "strip", "lower", "upper", "replace", "find", "startswith",
                        "endswith", "match", "search", "group", "start", "end", "read", "write", "close", "count",
                        "index", "insert", "remove", "sort", "reverse", "encode", "decode", "readline", "flush"}


def _direct_defs(node):
    out = []
    stack = list(ast.iter_child_nodes(node))
    while stack:
        n = stack.pop(0)
        if isinstance(n, (ast.FunctionDef, ast.AsyncFunctionDef)):
            out.append(n)
            continue
        if isinstance(n, (ast.ClassDef, ast.Lambda)):
            continue
        stack += list(ast.iter_child_nodes(n))
    return out


def _walk_own(fn: ast.AST):
    """Walk a function's own body, not descending into nested defs/classes (lambdas included)."""
    stack = list(ast.iter_child_nodes(fn))
    while stack:
        n = stack.pop()
        if isinstance(n, (ast.FunctionDef, ast.AsyncFunctionDef, ast.ClassDef)):
            continue
        yield n
        stack += list(ast.iter_child_nodes(n))
