"""SMT-LIB 2.6 term layer for pyvc.

Terms are (sort, s-expression string) pairs printed directly as SMT-LIB text so that the very
same query goes to z3 and to cvc5 (z3py's own printer emits internal names such as
seq.nth_i that cvc5 rejects).  Sorts are plain strings.  Datatypes (options, tuples, records)
are declared on demand in a per-script registry.
"""
from __future__ import annotations

import itertools
import os
import re
import shutil
import signal
import subprocess
import tempfile
import time

INT = "Int"
BOOL = "Bool"
STR = "String"


def SeqS(elem: str) -> str:
    return f"(Seq {elem})"


def is_seq(sort: str) -> bool:
    return sort.startswith("(Seq ")


def seq_elem(sort: str) -> str:
    assert is_seq(sort), sort
    return sort[5:-1]


def ArrayS(k: str, v: str) -> str:
    return f"(Array {k} {v})"


def mangle(sort: str) -> str:
    return re.sub(r"[^A-Za-z0-9]+", "_", sort).strip("_")


class Term:
    __slots__ = ("sort", "s")

    def __init__(self, sort: str, s: str):
        self.sort = sort
        self.s = s

    def __repr__(self):
        return f"<{self.sort}: {self.s}>"


def T(sort, s) -> Term:
    return Term(sort, s)


def app(sort: str, op: str, *args: Term) -> Term:
    return Term(sort, "(" + op + " " + " ".join(a.s for a in args) + ")")


# ---------------------------------------------------------------- literals
def IntVal(n: int) -> Term:
    return Term(INT, str(n) if n >= 0 else f"(- {-n})")


TRUE = Term(BOOL, "true")
FALSE = Term(BOOL, "false")


def BoolVal(b: bool) -> Term:
    return TRUE if b else FALSE


def smt_string_literal(s: str) -> str:
    out = []
    for ch in s:
        o = ord(ch)
        if ch == '"':
            out.append('""')
        elif ch == "\\":
            out.append("\\u{5c}")
        elif 32 <= o < 127:
            out.append(ch)
        else:
            out.append("\\u{%x}" % o)
    return '"' + "".join(out) + '"'


def StrVal(s: str) -> Term:
    return Term(STR, smt_string_literal(s))


# ---------------------------------------------------------------- boolean
def Not(a: Term) -> Term:
    if a.s == "true":
        return FALSE
    if a.s == "false":
        return TRUE
    if a.s.startswith("(not ") and a.s.endswith(")"):
        inner = a.s[5:-1]
        if _balanced(inner):
            return Term(BOOL, inner)
    return app(BOOL, "not", a)


def _balanced(s: str) -> bool:
    depth = 0
    in_str = False
    for i, ch in enumerate(s):
        if ch == '"':
            in_str = not in_str
        if in_str:
            continue
        if ch == "(":
            depth += 1
        elif ch == ")":
            depth -= 1
            if depth == 0 and i != len(s) - 1:
                return False
            if depth < 0:
                return False
    return depth == 0


def And(*args: Term) -> Term:
    xs = []
    for a in args:
        if a.s == "false":
            return FALSE
        if a.s != "true":
            xs.append(a)
    if not xs:
        return TRUE
    if len(xs) == 1:
        return xs[0]
    return app(BOOL, "and", *xs)


def Or(*args: Term) -> Term:
    xs = []
    for a in args:
        if a.s == "true":
            return TRUE
        if a.s != "false":
            xs.append(a)
    if not xs:
        return FALSE
    if len(xs) == 1:
        return xs[0]
    return app(BOOL, "or", *xs)


def Implies(a: Term, b: Term) -> Term:
    if a.s == "true":
        return b
    if a.s == "false" or b.s == "true":
        return TRUE
    return app(BOOL, "=>", a, b)


def Ite(c: Term, a: Term, b: Term) -> Term:
    assert a.sort == b.sort, (a, b)
    if c.s == "true":
        return a
    if c.s == "false":
        return b
    if a.s == b.s:
        return a
    return app(a.sort, "ite", c, a, b)


def Eq(a: Term, b: Term) -> Term:
    assert a.sort == b.sort, (a, b)
    if a.s == b.s:
        return TRUE
    return app(BOOL, "=", a, b)


def Ne(a, b):
    return Not(Eq(a, b))


# ---------------------------------------------------------------- ints
def _ints(*xs):
    for x in xs:
        assert x.sort == INT, x


def Add(a, b):
    _ints(a, b)
    if a.s == "0":
        return b
    if b.s == "0":
        return a
    if a.s.isdigit() and b.s.isdigit():
        return IntVal(int(a.s) + int(b.s))
    return app(INT, "+", a, b)


def Sub(a, b):
    _ints(a, b)
    if b.s == "0":
        return a
    if a.s.isdigit() and b.s.isdigit():
        return IntVal(int(a.s) - int(b.s))
    return app(INT, "-", a, b)


def Mul(a, b):
    _ints(a, b)
    return app(INT, "*", a, b)


def Neg(a):
    _ints(a)
    return app(INT, "-", a)


def Lt(a, b):
    _ints(a, b)
    return app(BOOL, "<", a, b)


def Le(a, b):
    _ints(a, b)
    return app(BOOL, "<=", a, b)


def Gt(a, b):
    return Lt(b, a)


def Ge(a, b):
    return Le(b, a)


def Max(a, b):
    return Ite(Ge(a, b), a, b)


def Min(a, b):
    return Ite(Le(a, b), a, b)


def FloorDiv(a, b):
    # python floor division; SMT div is Euclidean: equal when b > 0
    _ints(a, b)
    return Ite(
        Gt(b, IntVal(0)),
        app(INT, "div", a, b),
        app(INT, "div", Neg(a), Neg(b)),
    )


def Mod(a, b):
    # python modulo has the sign of the divisor
    _ints(a, b)
    return Sub(a, Mul(b, FloorDiv(a, b)))


# ---------------------------------------------------------------- strings / sequences
def Len(a: Term) -> Term:
    if a.sort == STR:
        return app(INT, "str.len", a)
    assert is_seq(a.sort), a
    return app(INT, "seq.len", a)


def Concat(a: Term, b: Term) -> Term:
    assert a.sort == b.sort, (a, b)
    if a.sort == STR:
        if a.s == '""':
            return b
        if b.s == '""':
            return a
        return app(STR, "str.++", a, b)
    return app(a.sort, "seq.++", a, b)


def Extract(a: Term, off: Term, ln: Term) -> Term:
    if a.sort == STR:
        return app(STR, "str.substr", a, off, ln)
    return app(a.sort, "seq.extract", a, off, ln)


def At(a: Term, i: Term) -> Term:
    """Element i: for strings a one-character string, for sequences the element."""
    if a.sort == STR:
        return app(STR, "str.at", a, i)
    return app(seq_elem(a.sort), "seq.nth", a, i)


def Unit(a: Term) -> Term:
    return app(SeqS(a.sort), "seq.unit", a)


def EmptySeq(sort: str) -> Term:
    return Term(sort, f"(as seq.empty {sort})")


def SeqLit(elem_sort: str, items: list[Term]) -> Term:
    sort = SeqS(elem_sort)
    if not items:
        return EmptySeq(sort)
    t = Unit(items[0])
    for it in items[1:]:
        t = Concat(t, Unit(it))
    return t


def Contains(a: Term, b: Term) -> Term:
    if a.sort == STR:
        return app(BOOL, "str.contains", a, b)
    return app(BOOL, "seq.contains", a, b)


def PrefixOf(pre: Term, s: Term) -> Term:
    return app(BOOL, "str.prefixof" if s.sort == STR else "seq.prefixof", pre, s)


def SuffixOf(suf: Term, s: Term) -> Term:
    return app(BOOL, "str.suffixof" if s.sort == STR else "seq.suffixof", suf, s)


def IndexOf(s: Term, sub: Term, start: Term) -> Term:
    return app(INT, "str.indexof" if s.sort == STR else "seq.indexof", s, sub, start)


def StrFromInt(a: Term) -> Term:
    """str(n) for n >= 0 (str.from_int gives "" for negatives; callers add the sign)."""
    return Ite(
        Ge(a, IntVal(0)),
        app(STR, "str.from_int", a),
        Concat(StrVal("-"), app(STR, "str.from_int", Neg(a))),
    )


# ---------------------------------------------------------------- arrays
def Select(a: Term, k: Term) -> Term:
    m = re.match(r"\(Array (.+)\)$", a.sort)
    ks, vs = split_sorts(m.group(1))
    assert ks == k.sort, (a, k)
    return app(vs, "select", a, k)


def Store(a: Term, k: Term, v: Term) -> Term:
    return app(a.sort, "store", a, k, v)


def split_sorts(s: str) -> list[str]:
    out, depth, cur = [], 0, ""
    for ch in s:
        if ch == "(":
            depth += 1
        elif ch == ")":
            depth -= 1
        if ch == " " and depth == 0:
            if cur:
                out.append(cur)
            cur = ""
        else:
            cur += ch
    if cur:
        out.append(cur)
    return out


# ---------------------------------------------------------------- declarations
class Decls:
    """Everything a script needs before its assertions: datatypes, constants, functions,
    axioms.  One instance is shared by all obligations of a verification run."""

    def __init__(self):
        self.datatypes: dict[str, str] = {}  # sort name -> declaration text
        self.dt_order: list[str] = []
        self.consts: dict[str, str] = {}  # name -> sort
        self.funs: dict[str, tuple[list[str], str]] = {}
        self.axioms: list[tuple[str, Term]] = []  # quantified axioms (proof attempts only)
        self.ground: list[tuple[str, Term]] = []  # ground instances of them (always asserted)
        self._ground_seen: set = set()
        self.dt_fields: dict[str, list[tuple[str, str]]] = {}
        self._fresh = itertools.count()

    # --- datatypes
    def option(self, inner: str) -> str:
        name = "Opt_" + mangle(inner)
        if name not in self.datatypes:
            self.datatypes[name] = (
                f"(declare-datatypes (({name} 0)) (((none_{name}) (some_{name} (val_{name} {inner})))))"
            )
            self.dt_order.append(name)
            self.dt_fields[name] = [("val", inner)]
        return name

    def record(self, name: str, fields: list[tuple[str, str]]) -> str:
        if name not in self.datatypes:
            fs = " ".join(f"({name}_{f} {s})" for f, s in fields)
            self.datatypes[name] = f"(declare-datatypes (({name} 0)) (((mk_{name} {fs}))))"
            self.dt_order.append(name)
            self.dt_fields[name] = list(fields)
        else:
            assert self.dt_fields[name] == list(fields), (name, fields, self.dt_fields[name])
        return name

    def enum(self, name: str, members: list[str]) -> str:
        if name not in self.datatypes:
            ms = " ".join(f"({m})" for m in members)
            self.datatypes[name] = f"(declare-datatypes (({name} 0)) (({ms})))"
            self.dt_order.append(name)
        return name

    def usort(self, name: str) -> str:
        if name not in self.datatypes:
            self.datatypes[name] = f"(declare-sort {name} 0)"
            self.dt_order.append(name)
        return name

    # --- option helpers
    def none(self, inner: str) -> Term:
        n = self.option(inner)
        return Term(n, f"none_{n}")

    def some(self, v: Term) -> Term:
        n = self.option(v.sort)
        return app(n, f"some_{n}", v)

    def is_some(self, o: Term) -> Term:
        return app(BOOL, f"(_ is some_{o.sort})", o)

    def opt_val(self, o: Term) -> Term:
        inner = self.dt_fields[o.sort][0][1]
        return app(inner, f"val_{o.sort}", o)

    # --- record helpers
    def mk(self, name: str, *vals: Term) -> Term:
        return app(name, f"mk_{name}", *vals)

    def field(self, rec: Term, f: str) -> Term:
        for fn, fs in self.dt_fields[rec.sort]:
            if fn == f:
                return app(fs, f"{rec.sort}_{f}", rec)
        raise KeyError((rec.sort, f))

    # --- constants / functions
    def const(self, name: str, sort: str) -> Term:
        if name in self.consts:
            assert self.consts[name] == sort, (name, sort, self.consts[name])
        self.consts[name] = sort
        return Term(sort, sym(name))

    def fresh(self, hint: str, sort: str) -> Term:
        name = f"{hint}!{next(self._fresh)}"
        return self.const(name, sort)

    def fun(self, name: str, args: list[str], ret: str):
        if name in self.funs:
            assert self.funs[name] == (list(args), ret), name
        self.funs[name] = (list(args), ret)

        def call(*a: Term) -> Term:
            assert [x.sort for x in a] == list(args), (name, a, args)
            if not args:
                return Term(ret, sym(name))
            return app(ret, sym(name), *a)

        return call

    def axiom(self, name: str, t: Term):
        self.axioms.append((name, t))

    def ground_axiom(self, name: str, t: Term):
        if t.s not in self._ground_seen:
            self._ground_seen.add(t.s)
            self.ground.append((name, t))

    # --- script
    def preamble(self, used_text: str | None = None) -> str:
        lines = ["(set-logic ALL)"]
        for n in self.dt_order:
            lines.append(self.datatypes[n])
        for n, (a, r) in self.funs.items():
            lines.append(f"(declare-fun {sym(n)} ({' '.join(a)}) {r})")
        for n, s in self.consts.items():
            if used_text is None or sym(n) in used_text:
                lines.append(f"(declare-fun {sym(n)} () {s})")
        return "\n".join(lines)


def sym(name: str) -> str:
    if re.fullmatch(r"[A-Za-z_][A-Za-z0-9_.!$]*", name):
        return name
    return "|" + name.replace("|", "_") + "|"


def Forall(vars_: list[Term], body: Term, patterns: list[Term] | None = None) -> Term:
    vs = " ".join(f"({v.s} {v.sort})" for v in vars_)
    if patterns:
        pats = " ".join(f":pattern ({p.s})" for p in patterns)
        return Term(BOOL, f"(forall ({vs}) (! {body.s} {pats}))")
    return Term(BOOL, f"(forall ({vs}) {body.s})")


def Exists(vars_: list[Term], body: Term) -> Term:
    vs = " ".join(f"({v.s} {v.sort})" for v in vars_)
    return Term(BOOL, f"(exists ({vs}) {body.s})")


def BoundVar(name: str, sort: str) -> Term:
    return Term(sort, sym(name))


# ---------------------------------------------------------------- running solvers
Z3 = shutil.which("z3-new") or shutil.which("z3")
CVC5 = shutil.which("cvc5") or "/usr/bin/cvc5"


def script(decls: Decls, assertions: list[Term], get_values: list[str] | None = None,
           axioms: bool = True) -> str:
    body = []
    for n, a in decls.ground:
        body.append(f"(assert {a.s})")
    if axioms:
        for n, a in decls.axioms:
            body.append(f"(assert {a.s})")
    for a in assertions:
        body.append(f"(assert {a.s})")
    text = "\n".join(body)
    pre = decls.preamble(text + " " + " ".join(get_values or []))
    out = [pre, text, "(check-sat)"]
    if get_values:
        out.append("(get-value (" + " ".join(get_values) + "))")
    return "\n".join(out) + "\n"


def _run(cmd: list[str], text: str, timeout: float) -> tuple[str, str, float]:
    t0 = time.time()
    with tempfile.NamedTemporaryFile("w", suffix=".smt2", delete=False, dir=_workdir()) as f:
        f.write(text)
        path = f.name
    try:
        p = subprocess.Popen(cmd + [path], stdout=subprocess.PIPE, stderr=subprocess.PIPE, text=True,
                             start_new_session=True)
        try:
            out, err = p.communicate(timeout=timeout + 2)
        except subprocess.TimeoutExpired:
            try:
                os.killpg(p.pid, signal.SIGKILL)
            except ProcessLookupError:
                pass
            p.communicate()
            return "timeout", "", time.time() - t0
        first = out.strip().split("\n", 1)[0].strip() if out.strip() else ""
        if first in ("sat", "unsat", "unknown"):
            return first, out, time.time() - t0
        if "timeout" in out or "interrupted" in (out + err).lower():
            return "timeout", out + err, time.time() - t0
        return "error", out + err, time.time() - t0
    finally:
        try:
            os.unlink(path)
        except OSError:
            pass


_WORK = None


def _workdir() -> str:
    global _WORK
    if _WORK is None:
        base = os.environ.get("PYVC_WORK") or os.path.join(
            os.path.dirname(os.path.dirname(os.path.abspath(__file__))), ".work")
        os.makedirs(base, exist_ok=True)
        _WORK = base
    return _WORK


def run_z3(text: str, timeout: float):
    return _run([Z3, f"-T:{max(1, int(timeout))}", "smt.string_solver=seq", "model_validate=true"], text, timeout)


def run_cvc5(text: str, timeout: float, fmf: bool = False):
    cmd = [CVC5, "--strings-exp", f"--tlimit={int(timeout * 1000)}", "--produce-models"]
    if fmf:
        cmd.append("--strings-fmf")
    return _run(cmd, text, timeout)


def _spawn(cmd, path):
    return subprocess.Popen(cmd + [path], stdout=subprocess.PIPE, stderr=subprocess.PIPE, text=True,
                            start_new_session=True)


def _kill(p):
    try:
        os.killpg(p.pid, signal.SIGKILL)
    except (ProcessLookupError, PermissionError):
        pass
    try:
        p.communicate(timeout=2)
    except Exception:
        pass


def _classify(out: str, err: str) -> str:
    first = out.strip().split("\n", 1)[0].strip() if out.strip() else ""
    # z3 runs with model_validate=true: a "sat" whose model does not satisfy the assertions (seen with the sequence
    # solver of z3 5.1 on string formulas) is not an answer
    if first == "sat" and "invalid model" in (out + err):
        return "unknown"
    if first in ("sat", "unsat", "unknown"):
        return first
    if "timeout" in out or "interrupted" in (out + err).lower():
        return "timeout"
    return "error"


def check_unsat(text: str, timeout: float, both: bool = False) -> dict:
    """Decide a query by racing z3 and cvc5 on the same SMT-LIB text.
    Returns dict(verdict=unsat|sat|unknown|error, backend, time_s, detail, answers).
    With both=True each solver runs to its own answer and a sat/unsat disagreement is an error."""
    t0 = time.time()
    with tempfile.NamedTemporaryFile("w", suffix=".smt2", delete=False, dir=_workdir()) as f:
        f.write(text)
        path = f.name
    procs = {
        "z3": _spawn([Z3, f"-T:{max(1, int(timeout))}", "model_validate=true"], path),
        "cvc5": _spawn([CVC5, "--strings-exp", f"--tlimit={int(timeout * 1000)}"], path),
    }
    answers, outs = {}, {}
    try:
        deadline = t0 + timeout + 3
        while procs and time.time() < deadline:
            for name, p in list(procs.items()):
                if p.poll() is not None:
                    out, err = p.communicate()
                    answers[name] = _classify(out, err)
                    outs[name] = out + err
                    del procs[name]
            if not both and any(a in ("sat", "unsat") for a in answers.values()):
                break
            if procs:
                time.sleep(0.005)
        for name, p in procs.items():
            _kill(p)
            answers.setdefault(name, "timeout")
    finally:
        try:
            os.unlink(path)
        except OSError:
            pass
    res = {"time_s": time.time() - t0, "answers": answers, "detail": ""}
    definite = {n: a for n, a in answers.items() if a in ("sat", "unsat")}
    if len(set(definite.values())) > 1:
        res.update(verdict="error", backend="z3+cvc5", detail=f"solver disagreement {answers}")
    elif definite:
        n = sorted(definite)[0] if both else next(iter(definite))
        res.update(verdict=definite[n], backend="+".join(sorted(definite)), detail=outs.get(n, "")[:2000])
    elif all(a == "error" for a in answers.values()):
        res.update(verdict="error", backend="z3+cvc5", detail=("\n".join(outs.values()))[:4000])
    else:
        res.update(verdict="unknown", backend="z3+cvc5", detail=f"{answers}")
    return res


# ---------------------------------------------------------------- model parsing
def parse_sexpr(text: str):
    """Parse one or more s-expressions into nested python lists / atoms (strings)."""
    toks = []
    i, n = 0, len(text)
    while i < n:
        ch = text[i]
        if ch.isspace():
            i += 1
        elif ch in "()":
            toks.append(ch)
            i += 1
        elif ch == '"':
            j = i + 1
            buf = []
            while j < n:
                if text[j] == '"':
                    if j + 1 < n and text[j + 1] == '"':
                        buf.append('"')
                        j += 2
                        continue
                    break
                buf.append(text[j])
                j += 1
            toks.append(("str", "".join(buf)))
            i = j + 1
        elif ch == "|":
            j = text.index("|", i + 1)
            toks.append(text[i + 1:j])
            i = j + 1
        else:
            j = i
            while j < n and not text[j].isspace() and text[j] not in "()":
                j += 1
            toks.append(text[i:j])
            i = j
    pos = 0

    def rd():
        nonlocal pos
        t = toks[pos]
        pos += 1
        if t == "(":
            lst = []
            while toks[pos] != ")":
                lst.append(rd())
            pos += 1
            return lst
        return t

    out = []
    while pos < len(toks):
        out.append(rd())
    return out


def _unescape(s: str) -> str:
    def rep(m):
        return chr(int(m.group(1) or m.group(2), 16))
    return re.sub(r"\\u\{([0-9a-fA-F]+)\}|\\u([0-9a-fA-F]{4})", rep, s)


def _subst(e, env):
    if isinstance(e, str):
        return env.get(e, e)
    if isinstance(e, list):
        if e and e[0] == "let" and len(e) == 3:
            env2 = dict(env)
            for name, val in e[1]:
                env2[name] = _subst(val, env)
            return _subst(e[2], env2)
        return [_subst(x, env) for x in e]
    return e


def sexpr_to_py(e):
    """Best-effort conversion of a model value to a python value."""
    e = _subst(e, {})
    return _sexpr_to_py(e)


def _sexpr_to_py(e):
    if isinstance(e, tuple) and e[0] == "str":
        return _unescape(e[1])
    if isinstance(e, str):
        if re.fullmatch(r"-?\d+", e):
            return int(e)
        if e == "true":
            return True
        if e == "false":
            return False
        if e.startswith("none_"):
            return None
        return {"sym": e}
    if isinstance(e, list):
        if not e:
            return []
        h = e[0]
        if h == "-" and len(e) == 2:
            return -_sexpr_to_py(e[1])
        if h == "seq.unit":
            return [_sexpr_to_py(e[1])]
        if h == "seq.++":
            out = []
            for x in e[1:]:
                v = _sexpr_to_py(x)
                out.extend(v if isinstance(v, list) else [v])
            return out
        if h == "as" and len(e) == 3 and e[1] == "seq.empty":
            return []
        if h == "str.++":
            return "".join(_sexpr_to_py(x) for x in e[1:])
        if isinstance(h, str) and h.startswith("some_"):
            return _sexpr_to_py(e[1])
        if isinstance(h, str) and h.startswith("mk_"):
            return {"mk": h[3:], "args": [_sexpr_to_py(x) for x in e[1:]]}
        if h == "as" and len(e) == 3:
            return _sexpr_to_py(e[1])
        return {"app": [_sexpr_to_py(x) if not isinstance(x, str) else x for x in e]}
    return e


def get_model(decls: Decls, assertions: list[Term], names: dict[str, Term], timeout: float = 20,
              extra_bounds: list[Term] | None = None) -> dict | None:
    """Ask cvc5 (finite-model strings) for values of the given terms under the assertions."""
    keys = list(names)
    text = script(decls, assertions + (extra_bounds or []), get_values=[names[k].s for k in keys], axioms=False)
    text = "(set-option :produce-models true)\n" + text
    for fmf in (True, False):
        v, out, _ = run_cvc5(text, timeout, fmf=fmf)
        if v == "sat":
            break
    else:
        v, out, _ = run_z3(text, timeout)
        if v != "sat":
            return None
    rest = out.split("\n", 1)[1] if "\n" in out else ""
    if "(error" in rest:
        return None
    try:
        parsed = parse_sexpr(rest)
    except Exception:
        return None
    if not parsed:
        return None
    vals = {}
    for k, pair in zip(keys, parsed[0]):
        vals[k] = sexpr_to_py(pair[1])
    return vals
