"""Result items, the known-findings file, model decoding."""
from __future__ import annotations

import os
import re

from . import smt

VERIF = os.path.dirname(os.path.dirname(os.path.abspath(__file__)))


class Item:
    """One obligation with its verdict.
    verdict: proved | refuted | unknown | error | spurious | bounded-ok | guard-ok
    mode: F (functional VC) | S (safety VC) | E (effect/frame) | T (termination) | table | bounded"""

    def __init__(self, name, verdict, backend, time_s, where="", detail="", mode="", func="", counts=True,
                 witness=None, confirmed=None, shape=False):
        self.name = name
        # a shape obligation says "the code still has the form the argument was made for": when it fails without a
        # failing input, the contract has lost its binding (undecided), which is not evidence of a violation
        self.shape = shape or str(backend).startswith("structural")
        self.verdict = verdict
        self.backend = backend
        self.time_s = time_s
        self.where = where
        self.detail = detail or ""
        self.mode = mode
        self.func = func
        self.counts = counts
        self.witness = witness  # for E/T/bounded items: the offending path / concrete input
        self.confirmed = confirmed  # True: witness replayed on the real code; None: no input constructible
        self.replay_path = None
        self.no_input = False
        self.count = 1  # number of concrete cases an enumeration item stands for


def load_known(pid: str):
    """known_findings.txt lines:
         finding: property=C06 obligation=<name or prefix*> <free text>
         fixed: property=C02 <commit> <what failed>      (suppresses nothing)"""
    out = []
    path = os.path.join(VERIF, "known_findings.txt")
    if not os.path.exists(path):
        return out
    for line in open(path):
        line = line.strip()
        m = re.match(r"finding:\s+property=(\S+)\s+obligation=(\S+)\s+(.*)$", line)
        if m and m.group(1) == pid:
            out.append({"kind": "finding", "obligation": m.group(2), "text": f"obligation={m.group(2)} {m.group(3)}"})
    return out


def decode_value(decls: smt.Decls, sort: str, v):
    """Turn a parsed model value into plain python data following the declared datatypes."""
    if isinstance(v, dict) and "mk" in v:
        name = v["mk"]
        fields = decls.dt_fields.get(name, [])
        rec = {}
        for (fname, fsort), arg in zip(fields, v["args"]):
            rec[fname] = decode_value(decls, fsort, arg)
        out = {}
        for k, val in rec.items():
            if k.startswith("has_"):
                continue
            if ("has_" + k) in rec and not rec["has_" + k]:
                continue
            out[k] = val
        return out
    if isinstance(v, list):
        es = smt.seq_elem(sort) if smt.is_seq(sort) else None
        return [decode_value(decls, es, x) if es else x for x in v]
    return v


def decode_model(decls: smt.Decls, ob, model: dict) -> dict:
    out = {}
    for k, v in model.items():
        t = ob.inputs.get(k)
        out[k] = decode_value(decls, t.sort if t is not None else "", v)
    return out
