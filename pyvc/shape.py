"""Shape obligations: "this function still contains the statements / expression the argument relies on".

A shape is given as source text.  It is matched against the function's AST, not its text:
  * local names are unified, not compared: the shape `for _, f in self.workspace.items(): f.ast.resolve_links(...)`
    matches the same loop over any other loop variable (consistently, one-to-one), so renaming locals does not lose it;
  * a statement-level call of a method of the same class (`self._helper(...)`) is expanded once before matching, so
    moving a block into a helper method does not lose it;
  * `len(x) == 0` / `not x`, `len(x) > 0` / `x` in conditions and `not (a in b)` / `a not in b` are normalised.
Anything else that changes the shape (reordered statements, inverted branches) makes the shape *lost*: that is reported
as undecided ("the contract no longer binds"), never as a violation, unless a failing input is found natively.
"""
from __future__ import annotations

import ast
import builtins
import copy

_FIXED = set(dir(builtins)) | {"self", "cls", "log", "os", "re", "json", "sys"}


# Local names are compared literally: renamed locals are handled before any shape is looked at (pyvc.source re-anchors a
# function that differs from its snapshot by a renaming only), and a shape such as `public_only = True` must not match
# `something_else = True`.  A shape may list names to unify explicitly (`free=`).
def _is_fixed(name: str, fixed) -> bool:
    free = getattr(fixed, "free", ())
    return name not in free


class _Norm(ast.NodeTransformer):
    def visit_Compare(self, node):
        self.generic_visit(node)
        if len(node.ops) == 1 and isinstance(node.left, ast.Call) and ast.unparse(node.left.func) == "len" and len(node.left.args) == 1:
            c = node.comparators[0]
            if isinstance(c, ast.Constant) and c.value == 0:
                x = node.left.args[0]
                if isinstance(node.ops[0], ast.Eq):
                    return ast.UnaryOp(op=ast.Not(), operand=x)
                if isinstance(node.ops[0], (ast.Gt, ast.NotEq)):
                    return x
        return node

    def visit_UnaryOp(self, node):
        self.generic_visit(node)
        if isinstance(node.op, ast.Not) and isinstance(node.operand, ast.Compare) and len(node.operand.ops) == 1:
            inv = {ast.In: ast.NotIn, ast.NotIn: ast.In, ast.Is: ast.IsNot, ast.IsNot: ast.Is}
            t = type(node.operand.ops[0])
            if t in inv:
                return ast.Compare(left=node.operand.left, ops=[inv[t]()], comparators=node.operand.comparators)
        return node

    def visit_AnnAssign(self, node):
        self.generic_visit(node)
        if node.value is not None and node.simple:
            return ast.Assign(targets=[node.target], value=node.value)
        return node

    def visit_FunctionDef(self, node):
        self.generic_visit(node)
        node.returns = None
        for a in node.args.args + node.args.kwonlyargs:
            a.annotation = None
        if node.body and isinstance(node.body[0], ast.Expr) and isinstance(node.body[0].value, ast.Constant) \
                and isinstance(node.body[0].value.value, str) and len(node.body) > 1:
            node.body = node.body[1:]
        return node

    def visit_Expr(self, node):
        self.generic_visit(node)
        # debug logging is not part of any shape
        if isinstance(node.value, ast.Call) and ast.unparse(node.value.func) in ("log.debug", "log.info"):
            return None
        return node


def normalise(node: ast.AST) -> ast.AST:
    node = copy.deepcopy(node)
    node = _Norm().visit(node)
    ast.fix_missing_locations(node)
    return node


def expand_helpers(fn: ast.FunctionDef, methods: dict[str, ast.FunctionDef] | None) -> ast.FunctionDef:
    """`self.helper(a, b)` as a statement (or `x = self.helper(...)` / `return self.helper(...)` where the helper ends in
    one return) is replaced by the helper's body with its parameters substituted — one level, helpers of the same class."""
    if not methods:
        return fn

    class Sub(ast.NodeTransformer):
        def __init__(self, env):
            self.env = env

        def visit_Name(self, n):
            if n.id in self.env:
                return copy.deepcopy(self.env[n.id])
            return n

    def body_of(call: ast.Call):
        if not (isinstance(call.func, ast.Attribute) and isinstance(call.func.value, ast.Name) and call.func.value.id == "self"):
            return None
        m = methods.get(call.func.attr)
        if m is None or m is fn or call.keywords and any(k.arg is None for k in call.keywords):
            return None
        params = [a.arg for a in m.args.args][1:]
        if len(call.args) > len(params):
            return None
        env = dict(zip(params, call.args))
        for k in call.keywords:
            env[k.arg] = k.value
        if any(p not in env for p in params):
            return None
        body = [s for s in m.body if not (isinstance(s, ast.Expr) and isinstance(s.value, ast.Constant))]
        return [Sub(env).visit(copy.deepcopy(s)) for s in body]

    def rewrite(stmts):
        out = []
        for s in stmts:
            for f in ("body", "orelse", "finalbody"):
                if hasattr(s, f) and isinstance(getattr(s, f), list):
                    setattr(s, f, rewrite(getattr(s, f)))
            if isinstance(s, ast.Try):
                for h in s.handlers:
                    h.body = rewrite(h.body)
            if isinstance(s, ast.Expr) and isinstance(s.value, ast.Call):
                b = body_of(s.value)
                if b is not None and not any(isinstance(x, ast.Return) and x.value is not None for y in b for x in ast.walk(y)):
                    # the call itself stays (a shape may name it), followed by what it does
                    out.append(s)
                    out += [x for x in b if not (isinstance(x, ast.Return))]
                    continue
            if isinstance(s, (ast.Assign, ast.Return)) and isinstance(s.value, ast.Call):
                b = body_of(s.value)
                if b and isinstance(b[-1], ast.Return) and b[-1].value is not None \
                        and not any(isinstance(x, ast.Return) for y in b[:-1] for x in ast.walk(y)):
                    out += b[:-1]
                    last = copy.copy(s)
                    last.value = b[-1].value
                    out.append(last)
                    out.append(s)
                    continue
            out.append(s)
        return out

    fn = copy.deepcopy(fn)
    fn.body = rewrite(fn.body)
    ast.fix_missing_locations(fn)
    return fn


def _unify(p, n, env: dict, rev: dict, fixed) -> bool:
    if isinstance(p, ast.Name) and isinstance(n, ast.Name):
        if _is_fixed(p.id, fixed):
            return p.id == n.id
        if p.id in env:
            return env[p.id] == n.id
        if n.id in rev:
            return False
        env[p.id] = n.id
        rev[n.id] = p.id
        return True
    if type(p) is not type(n):
        return False
    if isinstance(p, ast.arg):
        return _unify(ast.Name(id=p.arg), ast.Name(id=n.arg), env, rev, fixed)
    if isinstance(p, ast.ExceptHandler):
        if (p.name is None) != (n.name is None):
            return False
        if p.name is not None and not _unify(ast.Name(id=p.name), ast.Name(id=n.name), env, rev, fixed):
            return False
    for f in p._fields:
        if f in ("ctx", "type_comment", "lineno", "col_offset", "end_lineno", "end_col_offset", "kind", "type_ignores"):
            continue
        if isinstance(p, ast.ExceptHandler) and f == "name":
            continue
        a, b = getattr(p, f, None), getattr(n, f, None)
        if isinstance(a, list):
            if not isinstance(b, list) or len(a) != len(b):
                return False
            for x, y in zip(a, b):
                if isinstance(x, ast.AST):
                    if not _unify(x, y, env, rev, fixed):
                        return False
                elif x != y:
                    return False
        elif isinstance(a, ast.AST):
            if not isinstance(b, ast.AST) or not _unify(a, b, env, rev, fixed):
                return False
        elif a != b:
            return False
    return True


def _stmt_lists(node):
    for n in ast.walk(node):
        for f in ("body", "orelse", "finalbody"):
            v = getattr(n, f, None)
            if isinstance(v, list) and v and isinstance(v[0], ast.stmt):
                yield v
        if isinstance(n, ast.Try):
            for h in n.handlers:
                yield h.body


def _parse(snippet: str):
    """-> ('stmts', [stmt...]) | ('expr', expr) | ('text', str)"""
    try:
        mod = ast.parse(snippet)
    except SyntaxError:
        for wrap in ("{%s}", "(%s)", "f(%s)", "[%s]"):
            try:
                e = ast.parse(wrap % snippet, mode="eval").body
                return ("dictitems", e) if wrap == "{%s}" else ("argitems", e)
            except SyntaxError:
                continue
        return "text", snippet
    body = normalise(mod).body
    if len(body) == 1 and isinstance(body[0], ast.Expr):
        return "expr", body[0].value
    return "stmts", body


def _renumber(fn: ast.AST) -> ast.AST:
    """positions in execution (pre-order) order, so that `before` also works across expanded helper bodies"""
    counter = [0]

    class R(ast.NodeVisitor):
        def generic_visit(self, node):
            if hasattr(node, "lineno") or isinstance(node, (ast.stmt, ast.expr)):
                counter[0] += 1
                node.lineno, node.col_offset = counter[0], 0
            super().generic_visit(node)
    R().visit(fn)
    return fn


def prepared(fn: ast.FunctionDef, methods=None) -> ast.FunctionDef:
    return _renumber(normalise(expand_helpers(fn, methods)))


_CACHE: dict = {}


def of(repo, qualname: str) -> ast.FunctionDef:
    """the prepared AST of a function of the repository (helpers of its class expanded once, normalised)"""
    key = (id(repo), qualname)
    if key not in _CACHE:
        fi = repo.func(qualname)
        prefix = qualname.rsplit(".", 1)[0] + "."
        methods = {q[len(prefix):]: f.node for q, f in repo.all_functions() if q.startswith(prefix) and "." not in q[len(prefix):]}
        exp = prepared(fi.node, methods if fi.cls is not None else None)
        # a shape may name the helper call itself: the function as written is tried as well
        exp._raw = _renumber(normalise(fi.node))
        _CACHE[key] = exp
    return _CACHE[key]


class Free(set):
    """names of a shape that may bind to any (one) local name: has(fn, "for x in xs: f(x)", fixed=Free({"x"}))"""
    @property
    def free(self):
        return self


def has(fn: ast.AST, snippet: str, fixed=(), env: dict | None = None) -> bool:
    """Does the (prepared) function contain the shape?  `env` (optional) receives the name bindings of the match."""
    raw = getattr(fn, "_raw", None)
    if raw is not None and _has(raw, snippet, fixed, env):
        return True
    return _has(fn, snippet, fixed, env)


def _has(fn: ast.AST, snippet: str, fixed=(), env: dict | None = None) -> bool:
    kind, pat = _parse(snippet)
    fixed = fixed if isinstance(fixed, Free) else set(fixed)
    if kind == "text":
        return snippet in ast.unparse(fn)
    if kind == "stmts":
        k = len(pat)
        for lst in _stmt_lists(fn):
            for i in range(len(lst) - k + 1):
                e, r = {}, {}
                if all(_unify(p, n, e, r, fixed) for p, n in zip(pat, lst[i:i + k])):
                    if env is not None:
                        env.update(e)
                    return True
        return False
    if kind == "expr":
        for n in ast.walk(fn):
            if isinstance(n, ast.expr):
                e, r = {}, {}
                if _unify(pat, n, e, r, fixed):
                    if env is not None:
                        env.update(e)
                    return True
        return False
    if kind == "dictitems":
        # every key: value pair of the fragment occurs in one dict display
        for n in ast.walk(fn):
            if isinstance(n, ast.Dict):
                e, r = {}, {}
                ok = True
                for pk, pv in zip(pat.keys, pat.values):
                    if not any(nk is not None and _unify(pk, nk, dict(e), dict(r), fixed) and _unify(pv, nv, e, r, fixed)
                               for nk, nv in zip(n.keys, n.values)):
                        ok = False
                        break
                if ok:
                    return True
        return False
    if kind == "argitems":
        elts = pat.elts if isinstance(pat, (ast.Tuple, ast.List)) else (pat.args if isinstance(pat, ast.Call) else [pat])
        for n in ast.walk(fn):
            if isinstance(n, ast.Call):
                e, r = {}, {}
                if all(any(_unify(p, a, e, r, fixed) for a in n.args) for p in elts):
                    return True
        return False
    return False


def position(fn: ast.AST, snippet: str, fixed=()) -> int | None:
    """source position (line of the first matching statement / expression) of the shape, or None"""
    kind, pat = _parse(snippet)
    fixed = fixed if isinstance(fixed, Free) else set(fixed)
    if kind == "stmts":
        k = len(pat)
        best = None
        for lst in _stmt_lists(fn):
            for i in range(len(lst) - k + 1):
                if all(_unify(p, n, {}, {}, fixed) for p, n in zip(pat, lst[i:i + k])):
                    ln = (lst[i].lineno, lst[i].col_offset)
                    best = ln if best is None or ln < best else best
        return best
    if kind == "expr":
        best = None
        for n in ast.walk(fn):
            if isinstance(n, ast.expr) and _unify(pat, n, {}, {}, fixed):
                ln = (n.lineno, n.col_offset)
                best = ln if best is None or ln < best else best
        return best
    return None


def before(fn: ast.AST, first: str, second: str, fixed=()) -> bool:
    for tree in (getattr(fn, "_raw", None), fn):
        if tree is None:
            continue
        a, b = position(tree, first, fixed), position(tree, second, fixed)
        if a is not None and b is not None:
            return a < b
    return False


# ---------------------------------------------------------------------------------------------------------------------
# re-anchoring of contracts after local renames
def _locals(fn: ast.FunctionDef) -> set[str]:
    out = set()
    for n in ast.walk(fn):
        if isinstance(n, ast.Name) and isinstance(n.ctx, (ast.Store, ast.Del)):
            out.add(n.id)
        elif isinstance(n, ast.ExceptHandler) and n.name:
            out.add(n.name)
        elif isinstance(n, (ast.FunctionDef, ast.AsyncFunctionDef)) and n is not fn:
            out.add(n.name)
            out |= {a.arg for a in n.args.args + n.args.kwonlyargs}
        elif isinstance(n, ast.Lambda):
            out |= {a.arg for a in n.args.args}
    return out - {a.arg for a in fn.args.args + fn.args.kwonlyargs}


_COMPS = (ast.ListComp, ast.SetComp, ast.GeneratorExp, ast.DictComp)
_FUNCS = (ast.FunctionDef, ast.AsyncFunctionDef, ast.Lambda)


def _scope_bound(node, outermost=False) -> set[str]:
    """names bound in the scope opened by `node` itself (not in scopes nested inside it)"""
    out = set()
    if isinstance(node, _COMPS):
        for g in node.generators:
            out |= {x.id for x in ast.walk(g.target) if isinstance(x, ast.Name)}
        return out
    a = node.args
    params = {x.arg for x in a.args + a.kwonlyargs + a.posonlyargs} | ({a.vararg.arg} if a.vararg else set()) | ({a.kwarg.arg} if a.kwarg else set())
    declared = set()
    body = node.body if isinstance(node.body, list) else [node.body]
    stack = list(body)
    while stack:
        n = stack.pop()
        if isinstance(n, (ast.FunctionDef, ast.AsyncFunctionDef)):
            out.add(n.name)
            continue
        if isinstance(n, (ast.Lambda,) + _COMPS + (ast.ClassDef,)):
            continue
        if isinstance(n, (ast.Global, ast.Nonlocal)):
            declared |= set(n.names)
        if isinstance(n, ast.Name) and isinstance(n.ctx, (ast.Store, ast.Del)):
            out.add(n.id)
        if isinstance(n, ast.ExceptHandler) and n.name:
            out.add(n.name)
        if isinstance(n, (ast.Import, ast.ImportFrom)):
            declared |= {(al.asname or al.name).split(".")[0] for al in n.names}
        stack += list(ast.iter_child_nodes(n))
    out -= declared
    # the parameters of the function under contract keep their names (callers may pass them by keyword)
    return (out - params) if outermost else (out | params)


def alpha_rename(snapshot: ast.FunctionDef, current: ast.FunctionDef):
    """If `current` is `snapshot` up to a renaming of locally bound names that is one-to-one within each scope (the
    function body, every nested function or lambda, every comprehension; not the function's own parameters, not
    attributes, not free names), returns (copy of current carrying the snapshot's names, {current name: snapshot name});
    otherwise None.  Alpha-renaming preserves meaning: the verified text is still the current code."""
    # the names of locals are observable only through reflection: a function that uses any is left as it is
    for n in ast.walk(current):
        if isinstance(n, ast.Call) and isinstance(n.func, ast.Name) and n.func.id in ("locals", "vars", "dir", "eval", "exec", "globals"):
            return None
        if isinstance(n, ast.Attribute) and n.attr in ("_getframe", "f_locals", "currentframe"):
            return None
    current = copy.deepcopy(current)
    todo = []   # (node, attribute, new value) applied when the whole function unifies
    ren_all = {}

    def lookup(frames, pid):
        for fr in reversed(frames):
            if pid in fr["sl"]:
                return fr
        return None

    def bind(frames, pid, nid, node, attr):
        fr = lookup(frames, pid)
        if fr is None:
            return pid == nid            # free name, global, builtin, parameter of the function under contract
        if nid not in fr["cl"]:
            return False
        if pid in fr["env"]:
            ok = fr["env"][pid] == nid
        elif nid in fr["rev"]:
            ok = False
        else:
            fr["env"][pid], fr["rev"][nid] = nid, pid
            ok = True
        if ok and pid != nid:
            todo.append((node, attr, pid))
            ren_all[nid] = pid
        return ok

    def uni(p, n, frames) -> bool:
        if isinstance(p, ast.Name) and isinstance(n, ast.Name):
            # a name of the current code that is local there must correspond to a local of the snapshot
            if lookup(frames, p.id) is None:
                return p.id == n.id and not any(n.id in fr["cl"] and n.id not in fr["sl"] for fr in frames)
            return bind(frames, p.id, n.id, n, "id")
        if type(p) is not type(n):
            return False
        if isinstance(p, ast.arg):
            return bind(frames, p.arg, n.arg, n, "arg") if lookup(frames, p.arg) is not None else p.arg == n.arg
        if isinstance(p, (ast.FunctionDef, ast.AsyncFunctionDef)) and frames and p is not snapshot:
            if not bind(frames, p.name, n.name, n, "name"):
                return False
        if isinstance(p, ast.ExceptHandler) and (p.name or n.name):
            if not (p.name and n.name and bind(frames, p.name, n.name, n, "name")):
                return False
        inner = frames
        if isinstance(p, _FUNCS + _COMPS) and not (p is snapshot):
            inner = frames + [{"sl": _scope_bound(p), "cl": _scope_bound(n), "env": {}, "rev": {}}]
        for f in p._fields:
            if f in ("ctx", "type_comment", "kind", "type_ignores") or (f == "name" and isinstance(p, (ast.FunctionDef, ast.AsyncFunctionDef, ast.ExceptHandler))):
                continue
            a, b = getattr(p, f, None), getattr(n, f, None)
            # decorators and default values belong to the enclosing scope
            scope = frames if f in ("decorator_list", "returns") else inner
            if isinstance(p, _COMPS) and f == "generators" and a and b and len(a) == len(b):
                # the first iterable of a comprehension is evaluated in the enclosing scope
                if not uni(a[0].iter, b[0].iter, frames):
                    return False
                for k, (x, y) in enumerate(zip(a, b)):
                    if not uni(x.target, y.target, inner) or (k > 0 and not uni(x.iter, y.iter, inner)):
                        return False
                    if len(x.ifs) != len(y.ifs) or not all(uni(u, v, inner) for u, v in zip(x.ifs, y.ifs)) or x.is_async != y.is_async:
                        return False
                continue
            if isinstance(a, list):
                if not isinstance(b, list) or len(a) != len(b):
                    return False
                for x, y in zip(a, b):
                    if isinstance(x, ast.AST):
                        if not uni(x, y, scope):
                            return False
                    elif x != y:
                        return False
            elif isinstance(a, ast.AST):
                if not isinstance(b, ast.AST) or not uni(a, b, scope):
                    return False
            elif a != b:
                return False
        return True

    top = {"sl": _scope_bound(snapshot, True), "cl": _scope_bound(current, True), "env": {}, "rev": {}}
    if not uni(snapshot, current, [top]):
        return None
    if not todo:
        return None
    for node, attr, val in todo:
        setattr(node, attr, val)
    return current, ren_all


# ---------------------------------------------------------------------------------------------------------------------
def canon_append_loops(fn: ast.FunctionDef):
    """`x = []` directly followed by `for v in IT: x.append(E)` is the list comprehension `x = [E for v in IT]`, provided
    neither E nor IT mentions x and v is not read after the loop (every other occurrence of v is bound by a loop or
    comprehension of its own).  Returns (rewritten copy, number of loops rewritten)."""
    fn = copy.deepcopy(fn)
    count = [0]

    def bound_elsewhere(v, loop):
        # occurrences of v outside `loop` must sit inside a for/comprehension that binds v itself
        inside = {id(x) for x in ast.walk(loop)}
        binders = []
        for n in ast.walk(fn):
            if id(n) in inside:
                continue
            if isinstance(n, ast.For) and any(isinstance(t, ast.Name) and t.id == v for t in ast.walk(n.target)):
                binders.append(n)
            if isinstance(n, (ast.ListComp, ast.SetComp, ast.GeneratorExp, ast.DictComp)) and any(
                    isinstance(t, ast.Name) and t.id == v for g in n.generators for t in ast.walk(g.target)):
                binders.append(n)
        covered = {id(x) for b in binders for x in ast.walk(b)}
        return all(id(n) in inside or id(n) in covered for n in ast.walk(fn) if isinstance(n, ast.Name) and n.id == v)

    def rewrite(stmts):
        out = []
        i = 0
        while i < len(stmts):
            s = stmts[i]
            for f in ("body", "orelse", "finalbody"):
                if hasattr(s, f) and isinstance(getattr(s, f), list) and getattr(s, f) and isinstance(getattr(s, f)[0], ast.stmt):
                    setattr(s, f, rewrite(getattr(s, f)))
            nxt = stmts[i + 1] if i + 1 < len(stmts) else None
            if (isinstance(s, ast.Assign) and len(s.targets) == 1 and isinstance(s.targets[0], ast.Name)
                    and isinstance(s.value, ast.List) and not s.value.elts and isinstance(nxt, ast.For) and not nxt.orelse
                    and isinstance(nxt.target, ast.Name) and len(nxt.body) == 1 and isinstance(nxt.body[0], ast.Expr)
                    and isinstance(nxt.body[0].value, ast.Call) and ast.unparse(nxt.body[0].value.func) == s.targets[0].id + ".append"
                    and len(nxt.body[0].value.args) == 1 and not nxt.body[0].value.keywords):
                x, v = s.targets[0].id, nxt.target.id
                elt, it = nxt.body[0].value.args[0], nxt.iter
                names = {n.id for n in ast.walk(elt) if isinstance(n, ast.Name)} | {n.id for n in ast.walk(it) if isinstance(n, ast.Name)}
                if x not in names and bound_elsewhere(v, nxt):
                    comp = ast.ListComp(elt=elt, generators=[ast.comprehension(target=nxt.target, iter=it, ifs=[], is_async=0)])
                    new = ast.Assign(targets=[s.targets[0]], value=comp)
                    ast.copy_location(new, s)
                    ast.copy_location(comp, s)
                    ast.fix_missing_locations(new)
                    out.append(new)
                    count[0] += 1
                    i += 2
                    continue
            out.append(s)
            i += 1
        return out
    fn.body = rewrite(fn.body)
    return fn, count[0]
