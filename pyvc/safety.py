"""Mode S — safety obligations: every attribute access / method call on a value whose class set is known is
defined for every class in the set and the value is not None (DESIGN 2.2, simplified to a flow-sensitive
class-set analysis).

Abstract values are sets of atoms: repository class names, "None", and "any" (unknown: no obligation is generated,
the access is counted as unchecked).  The class table (fields per class with their abstract types, methods,
bases) is derived mechanically from the source on every run.  Call results come from sidecar *signatures*;
each signature is itself checked against the return statements of the callee (`returns` obligations).
"""
from __future__ import annotations

import ast

from .source import Repo, FuncInfo
from .results import Item

ANY = "any"
NONE = "None"
BUILTIN_ATOMS = {"str", "int", "bool", "list", "dict", "tuple", "set", "float"}
CATCH = {
    "deref.null": {"AttributeError", "Exception", "BaseException", "<bare>"},
    "attr.missing": {"AttributeError", "Exception", "BaseException", "<bare>"},
}


class ClassTable:
    def __init__(self, repo: Repo):
        self.repo = repo
        self.classes: dict[str, dict] = {}  # short name -> info
        for cq, mod, node in repo.classes():
            self.classes[node.name] = {"q": cq, "node": node, "bases": [ast.unparse(b).split(".")[-1] for b in node.bases],
                                       "fields": {}, "methods": set(), "calls_super_init": False, "mod": mod}
        for name, info in self.classes.items():
            self._scan(name, info)

    def _scan(self, name, info):
        node = info["node"]
        for item in node.body:
            if isinstance(item, (ast.Assign, ast.AnnAssign)):
                tg = item.targets[0] if isinstance(item, ast.Assign) else item.target
                if isinstance(tg, ast.Name):
                    info["fields"].setdefault(tg.id, set()).add(ANY)
            if not isinstance(item, ast.FunctionDef):
                continue
            info["methods"].add(item.name)
            ann = {a.arg: (ast.unparse(a.annotation) if a.annotation is not None else None) for a in item.args.args}
            for n in ast.walk(item):
                if isinstance(n, ast.Call) and ast.unparse(n.func) == "super().__init__" and item.name == "__init__":
                    info["calls_super_init"] = True
                tgt, val, anno = None, None, None
                if isinstance(n, ast.Assign) and len(n.targets) == 1:
                    tgt, val = n.targets[0], n.value
                elif isinstance(n, ast.AnnAssign):
                    tgt, val, anno = n.target, n.value, ast.unparse(n.annotation)
                if isinstance(tgt, ast.Attribute) and isinstance(tgt.value, ast.Name) and tgt.value.id == "self":
                    info["fields"].setdefault(tgt.attr, set()).update(self._abstract(val, ann, anno))
                # tuple targets: (self.a, self.b) = ...
                if isinstance(tgt, ast.Tuple):
                    for e in tgt.elts:
                        if isinstance(e, ast.Attribute) and isinstance(e.value, ast.Name) and e.value.id == "self":
                            info["fields"].setdefault(e.attr, set()).add(ANY)

    def _abstract(self, val, ann, anno):
        if val is None:
            return self._from_annotation(anno)
        if isinstance(val, ast.Constant):
            if val.value is None:
                return {NONE} | (self._from_annotation(anno) - {ANY})
            return {type(val.value).__name__}
        if isinstance(val, (ast.List, ast.ListComp)):
            return {"list"}
        if isinstance(val, (ast.Dict, ast.DictComp)):
            return {"dict"}
        if isinstance(val, ast.JoinedStr):
            return {"str"}
        if isinstance(val, ast.Call) and isinstance(val.func, ast.Name) and val.func.id in self.classes:
            return {val.func.id}
        if isinstance(val, ast.Name) and ann.get(val.id):
            got = self._from_annotation(ann[val.id])
            if got != {ANY}:
                return got
        if anno:
            return self._from_annotation(anno)
        return {ANY}

    def _from_annotation(self, anno):
        if not anno:
            return {ANY}
        out = set()
        for part in anno.replace("Optional[", "").replace("]", "").replace("T[", "").split("|"):
            p = part.strip().strip("'\"").split("[")[0].split(".")[-1]
            if p == "None":
                out.add(NONE)
            elif p in self.classes:
                out.add(p)
            elif p in BUILTIN_ATOMS:
                out.add(p)
            else:
                return {ANY}
        return out or {ANY}

    TYPE_ID_HINTS: dict = {}

    def type_ids(self, name):
        """Set of constant names get_type() of class `name` can return, or None if not a fixed set."""
        if name in self.TYPE_ID_HINTS:
            return set(self.TYPE_ID_HINTS[name])
        for c in self.mro(name):
            node = self.classes[c]["node"]
            for item in node.body:
                if isinstance(item, ast.FunctionDef) and item.name == "get_type":
                    rets = [n.value for n in ast.walk(item) if isinstance(n, ast.Return)]
                    out = set()
                    for r in rets:
                        if isinstance(r, ast.Name):
                            out.add(r.id)
                        else:
                            return None
                    return out
        return None

    def instantiated(self):
        """Classes constructed somewhere in the package (abstract bases are never a run-time class)."""
        out = set()
        for mod in self.repo.modules.values():
            for n in ast.walk(mod.tree):
                if isinstance(n, ast.Call) and isinstance(n.func, ast.Name) and n.func.id in self.classes:
                    out.add(n.func.id)
        return out

    def mro(self, name):
        out, stack = [], [name]
        while stack:
            c = stack.pop(0)
            if c in out or c not in self.classes:
                continue
            out.append(c)
            stack += self.classes[c]["bases"]
        return out

    def subclasses(self, name):
        return {c for c in self.classes if name in self.mro(c)}

    def members(self, name):
        """(fields: name -> atoms, methods) visible on instances of class `name`."""
        fields, methods = {}, set()
        chain = self.mro(name)
        # instance fields: own, plus those of bases whose __init__ is reached through super().__init__()
        reach = []
        for c in chain:
            reach.append(c)
            if not self.classes[c]["calls_super_init"] and "__init__" in self.classes[c]["methods"]:
                break
        for c in chain:
            methods |= self.classes[c]["methods"]
            for f, tys in self.classes[c]["fields"].items():
                # fields assigned in non-__init__ methods of any base are potential (only after that method ran):
                # counted as present only if assigned in a reached __init__ or at class level
                pass
        for c in reversed(reach):
            init_fields = self._init_fields(c)
            for f, tys in init_fields.items():
                fields.setdefault(f, set()).update(tys)
        # later assignments (outside __init__) may add abstract types to existing fields
        for c in chain:
            for f, tys in self.classes[c]["fields"].items():
                if f in fields:
                    fields[f] |= tys
        return fields, methods

    def _init_fields(self, c):
        node = self.classes[c]["node"]
        out = {}
        for item in node.body:
            if isinstance(item, (ast.Assign, ast.AnnAssign)):
                tg = item.targets[0] if isinstance(item, ast.Assign) else item.target
                if isinstance(tg, ast.Name):
                    out.setdefault(tg.id, set()).add(ANY)
            if isinstance(item, ast.FunctionDef) and item.name == "__init__":
                ann = {a.arg: (ast.unparse(a.annotation) if a.annotation is not None else None) for a in item.args.args}
                for n in ast.walk(item):
                    tgt, val, anno = None, None, None
                    if isinstance(n, ast.Assign) and len(n.targets) == 1:
                        tgt, val = n.targets[0], n.value
                    elif isinstance(n, ast.AnnAssign):
                        tgt, val, anno = n.target, n.value, ast.unparse(n.annotation)
                    if isinstance(tgt, ast.Attribute) and isinstance(tgt.value, ast.Name) and tgt.value.id == "self":
                        out.setdefault(tgt.attr, set()).update(self._abstract(val, ann, anno))
                    if isinstance(tgt, ast.Tuple):
                        for e in tgt.elts:
                            if isinstance(e, ast.Attribute) and isinstance(e.value, ast.Name) and e.value.id == "self":
                                out.setdefault(e.attr, set()).add(ANY)
        return out


class Safety:
    """Analyse one function.  sigs: {callee text or method name: atoms}; overrides: {(Class, field): atoms}."""

    def __init__(self, table: ClassTable, fi: FuncInfo, prop: str, params: dict, sigs: dict, overrides: dict | None = None,
                 short: str | None = None):
        self.t = table
        self.fi = fi
        self.prop = prop
        self.params = params
        self.sigs = sigs
        self.over = overrides or {}
        self.short = short or fi.short
        self.items: list[Item] = []
        self.unchecked = 0
        self.returns: list[frozenset] = []
        self._n = {}
        self._catch: list[set] = []
        self._seen = set()
        self.aliases = {}  # local holding x.get_type() -> key of x

    # ------------------------------------------------------------------ driver
    def run(self):
        env = {k: frozenset(v) for k, v in self.params.items()}
        self.block(self.fi.node.body, env)
        return self.items

    def oblige(self, kind, node, ok, detail, witness=None):
        key = (kind, getattr(node, "lineno", 0), getattr(node, "col_offset", 0), getattr(node, "end_col_offset", 0))
        if key in self._seen:
            return
        self._seen.add(key)
        txt = ast.unparse(node)
        txt = txt if len(txt) < 50 else txt[:47] + "..."
        k = self._n.get((kind, txt), 0) + 1
        self._n[(kind, txt)] = k
        caught = any(c & CATCH.get(kind, set()) for c in self._catch)
        name = f"{self.prop}/{self.short}/{kind}[{txt}]" + (f"#{k}" if k > 1 else "")
        if ok:
            self.items.append(Item(name, "proved", "class-flow", 0.0, where=self.fi.where(node), mode="S",
                                   func=self.fi.qualname, detail=detail))
        elif caught:
            self.items.append(Item(name, "proved", "class-flow", 0.0, where=self.fi.where(node), mode="S",
                                   func=self.fi.qualname, detail=detail + " -- raised exception is caught by the enclosing try"))
        else:
            self.items.append(Item(name, "refuted", "class-flow", 0.0, where=self.fi.where(node), mode="S",
                                   func=self.fi.qualname, detail=detail, witness=witness or {"expression": ast.unparse(node)}))

    # ------------------------------------------------------------------ expressions
    def field_type(self, cls, attr):
        if (cls, attr) in self.over:
            return set(self.over[(cls, attr)])
        fields, methods = self.t.members(cls)
        if attr in fields:
            return set(fields[attr])
        if attr in methods:
            return {f"<method {cls}.{attr}>"}
        return None

    def ev(self, node, env) -> frozenset:
        if node is None:
            return frozenset({NONE})
        key = self.key(node)
        if key is not None and key in env:
            return env[key]
        if isinstance(node, ast.Constant):
            if node.value is None:
                return frozenset({NONE})
            return frozenset({type(node.value).__name__})
        if isinstance(node, ast.Name):
            return env.get(node.id, frozenset({ANY}))
        if isinstance(node, ast.Attribute):
            base = self.ev(node.value, env)
            return self.attr(node, base, env)
        if isinstance(node, ast.Call):
            return self.call(node, env)
        if isinstance(node, ast.IfExp):
            te, fe = self.narrow(node.test, env)
            return self.ev(node.body, te) | self.ev(node.orelse, fe)
        if isinstance(node, ast.BoolOp):
            cur = env
            out = frozenset()
            for v in node.values:
                out |= self.ev(v, cur)
                te, fe = self.narrow(v, cur)
                cur = te if isinstance(node.op, ast.And) else fe
            return out if ANY not in out else frozenset({ANY})
        if isinstance(node, (ast.Compare, ast.UnaryOp)):
            for ch in ast.iter_child_nodes(node):
                if isinstance(ch, ast.expr):
                    self.ev(ch, env)
            return frozenset({"bool"})
        if isinstance(node, (ast.JoinedStr,)):
            for ch in ast.walk(node):
                if isinstance(ch, ast.FormattedValue):
                    self.ev(ch.value, env)
            return frozenset({"str"})
        if isinstance(node, (ast.List, ast.Tuple, ast.Set)):
            for e in node.elts:
                self.ev(e, env)
            return frozenset({"list" if isinstance(node, ast.List) else "tuple"})
        if isinstance(node, ast.Dict):
            for e in list(node.keys) + list(node.values):
                if e is not None:
                    self.ev(e, env)
            return frozenset({"dict"})
        if isinstance(node, ast.Subscript):
            self.ev(node.value, env)
            if not isinstance(node.slice, ast.Slice):
                self.ev(node.slice, env)
            sig = self.sigs.get(ast.unparse(node))
            return frozenset(sig) if sig else frozenset({ANY})
        if isinstance(node, ast.BinOp):
            self.ev(node.left, env)
            self.ev(node.right, env)
            return frozenset({ANY})
        if isinstance(node, (ast.ListComp, ast.GeneratorExp, ast.SetComp, ast.DictComp, ast.Lambda)):
            return frozenset({ANY})
        for ch in ast.iter_child_nodes(node):
            if isinstance(ch, ast.expr):
                self.ev(ch, env)
        return frozenset({ANY})

    def key(self, node):
        if isinstance(node, ast.Name):
            return node.id
        if isinstance(node, ast.Attribute):
            b = self.key(node.value)
            return None if b is None else b + "." + node.attr
        return None

    def attr(self, node: ast.Attribute, base: frozenset, env) -> frozenset:
        if not base or base == frozenset({ANY}):
            self.unchecked += 1
            return frozenset({ANY})
        if ANY in base:
            # class unknown, but the value is known to be possibly None
            self.unchecked += 1
            if NONE in base:
                self.oblige("deref.null", node, False,
                            f"`{ast.unparse(node.value)}` may be None where `.{node.attr}` is taken",
                            {"expression": ast.unparse(node), "receiver": ast.unparse(node.value), "may_be": "None"})
            return frozenset({ANY})
        classes = [c for c in base if c in self.t.classes]
        others = [c for c in base if c not in self.t.classes and c != NONE]
        txt = ast.unparse(node.value)
        self.oblige("deref.null", node, NONE not in base,
                    f"`{txt}` is not None where `.{node.attr}` is taken (possible classes: {sorted(base)})",
                    {"expression": ast.unparse(node), "receiver": txt, "may_be": "None"})
        if others and not classes:
            return frozenset({ANY})
        out = set()
        missing = []
        for c in classes:
            ft = self.field_type(c, node.attr)
            if ft is None:
                missing.append(c)
            else:
                out |= ft
        self.oblige("attr.missing", node, not missing,
                    f"every class `{txt}` can have defines `.{node.attr}` ({sorted(classes)})",
                    {"expression": ast.unparse(node), "receiver": txt, "classes_without_attribute": sorted(missing)})
        if others:
            out.add(ANY)
        return frozenset(out) if out else frozenset({ANY})

    def call(self, node: ast.Call, env) -> frozenset:
        txt = ast.unparse(node.func)
        for a in node.args:
            self.ev(a, env)
        for k in node.keywords:
            self.ev(k.value, env)
        if txt in self.sigs:
            if isinstance(node.func, ast.Attribute):
                self.ev(node.func.value, env)
            return frozenset(self.sigs[txt])
        if isinstance(node.func, ast.Attribute) and isinstance(node.func.value, ast.Name) and node.func.value.id == "self" \
                and getattr(self.fi, "cls", None) is not None:
            helper = self.constructor_helper(self.fi.cls.name, node.func.attr)
            if helper is not None:
                return frozenset(helper)
        if isinstance(node.func, ast.Attribute):
            base = self.ev(node.func.value, env)
            res = self.attr(node.func, base, env)
            meth = node.func.attr
            out = set()
            known = True
            for a in res:
                if a.startswith("<method "):
                    cls = a[8:-1].split(".")[0]
                    sig = self.sigs.get(f"{cls}.{meth}") or self.sigs.get(f"*.{meth}")
                    if sig is None:
                        sig = self.constructor_helper(cls, meth)
                    if sig is None:
                        known = False
                    else:
                        out |= set(sig)
                else:
                    known = False
            if known and out:
                return frozenset(out)
            return frozenset({ANY})
        if isinstance(node.func, ast.Name) and node.func.id in self.t.classes:
            return frozenset({node.func.id})
        if isinstance(node.func, ast.Name) and node.func.id in ("len", "int"):
            return frozenset({"int"})
        if isinstance(node.func, ast.Name) and node.func.id in ("str",):
            return frozenset({"str"})
        return frozenset({ANY})

    def constructor_helper(self, cls: str, meth: str):
        """A private helper method of the class whose every return is None, `Cls(...)` of a repository class, or a local
        assigned from such a call: the classes it may return (a block that builds an object, moved into a method).
        None when the helper is anything else."""
        if not meth.startswith("_") or meth.startswith("__"):
            return None
        for c in self.t.mro(cls) if cls in self.t.classes else []:
            node = next((i for i in self.t.classes[c]["node"].body if isinstance(i, ast.FunctionDef) and i.name == meth), None)
            if node is None:
                continue
            local = {}
            for n in ast.walk(node):
                if isinstance(n, ast.Assign) and len(n.targets) == 1 and isinstance(n.targets[0], ast.Name):
                    v = n.value
                    if isinstance(v, ast.Call) and isinstance(v.func, ast.Name) and v.func.id in self.t.classes:
                        local.setdefault(n.targets[0].id, set()).add(v.func.id)
                    else:
                        local.setdefault(n.targets[0].id, set()).add(ANY)
            out = set()
            rets = [n for n in ast.walk(node) if isinstance(n, ast.Return)]
            if not rets:
                return None
            for r in rets:
                v = r.value
                if v is None or (isinstance(v, ast.Constant) and v.value is None):
                    out.add("None")
                elif isinstance(v, ast.Call) and isinstance(v.func, ast.Name) and v.func.id in self.t.classes:
                    out.add(v.func.id)
                elif isinstance(v, ast.Name) and v.id in local and ANY not in local[v.id]:
                    out |= local[v.id]
                else:
                    return None
            return out
        return None

    # ------------------------------------------------------------------ narrowing
    def narrow(self, test, env):
        """(env if test is true, env if test is false)"""
        te, fe = dict(env), dict(env)
        if isinstance(test, ast.UnaryOp) and isinstance(test.op, ast.Not):
            a, b = self.narrow(test.operand, env)
            return b, a
        if isinstance(test, ast.BoolOp):
            if isinstance(test.op, ast.And):
                cur = dict(env)
                for v in test.values:
                    self.ev(v, cur)
                    cur, _ = self.narrow(v, cur)
                return cur, dict(env)
            cur = dict(env)
            for v in test.values:
                self.ev(v, cur)
                _, cur = self.narrow(v, cur)
            return dict(env), cur
        if isinstance(test, ast.Compare) and len(test.ops) == 1:
            k = self.key(test.left)
            right = test.comparators[0]
            # x.get_type() == CONST / in (CONSTS): narrows the class set of x
            subj = None
            if isinstance(test.left, ast.Call) and isinstance(test.left.func, ast.Attribute) \
                    and test.left.func.attr == "get_type" and not test.left.args:
                subj = self.key(test.left.func.value)
            elif k is not None and k in self.aliases:
                subj = self.aliases[k]
            if subj is not None and subj not in env:
                # first look at this access path: take its declared class set
                src = test.left.func.value if isinstance(test.left, ast.Call) else None
                if src is not None:
                    cur0 = self.ev(src, env)
                    if ANY not in cur0:
                        env = dict(env)
                        env[subj] = cur0
                        te, fe = dict(env), dict(env)
            if subj is not None and subj in env and ANY not in env[subj]:
                consts = None
                if isinstance(right, ast.Name):
                    consts = {right.id}
                elif isinstance(right, (ast.Tuple, ast.List)) and all(isinstance(e, ast.Name) for e in right.elts):
                    consts = {e.id for e in right.elts}
                if consts is not None and isinstance(test.ops[0], (ast.Eq, ast.In, ast.NotEq, ast.NotIn)):
                    self.ev(test.left, env)
                    cur = env[subj]
                    yes = frozenset(c for c in cur if c in self.t.classes and
                                    (self.t.type_ids(c) is None or self.t.type_ids(c) & consts))
                    no = frozenset(c for c in cur if c not in self.t.classes or self.t.type_ids(c) is None
                                   or not (self.t.type_ids(c) <= consts))
                    yes = yes or frozenset({ANY})
                    no = no or frozenset({ANY})
                    if isinstance(test.ops[0], (ast.Eq, ast.In)):
                        te[subj], fe[subj] = yes, no
                    else:
                        te[subj], fe[subj] = no, yes
                    return te, fe
            if k is not None and isinstance(right, ast.Constant) and right.value is None:
                cur = self.ev(test.left, env)
                if isinstance(test.ops[0], (ast.Is, ast.Eq)):
                    te[k] = frozenset({NONE})
                    fe[k] = cur - {NONE} or frozenset({ANY})
                    return te, fe
                if isinstance(test.ops[0], (ast.IsNot, ast.NotEq)):
                    fe[k] = frozenset({NONE})
                    te[k] = cur - {NONE} or frozenset({ANY})
                    return te, fe
            self.ev(test.left, env)
            self.ev(right, env)
            return te, fe
        if isinstance(test, ast.Call) and isinstance(test.func, ast.Name) and test.func.id == "isinstance" and len(test.args) == 2:
            k = self.key(test.args[0])
            cur = self.ev(test.args[0], env)
            names = [ast.unparse(e).split(".")[-1] for e in (test.args[1].elts if isinstance(test.args[1], ast.Tuple) else [test.args[1]])]
            if k is not None and ANY not in cur:
                subs = set()
                for n in names:
                    subs |= self.t.subclasses(n) | {n}
                te[k] = frozenset(c for c in cur if c in subs) or frozenset({ANY})
                fe[k] = frozenset(c for c in cur if c not in subs) or frozenset({ANY})
            return te, fe
        k = self.key(test)
        if k is not None:
            cur = self.ev(test, env)
            te[k] = cur - {NONE} or frozenset({ANY})
            return te, fe
        self.ev(test, env)
        return te, fe

    # ------------------------------------------------------------------ statements
    def kill(self, env, name):
        for k in list(env):
            if k == name or k.startswith(name + "."):
                del env[k]

    def terminates(self, body):
        return bool(body) and isinstance(body[-1], (ast.Return, ast.Continue, ast.Break, ast.Raise))

    def join(self, a, b):
        out = {}
        for k in set(a) & set(b):
            out[k] = a[k] | b[k]
        return out

    def block(self, stmts, env):
        """Returns the environment after the block, or None if every path leaves it."""
        for s in stmts:
            env = self.stmt(s, env)
            if env is None:
                return None
        return env

    def stmt(self, s, env):
        if isinstance(s, (ast.FunctionDef, ast.ClassDef, ast.Pass, ast.Global, ast.Import, ast.ImportFrom)):
            return env
        if isinstance(s, ast.Return):
            self.returns.append(self.ev(s.value, env) if s.value is not None else frozenset({NONE}))
            return None
        if isinstance(s, ast.Raise):
            return None
        if isinstance(s, (ast.Continue, ast.Break)):
            return None
        if isinstance(s, ast.Expr):
            self.ev(s.value, env)
            if isinstance(s.value, ast.Call):
                sets = self.sigs.get(ast.unparse(s.value.func) + "#sets")
                if sets:
                    env = dict(env)
                    for k, v in sets.items():
                        env[k] = frozenset(v)
            return env
        if isinstance(s, (ast.Assign, ast.AnnAssign, ast.AugAssign)):
            val = s.value
            ty = self.ev(val, env) if val is not None else frozenset({ANY})
            targets = s.targets if isinstance(s, ast.Assign) else [s.target]
            env = dict(env)
            for t in targets:
                if isinstance(t, ast.Name):
                    self.kill(env, t.id)
                    self.aliases.pop(t.id, None)
                    if isinstance(val, ast.Call) and isinstance(val.func, ast.Attribute) and val.func.attr == "get_type" \
                            and not val.args and self.key(val.func.value):
                        self.aliases[t.id] = self.key(val.func.value)
                    env[t.id] = ty if not isinstance(s, ast.AugAssign) else frozenset({ANY})
                elif isinstance(t, ast.Tuple):
                    sig = None
                    if isinstance(val, ast.Call):
                        sig = self.sigs.get(ast.unparse(val.func) + "#tuple")
                    for i, e in enumerate(t.elts):
                        if isinstance(e, ast.Name):
                            self.kill(env, e.id)
                            env[e.id] = frozenset(sig[i]) if sig and i < len(sig) else frozenset({ANY})
                        else:
                            self.ev(e, env) if not isinstance(e, ast.Starred) else None
                else:
                    k = self.key(t)
                    if isinstance(t, ast.Attribute):
                        self.ev(t.value, env)
                    elif isinstance(t, ast.Subscript):
                        self.ev(t.value, env)
                    if k is not None:
                        self.kill(env, k)
                        env[k] = ty
            return env
        if isinstance(s, ast.If):
            self.ev(s.test, env)
            te, fe = self.narrow(s.test, env)
            a = self.block(s.body, te)
            b = self.block(s.orelse, fe)
            if a is None:
                return b
            if b is None:
                return a
            return self.join(a, b)
        if isinstance(s, (ast.For, ast.While)):
            env = dict(env)
            assigned = {n.id for n in ast.walk(s) if isinstance(n, ast.Name) and isinstance(n.ctx, ast.Store)}
            attr_assigned = set()
            for n in ast.walk(s):
                if isinstance(n, (ast.Assign, ast.AugAssign)):
                    for t in (n.targets if isinstance(n, ast.Assign) else [n.target]):
                        k = self.key(t)
                        if k:
                            attr_assigned.add(k)
            for a in assigned | attr_assigned:
                self.kill(env, a)
            if isinstance(s, ast.For):
                it = self.ev(s.iter, env)
                elem = self.sigs.get("iter:" + ast.unparse(s.iter))
                for n in ast.walk(s.target):
                    if isinstance(n, ast.Name):
                        env[n.id] = frozenset({ANY})
                if elem and isinstance(s.target, ast.Name):
                    env[s.target.id] = frozenset(elem)
                body_env = env
            else:
                self.ev(s.test, env)
                body_env, _ = self.narrow(s.test, env)
            self.block(s.body, dict(body_env))
            if s.orelse:
                self.block(s.orelse, dict(env))
            return env
        if isinstance(s, ast.Try):
            caught = set()
            for h in s.handlers:
                if h.type is None:
                    caught.add("<bare>")
                elif isinstance(h.type, ast.Tuple):
                    caught |= {ast.unparse(e).split(".")[-1] for e in h.type.elts}
                else:
                    caught.add(ast.unparse(h.type).split(".")[-1])
            self._catch.append(caught)
            a = self.block(s.body, dict(env))
            self._catch.pop()
            outs = []
            if a is not None:
                if s.orelse:
                    a = self.block(s.orelse, a)
                if a is not None:
                    outs.append(a)
            for h in s.handlers:
                # state at the handler: anything assigned in the try body is unknown
                henv = dict(env)
                for n in ast.walk(ast.Module(body=s.body, type_ignores=[])):
                    if isinstance(n, ast.Name) and isinstance(n.ctx, ast.Store):
                        self.kill(henv, n.id)
                b = self.block(h.body, henv)
                if b is not None:
                    outs.append(b)
            res = None
            for o in outs:
                res = o if res is None else self.join(res, o)
            if s.finalbody and res is not None:
                res = self.block(s.finalbody, res)
            return res
        if isinstance(s, ast.With):
            for it in s.items:
                self.ev(it.context_expr, env)
            return self.block(s.body, env)
        for ch in ast.iter_child_nodes(s):
            if isinstance(ch, ast.expr):
                self.ev(ch, env)
        return env
