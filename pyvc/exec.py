"""Statements, loops (cut by invariants), modular calls, and the per-function driver."""
from __future__ import annotations

import ast

from . import smt
from .smt import And, Or, Not, Implies, Ite, Eq, IntVal, StrVal, BoolVal, Len, Add, Sub, Lt, Le, Ge, Gt, TRUE, FALSE, Term
from .types import *
from .pyops import GenerationError, coerce, truthy, wrap, fresh_val, const_val
from . import pyops
from .engine import Engine, State, Obligation, is_subclass
from .builtins_ import iter_view, IterV
from .contract import Contract, LoopSpec, Raises, FrameCall
from .results import Item
from .source import loop_fingerprint, SourceError

MUTATORS = {"append", "extend", "pop", "insert", "remove", "reverse", "sort", "add", "update", "clear",
            "popleft", "appendleft", "extendleft", "discard", "setdefault"}


class Verifier(Engine):
    # ------------------------------------------------------------------ driver
    def verify(self) -> list[Obligation]:
        c = self.c
        fn = self.func.node
        st = State()
        self.initial = State()
        self._abstract_used = set()
        # parameters
        argnames = [a.arg for a in fn.args.args]
        if c.ghost.get("slice_from"):
            argnames = [a for a in argnames if a in c.params or a == "self" and c.receiver_cls]
        for a in argnames:
            if a == "self":
                cls = c.receiver_cls or (self.func.cls.name if self.func.cls else None)
                st.env["self"] = ObjV(cls, ("self",))
            elif a in c.params:
                st.env[a] = self._declare_param(a, c.params[a])
            else:
                raise GenerationError(f"{c.qualname}: parameter {a} has no type in the contract")
        # closure variables of nested functions
        for a, ty in c.params.items():
            if a not in st.env:
                if a in self.local_names and c.nested_in is None:
                    raise GenerationError(f"{c.qualname}: ghost parameter '{a}' clashes with a local variable")
                st.env[a] = self._declare_param(a, ty)
        self.initial.env = dict(st.env)
        # a postcondition that names a parameter the body re-assigns would silently speak about the final value:
        # it has to say old(p) (entry value) — ghost parameters updated by call models are meant as final values
        reassigned = {n.id for n in ast.walk(fn) if isinstance(n, ast.Name) and isinstance(n.ctx, ast.Store)} & set(argnames)
        if reassigned:
            for name, expr in c.ensures:
                tree = ast.parse(expr, mode="eval")
                inside_old = set()
                for n in ast.walk(tree):
                    if isinstance(n, ast.Call) and isinstance(n.func, ast.Name) and n.func.id == "old":
                        inside_old |= {id(x) for x in ast.walk(n)}
                amb = sorted({n.id for n in ast.walk(tree) if isinstance(n, ast.Name) and n.id in reassigned and id(n) not in inside_old})
                if amb:
                    raise GenerationError(f"{c.qualname}: ensures.{name} names the re-assigned parameter(s) {amb} outside old(): "
                                          "write old(p) for the entry value")
        # requires
        for name, expr in c.requires:
            st.assume(self.spec_bool(expr, st))
        self.initial.heap = dict(st.heap)
        self.initial.pc = list(st.pc)
        # vacuity: the precondition must be satisfiable
        self.obligations.append(Obligation(f"{c.prop}/{c.short}/vacuity.requires", list(st.pc), FALSE,
                                           self.func.where(), kind="must_be_sat", inputs=self.input_terms))
        body = fn.body
        sl = c.ghost.get("slice_from")
        if sl:
            # mechanical slice: verify the suffix of the body that starts at the first top-level statement whose
            # source text starts with `sl`; the free variables of the suffix are the contract's parameters.  What is
            # dropped (the prefix) is reported in the evidence by the contract's note.
            alts = (sl,) if isinstance(sl, str) else tuple(sl)
            idx = next((i for i, s_ in enumerate(fn.body) if ast.unparse(s_).startswith(alts)), None)
            if idx is None:
                raise SourceError(f"{c.qualname}: no top-level statement starts with {sl!r}")
            body = fn.body[idx:]
            self.sliced = (idx, len(fn.body))
        outs = self.exec_block(body, st)
        n_ret = 0
        for kind, s, val in outs:
            if kind in ("normal", "return"):
                n_ret += 1
                if kind == "normal":
                    val = NoneV()
                self._check_post(s, val, n_ret)
            elif kind == "raise":
                self._check_raise(s, val)
            else:
                raise GenerationError(f"{kind} outside loop")
        self.returns_reached = n_ret
        for txt in self.c.abstract_stmts:
            if txt not in self._abstract_used:
                raise SourceError(f"{c.qualname}: abstracted statement no longer present: {txt[:80]}")
        if n_ret == 0 and not c.raises:
            raise GenerationError(f"{c.qualname}: no path reaches a return")
        return self.obligations

    def _declare_param(self, name: str, ty: Ty) -> Val:
        if isinstance(ty, TObj):
            return ObjV(ty.cls, (name,))
        return self._declare_input(name, ty)

    def _check_post(self, s: State, val: Val, k: int):
        c = self.c
        saved = s.env.get("result")
        if c.result is not None:
            val = coerce(self, val, c.result)
        s.env["result"] = val
        for name, expr in c.ensures:
            goal = self.spec_bool(expr, s)
            self.oblige(f"{c.prop}/{c.short}/ensures.{name}#{k}", s, goal, self.func.where())
        if saved is not None:
            s.env["result"] = saved
        # canary: the end of this path must be reachable (guards against contradictory assumptions)
        self.obligations.append(Obligation(f"{c.prop}/{c.short}/canary#{k}", s.pc, FALSE, self.func.where(),
                                           kind="must_be_sat", inputs=self.input_terms, trace=s.trace))

    def _check_raise(self, s: State, exc: ExcV):
        c = self.c
        for r in c.raises:
            sub = is_subclass(exc.cls, r.cls)
            if sub:
                for name, expr in r.ensures:
                    s.env["exc"] = exc
                    self.oblige(f"{c.prop}/{c.short}/raises.{r.cls}.{name}", s, self.spec_bool(expr, s),
                                self.func.where())
                if r.when is not None:
                    old = self._old_override
                    self._old_override = self.initial
                    w = self.spec_bool(r.when, self.initial.fork())
                    self._old_override = old
                    self.oblige(f"{c.prop}/{c.short}/raises.{r.cls}.only_when", s, w, self.func.where())
                return
        if c.no_raise:
            n = sum(1 for o in self.obligations if o.kind == "no_raise") + 1
            self.obligations.append(Obligation(f"{c.prop}/{c.short}/no_raise.{exc.cls}[{exc.origin}]#{n}", s.pc, FALSE,
                                               self.func.where(), kind="no_raise", inputs=self.input_terms,
                                               trace=s.trace))

    # ------------------------------------------------------------------ statements
    def exec_block(self, stmts, st: State):
        """Returns list of (kind, state, value) with kind in normal/return/raise/break/continue."""
        states = [st]
        outs = []
        for stmt in stmts:
            nxt = []
            for s in states:
                for kind, s2, val in self.exec_stmt(stmt, s):
                    if kind == "normal":
                        nxt.append(s2)
                    else:
                        outs.append((kind, s2, val))
            states = nxt
            self.paths += len(states)
            if self.paths > self.MAX_PATHS * 50 or len(states) > self.MAX_PATHS:
                raise GenerationError(f"{self.c.qualname}: path explosion")
            if not states:
                break
        return outs + [("normal", s, None) for s in states]

    def _flush(self, st: State):
        outs = [("raise", b, e) for b, e in st.pending]
        st.pending = []
        return outs

    def exec_stmt(self, node: ast.stmt, st: State):
        if self.c.abstract_stmts:
            txt = ast.unparse(node)
            key = txt if txt in self.c.abstract_stmts else None
            if key is None:
                # a key ending in " ..." abstracts the statement that starts with it (its frame is still checked)
                key = next((k for k in self.c.abstract_stmts if k.endswith(" ...") and txt.startswith(k[:-4])), None)
            if key is not None:
                self._abstract_used.add(key)
                self.frame_check(node, txt if len(txt) < 60 else txt[:57] + "...", self.c.abstract_stmts[key])
                return [("normal", st, None)]
        m = getattr(self, "s_" + type(node).__name__, None)
        if m is None:
            raise GenerationError(f"statement {type(node).__name__} in {self.c.qualname}")
        return m(node, st)

    def s_Pass(self, node, st):
        return [("normal", st, None)]

    def s_Break(self, node, st):
        return [("break", st, None)]

    def s_Continue(self, node, st):
        return [("continue", st, None)]

    def s_Global(self, node, st):
        return [("normal", st, None)]

    def s_FunctionDef(self, node, st):
        st.env[node.name] = FnV("nested", node=node)
        return [("normal", st, None)]

    def s_Expr(self, node, st):
        if isinstance(node.value, ast.Constant):
            return [("normal", st, None)]
        if isinstance(node.value, ast.Call):
            inl = self._inline_target(node.value, st)
            if inl is not None:
                return self._inline_call(inl, node.value, st, lambda s, v: None)
        self.eval(node.value, st)
        return self._flush(st) + [("normal", st, None)]

    def s_Return(self, node, st):
        if node.value is None:
            return [("return", st, NoneV())]
        if isinstance(node.value, ast.Call):
            inl = self._inline_target(node.value, st)
            if inl is not None:
                outs = self._inline_call(inl, node.value, st, lambda s, v: s.env.__setitem__("__ret", v))
                return [("return", s, s.env.pop("__ret")) if k == "normal" else (k, s, v) for k, s, v in outs]
        v = self.eval(node.value, st)
        return self._flush(st) + [("return", st, v)]

    def s_Assign(self, node, st):
        if isinstance(node.value, ast.Call):
            inl = self._inline_target(node.value, st)
            if inl is not None:
                def bind(s, v):
                    for t in node.targets:
                        self.store(t, v, s)
                outs = self._inline_call(inl, node.value, st, bind)
                res = []
                for k, s, v in outs:
                    res += self._flush(s)
                    res.append((k, s, v))
                return res
        v = self._eval_rhs(node.value, node.targets[0], st)
        for t in node.targets:
            self.store(t, v, st)
        return self._flush(st) + [("normal", st, None)]

    def _eval_rhs(self, value, target, st):
        # `[]` / `{}` / `set()` initialisers take their type from the contract's locals / fields table
        ty = None
        if isinstance(target, ast.Name) and target.id in self.c.locals:
            ty = self.c.locals[target.id]
        elif isinstance(target, ast.Attribute) and isinstance(target.value, ast.Name):
            base = st.env.get(target.value.id)
            if isinstance(base, ObjV):
                ty = self.field_types.get(base.path + (target.attr,))
        if ty is not None:
            d = self.decls
            if isinstance(value, ast.List) and not value.elts and isinstance(ty, TSeq):
                return V(ty, smt.EmptySeq(sort_of(ty, d)))
            if isinstance(value, ast.Dict) and not value.keys and isinstance(ty, TMap):
                none = d.none(sort_of(ty.val, d))
                return V(ty, Term(sort_of(ty, d), f"((as const {sort_of(ty, d)}) {none.s})"))
            if (isinstance(value, ast.Call) and isinstance(value.func, ast.Name) and value.func.id == "set"
                    and not value.args and isinstance(ty, TSet)):
                return V(ty, Term(sort_of(ty, d), f"((as const {sort_of(ty, d)}) false)"))
        return self.eval(value, st)

    def s_AnnAssign(self, node, st):
        if node.value is None:
            return [("normal", st, None)]
        fake = ast.Assign(targets=[node.target], value=node.value)
        return self.s_Assign(fake, st)

    def s_AugAssign(self, node, st):
        cur = self.eval(node.target, st)
        rhs = self.eval(node.value, st)
        op = type(node.op).__name__
        v = pyops.py_add(self, cur, rhs) if op == "Add" else pyops.py_arith(self, op, cur, rhs)
        self.store(node.target, v, st)
        return self._flush(st) + [("normal", st, None)]

    def s_Delete(self, node, st):
        # `del x[a:]` is `x = x[:a]`; `del x[a:b]` is `x = x[:a] + x[b:]` (sequences; a, b evaluated once, pure)
        outs = []
        for t in node.targets:
            if not (isinstance(t, ast.Subscript) and isinstance(t.slice, ast.Slice) and t.slice.step is None
                    and t.slice.lower is not None):
                raise GenerationError(f"del of {ast.unparse(t)} in {self.c.qualname}")
            x, lo = ast.unparse(t.value), ast.unparse(t.slice.lower)
            rhs = f"{x}[:{lo}]" if t.slice.upper is None else f"{x}[:{lo}] + {x}[{ast.unparse(t.slice.upper)}:]"
            fake = ast.parse(f"{x} = {rhs}").body[0]
            ast.copy_location(fake, node)
            for n in ast.walk(fake):
                ast.copy_location(n, node)
            outs += self.s_Assign(fake, st)
        return outs

    def s_If(self, node, st):
        c = truthy(self, self.eval(node.test, st))
        outs = self._flush(st)
        if c.s == "true":
            return outs + self.exec_block(node.body, st)
        if c.s == "false":
            return outs + self.exec_block(node.orelse, st)
        s1 = st.fork()
        s1.assume(c)
        s1.trace.append(f"if {self.origin(node.test)}")
        s2 = st.fork()
        s2.assume(Not(c))
        s2.trace.append(f"not {self.origin(node.test)}")
        return outs + self.exec_block(node.body, s1) + self.exec_block(node.orelse, s2)

    def s_Assert(self, node, st):
        c = truthy(self, self.eval(node.test, st))
        outs = self._flush(st)
        self.may_raise(st, c, "AssertionError", self.origin(node))
        return outs + self._flush(st) + [("normal", st, None)]

    def s_Raise(self, node, st):
        if node.exc is None:
            cur = st.env.get("__exc")
            if cur is None:
                raise GenerationError("bare raise outside handler")
            return [("raise", st, cur)]
        exc = self._make_exc(node.exc, st)
        return self._flush(st) + [("raise", st, exc)]

    def _make_exc(self, node, st) -> ExcV:
        if isinstance(node, ast.Call):
            cls = ast.unparse(node.func)
            fields = {}
            # record constructor arguments by keyword / position for repository exception classes
            sig = self.c.ghost.get("exc_fields", {}).get(cls, [])
            for k, a in enumerate(node.args):
                v = self.eval(a, st)
                if k < len(sig):
                    fields[sig[k]] = v
            for kw in node.keywords:
                fields[kw.arg] = self.eval(kw.value, st)
            for f in sig:
                fields.setdefault(f, NoneV())
            return ExcV(cls, fields, self.origin(node))
        if isinstance(node, ast.Name):
            v = st.env.get(node.id)
            if isinstance(v, ExcV):
                return v
            return ExcV(node.id, {}, self.origin(node))
        raise GenerationError("raise of expression")

    def s_Try(self, node, st):
        outs = []
        body_outs = self.exec_block(node.body, st)
        after = []
        for kind, s, val in body_outs:
            if kind == "raise":
                after += self._dispatch_handlers(node, s, val)
            elif kind == "normal" and node.orelse:
                after += self.exec_block(node.orelse, s)
            else:
                after.append((kind, s, val))
        if node.finalbody:
            fin = []
            for kind, s, val in after:
                for k2, s2, v2 in self.exec_block(node.finalbody, s):
                    fin.append((kind, s2, val) if k2 == "normal" else (k2, s2, v2))
            after = fin
        return outs + after

    def _dispatch_handlers(self, node: ast.Try, s: State, exc: ExcV):
        res = []
        cur = s
        for h in node.handlers:
            if h.type is None:
                names = ["BaseException"]
            elif isinstance(h.type, ast.Tuple):
                names = [ast.unparse(e) for e in h.type.elts]
            else:
                names = [ast.unparse(h.type)]
            verdicts = [is_subclass(exc.cls, n.split(".")[-1] if n not in ("re.error",) else n) for n in names]
            if any(v is True for v in verdicts):
                res += self._run_handler(h, cur, exc)
                return res
            if any(v is None for v in verdicts):
                # unknown exception class: it may or may not be caught here
                hit = cur.fork()
                hit.trace.append(f"except {names} catches")
                res += self._run_handler(h, hit, ExcV(names[0].split(".")[-1], exc.fields, exc.origin))
                cur = cur.fork()
                cur.trace.append(f"except {names} does not catch")
        res.append(("raise", cur, exc))
        return res

    def _run_handler(self, h: ast.ExceptHandler, s: State, exc: ExcV):
        saved = s.env.get("__exc")
        s.env["__exc"] = exc
        if h.name:
            s.env[h.name] = exc
        outs = self.exec_block(h.body, s)
        for k, s2, v in outs:
            if saved is None:
                s2.env.pop("__exc", None)
            else:
                s2.env["__exc"] = saved
        return outs

    def s_With(self, node, st):
        for item in node.items:
            v = self.eval(item.context_expr, st)
            if item.optional_vars is not None:
                self.store(item.optional_vars, v, st)
        outs = self._flush(st)
        return outs + self.exec_block(node.body, st)

    # ------------------------------------------------------------------ inline calls (nested helpers)
    def _inline_target(self, call: ast.Call, st: State):
        txt = ast.unparse(call.func)
        how = self.c.calls.get(txt)
        if how == "inline":
            v = st.env.get(txt)
            if isinstance(v, FnV) and v.kind == "nested":
                return v.node
            raise GenerationError(f"inline target {txt} is not a nested function")
        if how is None and isinstance(call.func, ast.Name) and txt not in st.env and txt not in self.local_names:
            sib = self._sibling_function(txt)
            if sib is not None:
                return sib
        if how is None and isinstance(call.func, ast.Name) and isinstance(st.env.get(txt), FnV) and st.env[txt].kind == "sibling":
            return st.env[txt].node
        if how is None and isinstance(call.func, ast.Attribute) and isinstance(call.func.value, ast.Name) \
                and call.func.value.id == "self" and isinstance(st.env.get("self"), ObjV) and st.env["self"].path == ("self",) \
                and self.func.cls is not None and not self.c.nested_in and txt not in self.registry_calls():
            # a private helper method of the same class without a contract of its own: its body is part of the
            # function under contract (a block moved into a method keeps the proof)
            helper = self._class_method(call.func.attr)
            if helper is not None and call.func.attr.startswith("_") and not call.func.attr.startswith("__") \
                    and getattr(self, "_inline_depth", 0) < 2:
                return helper
        return None

    def registry_calls(self):
        return set(self.c.calls)

    def _class_method(self, name: str):
        prefix = self.c.qualname.split("#")[0].rsplit(".", 1)[0] + "."
        try:
            fi = self.repo.func(prefix + name)
        except Exception:
            return None
        if [ast.unparse(d) for d in fi.node.decorator_list] not in ([], ["staticmethod"]):
            return None
        return fi.node

    def _inline_call(self, fnode: ast.FunctionDef, call: ast.Call, st: State, bind):
        args = [self.eval(a, st) for a in call.args]
        kwargs = {k.arg: self.eval(k.value, st) for k in call.keywords}
        outs = self._flush(st)
        saved_env = st.env
        env = dict(st.env)
        params = [a.arg for a in fnode.args.args]
        defaults = fnode.args.defaults
        is_method = params[:1] == ["self"] and isinstance(call.func, ast.Attribute)
        if is_method:
            args = [st.env["self"]] + args
        for k, p in enumerate(params):
            if k < len(args):
                env[p] = args[k]
            elif p in kwargs:
                env[p] = kwargs[p]
            else:
                di = k - (len(params) - len(defaults))
                if di < 0:
                    raise GenerationError(f"missing argument {p}")
                env[p] = self.eval(defaults[di], st)
        st.env = env
        local_names = set(params) | {n.id for n in ast.walk(fnode) if isinstance(n, ast.Name) and isinstance(n.ctx, ast.Store)}
        res = []
        if is_method:
            self._inline_depth = getattr(self, "_inline_depth", 0) + 1
        try:
            body_outs = self.exec_block(fnode.body, st)
        finally:
            if is_method:
                self._inline_depth -= 1
        for kind, s, val in body_outs:
            if kind in ("normal", "return"):
                # restore caller's locals; keep nothing of the callee's (closures write via heap only) except the
                # ghost state call models maintain (contract parameters that are not locals of the callee, typestate)
                new_env = dict(saved_env)
                for gname, gval in s.env.items():
                    if gname not in local_names and (gname in saved_env or gname.startswith("#")):
                        new_env[gname] = gval
                s.env = new_env
                bind(s, val if kind == "return" else NoneV())
                res.append(("normal", s, None))
            elif kind == "raise":
                s.env = dict(saved_env)
                res.append((kind, s, val))
            else:
                raise GenerationError("break/continue escaping inline function")
        return outs + res

    # ------------------------------------------------------------------ modular calls
    # ------------------------------------------------------------------ frame abstraction (mode E)
    frame_items = None
    _abstract_used = None
    _effects_cache = {}

    @property
    def effects(self):
        key = id(self.repo)
        if key not in Verifier._effects_cache:
            from .effects import Effects
            Verifier._effects_cache[key] = Effects(self.repo)
        return Verifier._effects_cache[key]

    def guarded_fields(self):
        """(field name, owner class short name or None) for every non-object field the contract declares."""
        out = []
        for path, ty in self.field_types.items():
            if isinstance(ty, TObj):
                continue
            owner = path[:-1]
            oty = self.field_types.get(owner)
            cls = None
            if isinstance(oty, TObj):
                cls = oty.cls
            elif owner == ("self",):
                cls = self.c.receiver_cls or (self.func.cls.name if self.func.cls else None)
            elif len(owner) == 1 and isinstance(self.c.params.get(owner[0]), TObj):
                cls = self.c.params[owner[0]].cls
            elif owner in self.obj_classes:
                cls = self.obj_classes[owner]
            out.append((path[-1], cls))
        return out

    obj_classes: dict = {}

    def frame_check(self, node: ast.AST, what: str, allow=()):
        """Obligation: the statements of `node` (and everything they can reach) write no guarded field."""
        if self.frame_items is None:
            self.frame_items = []
        eff = self.effects
        q = self.c.qualname
        lo, hi = node.lineno, getattr(node, "end_lineno", node.lineno)
        hints = {".".join(path): ty.cls for path, ty in self.field_types.items() if isinstance(ty, TObj)}
        eff.receiver_classes = {tuple(k.rsplit("::", 1)): v for k, v in self.c.ghost.get("receiver_classes", {}).items()}
        writes, dyn = eff.block_writes(q, lo, hi, calls_only=isinstance(node, ast.Call), recv_hints=hints)
        guarded = self.guarded_fields()
        offending = []
        for f, wcls, path, where in writes:
            for g, gcls in guarded:
                if g in allow:
                    continue
                if f != g and f != "*":
                    continue
                gq = eff.class_by_short.get(gcls, [None])[0] if gcls else None
                if eff.related(wcls, gq):
                    offending.append({"field": g, "written_as": f, "writer_class": wcls, "call_path": path,
                                      "where": where})
        name = f"{self.c.prop}/{self.c.short}/frame[{what}]"
        detail = (f"{len(writes)} reachable writes examined against guarded fields "
                  f"{sorted({g for g, _ in guarded})}; allowed: {sorted(allow)}")
        if offending:
            self.frame_items.append(Item(name, "refuted", "frame-analysis", 0.0, where=self.func.where(node),
                                         detail=detail, mode="E", func=q, witness=offending[:5], confirmed=None))
        else:
            self.frame_items.append(Item(name, "proved", "frame-analysis", 0.0, where=self.func.where(node),
                                         detail=detail, mode="E", func=q))

    def call_frame(self, fc: FrameCall, txt: str, node: ast.Call, st: State) -> Val:
        self.frame_check(node, txt, fc.allow_writes)
        for cls in fc.raises:
            bad = st.fork()
            bad.guards = []
            bad.pc = st.pc + st.guards
            bad.trace.append(f"{txt} raises {cls}")
            st.pending.append((bad, ExcV(cls, {}, f"{txt}(...)")))
        for p in fc.modifies:
            path = tuple(p.split("."))
            self.heap_get(st, path)
            st.heap[path] = fresh_val(self, p, self.field_types[path])
        if fc.result is None or isinstance(fc.result, TNone):
            return NoneV()
        return fresh_val(self, "ret_" + smt.mangle(txt), fc.result)

    def call_contracted(self, how, txt: str, node: ast.Call, st: State, args, kwargs) -> Val:
        if isinstance(how, FrameCall):
            return self.call_frame(how, txt, node, st)
        if callable(how) and not isinstance(how, Contract):
            return how(self, st, node, args, kwargs)
        if isinstance(how, str) and how.startswith("inline:"):
            return self.inline_simple(how[7:], txt, st, args, kwargs)
        if how == "inline":
            raise GenerationError(f"inline call of {txt} inside an expression")
        ghost_bind = {}
        if isinstance(how, tuple):
            how, ghost_bind = how
        callee: Contract = self.registry.get(how) if isinstance(how, str) else how
        recv_path = None
        if isinstance(node.func, ast.Attribute) and callee.receiver_cls:
            recv = self.eval(node.func.value, st)
            if not isinstance(recv, ObjV):
                raise GenerationError(f"receiver of {txt} is not an object path")
            recv_path = recv.path
        ghosts = {g: self.eval(ast.parse(e, mode="eval").body, st, True) for g, e in ghost_bind.items()}
        return self.apply_contract(callee, txt, recv_path, st, args, kwargs, ghosts)

    def inline_simple(self, qualname: str, txt: str, st: State, args, kwargs) -> Val:
        """Expand a call of a repository function whose body is a single `return <expr>` (docstring allowed)."""
        fi = self.repo.func(qualname)
        self.check_undecorated(fi)
        body = [s for s in fi.node.body if not (isinstance(s, ast.Expr) and isinstance(s.value, ast.Constant))]
        if len(body) != 1 or not isinstance(body[0], ast.Return) or body[0].value is None:
            raise GenerationError(f"{qualname} is not a single-return function: cannot inline in an expression")
        params = [a.arg for a in fi.node.args.args]
        defaults = fi.node.args.defaults
        env = {}
        for k, p in enumerate(params):
            if k < len(args):
                env[p] = args[k]
            elif p in kwargs:
                env[p] = kwargs[p]
            else:
                di = k - (len(params) - len(defaults))
                if di < 0:
                    raise GenerationError(f"missing argument {p} for {qualname}")
                env[p] = self.eval(defaults[di], State())
        saved, saved_c = st.env, self.c
        st.env = env
        try:
            return self.eval(body[0].value, st)
        finally:
            st.env = saved

    def _callee_env(self, callee: Contract, recv_path, st, args, kwargs):
        env = {}
        try:
            cfi = self.repo.func(callee.qualname)
        except SourceError:
            if not callee.assumed:
                raise
            cfi = None
        if cfi is not None:
            self.check_undecorated(cfi)
            fnode = cfi.node
            params = [a.arg for a in fnode.args.args]
            defaults = fnode.args.defaults
        else:
            params = (["self"] if callee.receiver_cls else []) + list(callee.params)
            defaults = []
        if params and params[0] == "self":
            params = params[1:]
            env["self"] = ObjV(callee.receiver_cls, recv_path if recv_path is not None else ("?",))
        for k, p in enumerate(params):
            if k < len(args):
                v = args[k]
            elif p in kwargs:
                v = kwargs[p]
            else:
                di = k - (len(params) - len(defaults))
                if di < 0 or di >= len(defaults):
                    raise GenerationError(f"missing argument {p} for {callee.qualname}")
                v = self.eval(defaults[di], State())
            if p in callee.params and not isinstance(callee.params[p], TObj):
                v = coerce(self, v, callee.params[p])
            env[p] = v
        # closure variables of a nested function: taken from the caller's scope by name
        for p in callee.params:
            if p not in env and p in st.env:
                env[p] = st.env[p]
        return env

    def _translate(self, callee: Contract, recv_path, p: str) -> tuple:
        parts = tuple(p.split("."))
        if parts[0] == "self":
            if recv_path is None:
                raise GenerationError(f"{callee.qualname}: self path without receiver")
            return tuple(recv_path) + parts[1:]
        return parts

    def apply_contract(self, callee: Contract, txt: str, recv_path, st: State, args, kwargs, ghosts=None) -> Val:
        if st.guards and callee.modifies:
            raise GenerationError(f"heap-modifying call {txt} under a short-circuit guard")
        env = self._callee_env(callee, recv_path, st, args, kwargs)
        for g, v in (ghosts or {}).items():
            env[g] = coerce(self, v, callee.params[g]) if g in callee.params else v
        for p, ty in callee.fields.items():
            self.field_types.setdefault(self._translate(callee, recv_path, p), ty)
        caller_env = st.env
        saved_c = self.spec_contract
        self.spec_contract = callee
        try:
            st.env = env
            for name, expr in callee.requires:
                self.oblige(f"{self.c.prop}/{self.c.short}/call[{txt}].requires.{name}", st,
                            self.spec_bool(expr, st), self.func.where(), kind="call_pre")
            snapshot = st.fork()
            snapshot.env = dict(env)
            # exceptional outcomes
            for r in callee.raises:
                bad = snapshot.fork()
                bad.guards = []
                bad.pc = bad.pc + st.guards
                old = self._old_override
                self._old_override = snapshot
                if r.when is not None:
                    bad.assume(self.spec_bool(r.when, bad))
                self._havoc(callee, recv_path, bad, txt)
                fields = {f: fresh_val(self, f"exc.{f}", ty) for f, ty in r.fields.items()}
                bad.env["exc"] = ExcV(r.cls, fields, txt)
                for name, expr in r.ensures:
                    bad.assume(self.spec_bool(expr, bad))
                self._old_override = old
                bad.env = dict(caller_env)
                bad.trace.append(f"{txt} raises {r.cls}")
                st.pending.append((bad, ExcV(r.cls, fields, f"{txt}(...)")))
            # normal outcome
            self._havoc(callee, recv_path, st, txt)
            if callee.result is None or isinstance(callee.result, TNone):
                res = NoneV()
            elif isinstance(callee.result, TObj):
                res = ObjV(callee.result.cls, ("$ret", txt))
            else:
                res = fresh_val(self, "ret_" + callee.short.replace(".", "_"), callee.result)
            st.env["result"] = res
            old = self._old_override
            self._old_override = snapshot
            for name, expr in callee.ensures:
                st.assume(self.spec_bool(expr, st))
            self._old_override = old
            return res
        finally:
            st.env = caller_env
            self.spec_contract = saved_c

    spec_contract = None

    def _havoc(self, callee: Contract, recv_path, st: State, txt: str):
        for p in callee.modifies:
            path = self._translate(callee, recv_path, p)
            ty = self.field_types.get(path)
            if ty is None:
                raise GenerationError(f"modifies {p} of {callee.qualname}: undeclared field")
            self.heap_get(st, path)
            st.heap[path] = fresh_val(self, ".".join(path), ty)

    # ------------------------------------------------------------------ loops
    def s_For(self, node: ast.For, st: State):
        if node.orelse:
            raise GenerationError("for-else")
        k = self.loop_nodes.get(id(node))
        spec = self.loop_specs.get(k)
        if k is None:
            k, spec = self._spec_by_header(node)
        if spec is not None and spec.abstract:
            self.frame_check(node, loop_fingerprint(node), spec.allow_writes)
            return [("normal", st, None)]
        itv = self.eval(node.iter, st)
        outs = self._flush(st)
        view = iter_view(self, st, itv, self.origin(node.iter))
        if spec is None or spec.unroll:
            if view.concrete is None:
                raise GenerationError(f"{self.c.qualname}: loop #{k} '{loop_fingerprint(node)}' has no invariant")
            return outs + self._unroll(node, view, st)
        return outs + self._cut_loop(node, k, spec, st, view=view)

    def _unroll(self, node, view, st):
        states = [st]
        outs = []
        for i in range(view.concrete):
            nxt = []
            for s in states:
                self.store(node.target, view.elem(IntVal(i)), s)
                for kind, s2, v in self.exec_block(node.body, s):
                    if kind in ("normal", "continue"):
                        nxt.append(s2)
                    elif kind == "break":
                        outs.append(("normal", s2, None))
                    else:
                        outs.append((kind, s2, v))
            states = nxt
        return outs + [("normal", s, None) for s in states]

    def s_While(self, node: ast.While, st: State):
        if node.orelse:
            raise GenerationError("while-else")
        k = self.loop_nodes.get(id(node))
        spec = self.loop_specs.get(k)
        if k is None:
            k, spec = self._spec_by_header(node)
        if spec is None:
            raise GenerationError(f"{self.c.qualname}: loop #{k} '{loop_fingerprint(node)}' has no invariant")
        if spec.abstract:
            self.frame_check(node, loop_fingerprint(node), spec.allow_writes)
            return [("normal", st, None)]
        return self._cut_loop(node, k, spec, st, view=None)

    def _spec_by_header(self, node):
        """a loop that is not one of the function's own (it sits in an inlined helper): the contract's loop
        specification with the same header, if it is not bound to a loop of the function itself"""
        fp = loop_fingerprint(node)
        bound = set(self.loop_specs)
        own = {loop_fingerprint(l) for l in self.func.loops()}
        for kk, sp in self.c.loops.items():
            if sp.fingerprint == fp and fp not in own:
                return f"h{kk}", sp
        # the iterable is a parameter of the helper: same loop variable, and the contract's loop is not one of the
        # function's own any more (it moved into the helper)
        if isinstance(node, ast.For):
            tgt = "for " + ast.unparse(node.target) + " in "
            cands = [(kk, sp) for kk, sp in self.c.loops.items() if sp.fingerprint.startswith(tgt) and sp.fingerprint not in own]
            if len(cands) == 1:
                return f"h{cands[0][0]}", cands[0][1]
        return None, None

    def _modified(self, body, st: State):
        names, paths = set(), set()

        def target(t):
            if isinstance(t, ast.Name):
                names.add(t.id)
            elif isinstance(t, (ast.Tuple, ast.List)):
                for e in t.elts:
                    target(e)
            elif isinstance(t, ast.Starred):
                target(t.value)
            elif isinstance(t, ast.Subscript):
                target(t.value)
            elif isinstance(t, ast.Attribute):
                root = t
                chain = []
                while isinstance(root, ast.Attribute):
                    chain.append(root.attr)
                    root = root.value
                if isinstance(root, ast.Name):
                    base = st.env.get(root.id)
                    if isinstance(base, ObjV):
                        full = base.path + tuple(reversed(chain))
                        # longest declared prefix
                        for n in range(len(full), 0, -1):
                            if full[:n] in self.field_types and not isinstance(self.field_types[full[:n]], TObj):
                                paths.add(full[:n])
                                return
                        return  # undeclared: executing the store raises a generation error unless abstracted
                    names.add(root.id)

        for n in ast.walk(ast.Module(body=list(body), type_ignores=[])):
            if isinstance(n, (ast.FunctionDef, ast.Lambda)):
                continue
            if isinstance(n, ast.Assign):
                for t in n.targets:
                    target(t)
            elif isinstance(n, (ast.AugAssign, ast.AnnAssign)):
                target(n.target)
            elif isinstance(n, ast.For):
                target(n.target)
            elif isinstance(n, ast.With):
                for it in n.items:
                    if it.optional_vars is not None:
                        target(it.optional_vars)
            elif isinstance(n, ast.ExceptHandler) and n.name:
                names.add(n.name)
            elif isinstance(n, ast.Call):
                txt = ast.unparse(n.func)
                how = self.c.calls.get(txt)
                if isinstance(how, tuple):
                    how = how[0]
                if isinstance(how, FrameCall):
                    for p in how.modifies:
                        paths.add(tuple(p.split(".")))
                elif isinstance(how, str) and how.startswith("inline:"):
                    pass
                elif how is not None and how != "inline" and not callable(how) or isinstance(how, Contract):
                    callee = self.registry.get(how) if isinstance(how, str) else how
                    recv_path = None
                    if isinstance(n.func, ast.Attribute) and callee.receiver_cls:
                        rv = self.eval(n.func.value, st.fork())
                        recv_path = rv.path if isinstance(rv, ObjV) else None
                    for p in callee.modifies:
                        for pth, ty in callee.fields.items():
                            self.field_types.setdefault(self._translate(callee, recv_path, pth), ty)
                        paths.add(self._translate(callee, recv_path, p))
                elif how == "inline":
                    fn = st.env.get(txt)
                    if isinstance(fn, FnV) and fn.kind == "nested":
                        nn, pp = self._modified(fn.node.body, st)
                        paths |= pp
                elif callable(how) and hasattr(how, "modifies"):
                    for p in how.modifies:
                        paths.add(tuple(p.split(".")))
                    # ghost variables (contract parameters) the call model itself re-binds
                    names |= set(getattr(how, "modifies_names", ()))
                elif isinstance(n.func, ast.Attribute) and n.func.attr in MUTATORS:
                    target(n.func.value)
        return names, paths

    def _cut_loop(self, node, k: int, spec: LoopSpec, st: State, view: IterV | None):
        c = self.c
        idx_name = spec.index or f"_i{k}"
        is_for = view is not None
        names, paths = self._modified(node.body, st)
        if is_for:
            tnames, _ = self._modified([ast.Assign(targets=[node.target], value=ast.Constant(0))], st)
            names |= tnames
            root = node.iter
            while isinstance(root, (ast.Call,)) and root.args:
                root = root.args[0]
            rtxt = ast.unparse(root)
            if isinstance(root, ast.Name) and rtxt in names:
                raise GenerationError(f"loop #{k} mutates its own iterable {rtxt}")
        tag = f"{c.prop}/{c.short}/loop{k}"
        for g, (gty, ginit, gstep) in spec.ghost.items():
            st.env[g] = coerce(self, self.eval(ast.parse(ginit, mode="eval").body, st, True), gty)
            names.add(g)

        def inv_terms(s: State, idx: Term | None):
            if idx is not None:
                s.env[idx_name] = V(INT, idx)
            return [(name, self.spec_bool(expr, s)) for name, expr in spec.invariants]

        # (1) invariant holds on entry
        entry = st.fork()
        for name, t in inv_terms(entry, IntVal(0) if is_for else None):
            self.oblige(f"{tag}.inv_init.{name}", entry, t, self.func.where(node))
        # (2) arbitrary iteration
        head = st.fork()
        for nme in sorted(names):
            cur = head.env.get(nme)
            ty = c.locals.get(nme) or (cur.ty if cur is not None else None)
            if cur is None and nme not in c.locals:
                continue  # first assigned inside the body; not live at the head
            if isinstance(cur, (ObjV, FnV, ExcV)):
                continue
            if isinstance(ty, (TJson,)) and isinstance(cur, (DictV, ListV)):
                raise GenerationError(f"loop #{k} modifies python-level container {nme}: declare its type")
            head.env[nme] = fresh_val(self, f"{nme}@loop{k}", ty)
        for p in sorted(paths):
            self.heap_get(head, p)
            head.heap[p] = fresh_val(self, ".".join(p) + f"@loop{k}", self.field_types[p])
        idx = self.decls.fresh(f"{idx_name}@loop{k}", smt.INT) if is_for else None
        if is_for:
            head.assume(Le(IntVal(0), idx))
        for name, t in inv_terms(head, idx):
            head.assume(t)
        after_states = []
        outs = []
        # exit path
        exit_st = head.fork()
        if is_for:
            exit_st.assume(Eq(idx, view.n))
        body_st = head.fork()
        variant0 = None
        if is_for:
            body_st.assume(Lt(idx, view.n))
            self.store(node.target, view.elem(idx), body_st)
            outs += self._flush(body_st)
        else:
            cond = truthy(self, self.eval(node.test, body_st))
            outs += self._flush(body_st)
            ecst = head.fork()
            econd = truthy(self, self.eval(node.test, ecst))
            outs += self._flush(ecst)
            exit_st = ecst
            exit_st.assume(Not(econd))
            body_st.assume(cond)
            if spec.variant:
                variant0 = pyops._int(self, self.eval(ast.parse(spec.variant, mode="eval").body, body_st, True))
                self.oblige(f"{tag}.variant_nonneg", body_st, Ge(variant0, IntVal(0)), self.func.where(node))
        body_st.trace.append(f"loop{k} body")
        head_env = {n: v for n, v in head.env.items() if isinstance(v, V)}
        head_heap = {p: v for p, v in head.heap.items() if isinstance(v, V)}
        for kind, s2, v in self.exec_block(node.body, body_st):
            # a name or field the body re-binds without having been made arbitrary at the loop head would keep
            # its pre-loop value in the induction hypothesis: that is a hole in the contract, not a proof
            for n, v0 in head_env.items():
                v1 = s2.env.get(n)
                if isinstance(v1, V) and v1.t.s != v0.t.s and n not in names:
                    raise GenerationError(f"loop #{k} of {c.qualname} changes `{n}` through a call model that does not "
                                          f"declare it (modifies_names)")
            for pth, v0 in head_heap.items():
                v1 = s2.heap.get(pth)
                if isinstance(v1, V) and v1.t.s != v0.t.s and pth not in paths:
                    raise GenerationError(f"loop #{k} of {c.qualname} changes `{'.'.join(pth)}` through a call model that "
                                          f"does not declare it (modifies)")
            if kind in ("normal", "continue"):
                for g, (gty, ginit, gstep) in spec.ghost.items():
                    s2.env[g] = coerce(self, self.eval(ast.parse(gstep, mode="eval").body, s2, True), gty)
                nidx = Add(idx, IntVal(1)) if is_for else None
                for name, t in inv_terms(s2, nidx):
                    self.oblige(f"{tag}.inv_step.{name}", s2, t, self.func.where(node))
                if variant0 is not None:
                    v1 = pyops._int(self, self.eval(ast.parse(spec.variant, mode="eval").body, s2, True))
                    self.oblige(f"{tag}.variant_decreases", s2, Lt(v1, variant0), self.func.where(node))
            elif kind == "break":
                s2.trace.append(f"loop{k} break")
                after_states.append(s2)
            else:
                outs.append((kind, s2, v))
        exit_st.trace.append(f"loop{k} exit")
        after_states.append(exit_st)
        return outs + [("normal", s, None) for s in after_states]
