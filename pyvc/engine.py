"""Symbolic executor (mode F): from the AST of a real function and its sidecar contract to
verification conditions.  See DESIGN 2.2.  One Engine instance verifies one function."""
from __future__ import annotations

import ast
import re

from . import smt
from .smt import And, Or, Not, Implies, Ite, Eq, IntVal, StrVal, BoolVal, Len, Add, Sub, Lt, Le, Ge, Gt, TRUE, FALSE, Term
from .types import *
from .pyops import *
from . import pyops
from .contract import Contract, LoopSpec, Raises, Registry
from .source import Repo, FuncInfo, loop_fingerprint, SourceError

EXC_PARENTS = {
    "BaseException": None, "Exception": "BaseException", "ArithmeticError": "Exception",
    "LookupError": "Exception", "IndexError": "LookupError", "KeyError": "LookupError",
    "ValueError": "Exception", "UnicodeError": "ValueError", "UnicodeDecodeError": "UnicodeError",
    "JSONDecodeError": "ValueError", "TypeError": "Exception", "AttributeError": "Exception",
    "OSError": "Exception", "FileNotFoundError": "OSError", "PermissionError": "OSError", "IOError": "Exception",
    "IsADirectoryError": "OSError", "EOFError": "Exception", "RuntimeError": "Exception",
    "RecursionError": "RuntimeError", "StopIteration": "Exception", "AssertionError": "Exception",
    "NameError": "Exception", "ZeroDivisionError": "ArithmeticError", "re.error": "Exception",
    "JSONRPC2Error": "Exception", "JSONRPC2ProtocolError": "Exception", "URLError": "OSError",
    # pseudo classes used by the model
    "Exception?": "Exception",  # some exception class, unknown which (forks on specific handlers)
    "NonRPCException": "Exception",  # any exception class other than the repository's JSONRPC2Error
    "LookupOrTypeError": "Exception?",
}


def is_subclass(c: str, parent: str):
    """True / False / None (unknown, for the pseudo class 'Exception?')."""
    x = c
    while x is not None:
        if x == parent:
            return True
        if x == "Exception?" and parent not in ("Exception", "BaseException"):
            return None
        x = EXC_PARENTS.get(x)
    return False


TYPE_NAMES = {"dict", "list", "str", "int", "tuple", "set", "bool", "float", "bytes", "object", "type"} | set(EXC_PARENTS)


class State:
    __slots__ = ("pc", "env", "heap", "guards", "pending", "trace")

    def __init__(self):
        self.pc: list[Term] = []
        self.env: dict[str, Val] = {}
        self.heap: dict[tuple, Val] = {}
        self.guards: list[Term] = []
        self.pending: list = []  # [(State, ExcV)] raised while evaluating expressions
        self.trace: list[str] = []

    def fork(self) -> "State":
        s = State()
        s.pc = list(self.pc)
        s.env = dict(self.env)
        s.heap = dict(self.heap)
        s.guards = list(self.guards)
        s.trace = list(self.trace)
        return s

    def assume(self, t: Term):
        if t.s != "true":
            self.pc.append(t)


class Obligation:
    def __init__(self, name: str, pc: list[Term], goal: Term, where: str = "", kind: str = "clause",
                 inputs: dict | None = None, trace=None):
        self.name = name
        self.pc = list(pc)
        self.goal = goal
        self.where = where
        self.kind = kind
        self.inputs = inputs or {}
        self.trace = list(trace or [])
        self.result = None

    def assertions(self) -> list[Term]:
        return self.pc + [Not(self.goal)]


class Engine:
    MAX_PATHS = 4000

    def __init__(self, repo: Repo, registry: Registry, contract: Contract, decls: smt.Decls | None = None,
                 spec_env: dict | None = None, axioms: dict | None = None):
        self.repo = repo
        self.registry = registry
        self.c = contract
        self.decls = decls or smt.Decls()
        self.spec_env = spec_env or {}  # name -> python callable(eng, st, *vals) building terms
        self.axiom_providers = axioms or {}
        self._axioms_done = set()
        self.obligations: list[Obligation] = []
        self.func: FuncInfo = repo.func(contract.qualname)
        self.check_undecorated(self.func)
        self.rebound: list[str] = []
        self._reanchor_locals()
        self.field_types: dict[tuple, Ty] = {}
        self.initial: State | None = None
        self.paths = 0
        self.returns_reached = 0
        self.loop_nodes = {id(n): k for k, n in enumerate(self.func.loops())}
        self.local_names = {n.id for n in ast.walk(self.func.node) if isinstance(n, ast.Name) and isinstance(n.ctx, ast.Store)}
        self._check_loops()
        self.input_terms: dict[str, Term] = {}
        for p, ty in contract.fields.items():
            self.field_types[tuple(p.split("."))] = ty

    def _reanchor_locals(self):
        """The contract names local variables (invariants, locals table, loop headers).  If the function differs from
        the snapshot taken when the contract was written only by a one-to-one renaming of locally bound names, the
        current code is alpha-renamed to the snapshot's names before the conditions are generated."""
        import copy
        import os
        from . import shape
        path = os.path.join(os.path.dirname(os.path.dirname(os.path.abspath(__file__))), "contracts", "snapshots",
                            self.c.qualname.split("#")[0] + ".py")
        if not os.path.exists(path):
            return
        try:
            with open(path) as f:
                snap = ast.parse(f.read()).body[0]
        except (SyntaxError, IndexError):
            return
        res = shape.alpha_rename(snap, self.func.node)
        if res is None:
            return
        node, ren = res
        fi = copy.copy(self.func)
        fi.node = node
        self.func = fi
        self.rebound.append("local names re-anchored to the contract's: " + ", ".join(f"{a} -> {b}" for a, b in sorted(ren.items())))

    # ------------------------------------------------------------------ utilities
    ALLOWED_DECORATORS = {"staticmethod", "classmethod"}

    def check_undecorated(self, fi: FuncInfo):
        """The verified text is the function body: a decorator (cache, wrapper, ...) would make the code that
        runs differ from it, so a decorated function no longer binds to its contract."""
        decs = [ast.unparse(d) for d in fi.node.decorator_list]
        bad = [d for d in decs if d not in self.ALLOWED_DECORATORS]
        if bad:
            raise SourceError(f"{fi.qualname} is now decorated with {bad}: the contract was written for the bare "
                              f"function body")

    def _check_loops(self):
        loops = self.func.loops()
        fps = [loop_fingerprint(l) for l in loops]
        self.loop_specs = {}
        for k, spec in self.c.loops.items():
            if (k >= len(loops) or fps[k] != spec.fingerprint) and fps.count(spec.fingerprint) == 1:
                # loops were added or removed before this one: the header is unchanged, bind by header
                j = fps.index(spec.fingerprint)
                self.loop_specs[j] = spec
                self.rebound.append(f"loop #{k} '{spec.fingerprint}' is now loop #{j}")
                continue
            if k < len(loops):
                self.loop_specs[k] = spec
            if k >= len(loops):
                # the loop is gone: its invariants bind to nothing; the function is verified without them (a missing
                # invariant can only make obligations fail, never prove them)
                self.rebound.append(f"loop #{k} ('{spec.fingerprint}') no longer exists; its invariants were dropped")
                continue
            fp = loop_fingerprint(loops[k])
            if fp != spec.fingerprint:
                # the header changed: keep the invariant bound by ordinal and let the obligations decide
                # (a harmless rewrite still verifies; a wrong binding can only fail, never prove)
                self.rebound.append(f"loop #{k} is now '{fp}', contract was written for '{spec.fingerprint}'")

    def ensure_axioms(self, key: str):
        if key in self._axioms_done:
            return
        self._axioms_done.add(key)
        prov = self.axiom_providers.get(key)
        if prov:
            prov(self)

    def origin(self, node) -> str:
        try:
            txt = ast.unparse(node)
        except Exception:
            txt = "?"
        return txt if len(txt) <= 70 else txt[:67] + "..."

    def may_raise(self, st: State, ok: Term, cls: str, origin: str, fields: dict | None = None):
        """The current operation raises `cls` unless `ok`.  Records the exceptional path and
        continues on the normal one."""
        if ok.s == "true":
            return
        bad = st.fork()
        bad.guards = []
        bad.pc = st.pc + st.guards + [Not(ok)]
        st.pending.append((bad, ExcV(cls, fields or {}, origin)))
        st.assume(Implies(And(*st.guards), ok) if st.guards else ok)

    def oblige(self, name: str, st: State, goal: Term, where: str = "", kind: str = "clause"):
        if goal.s == "true":
            # still counted: trivially discharged obligations are reported as such
            pass
        self.obligations.append(Obligation(name, st.pc + st.guards, goal, where, kind, self.input_terms, st.trace))

    # ------------------------------------------------------------------ heap
    def heap_get(self, st: State, path: tuple) -> Val:
        if path in st.heap:
            return st.heap[path]
        ty = self.field_types.get(path)
        if ty is None:
            raise GenerationError(f"undeclared field {'.'.join(path)} in contract of {self.c.qualname}")
        if isinstance(ty, TObj):
            v = ObjV(ty.cls, path)
        else:
            name = ".".join(path)
            v = self._declare_input(name, ty)
        # a field first read now has the same value in the initial state
        st.heap[path] = v
        if self.initial is not None and path not in self.initial.heap:
            self.initial.heap[path] = v
        return v

    def _declare_input(self, name: str, ty: Ty) -> Val:
        if isinstance(ty, TNone):
            return NoneV()
        if isinstance(ty, TTup):
            return TupV([self._declare_input(f"{name}.{i}", t) for i, t in enumerate(ty.items)])
        t = self.decls.const(name, sort_of(ty, self.decls))
        self.input_terms[name] = t
        return V(ty, t)

    def heap_set(self, st: State, path: tuple, v: Val):
        ty = self.field_types.get(path)
        if ty is None:
            # a field of the receiver the contract does not mention and the function has not read: writing it cannot
            # change any value the contract speaks about (attributes are distinct locations); a later read still fails
            if len(path) == 2 and path[0] == "self" and not any(p[:2] == path for p in self.field_types) and path not in st.heap:
                self.rebound.append(f"write to the unmodelled field {'.'.join(path)} ignored")
                return
            raise GenerationError(f"write to undeclared field {'.'.join(path)} in {self.c.qualname}")
        if isinstance(ty, TObj):
            if isinstance(v, ObjV) and v.path == path:
                return
            raise GenerationError(f"re-binding object field {'.'.join(path)}")
        self.heap_get(st, path)  # make sure the initial value exists for old()
        st.heap[path] = self.name_value(st, ".".join(path), coerce(self, v, ty))

    def name_value(self, st: State, hint: str, v: Val) -> Val:
        """Bind a compound term to a fresh constant so that queries stay small."""
        if isinstance(v, V) and len(v.t.s) > 40:
            c = self.decls.fresh(hint, v.t.sort)
            st.assume(Eq(c, v.t))
            return V(v.ty, c)
        return v

    # ------------------------------------------------------------------ expressions
    def eval(self, node: ast.AST, st: State, spec: bool = False) -> Val:
        m = getattr(self, "e_" + type(node).__name__, None)
        if m is None:
            raise GenerationError(f"expression {type(node).__name__}: {self.origin(node)}")
        return m(node, st, spec)

    def e_Constant(self, node, st, spec):
        return const_val(self, node.value)

    def e_Name(self, node, st, spec):
        if node.id in st.env:
            return st.env[node.id]
        if node.id in ("True", "False"):
            return V(BOOL, BoolVal(node.id == "True"))
        if spec and node.id in self.spec_env:
            return FnV("spec", fn=self.spec_env[node.id], name=node.id)
        if node.id in self.c.calls or node.id in BUILTINS:
            return FnV("named", name=node.id)
        if node.id in TYPE_NAMES:
            return FnV("type", name=node.id)
        consts = self.c.ghost.get("constants", {})
        if node.id in consts:
            return const_val(self, consts[node.id])
        if node.id in self.local_names:
            self.may_raise(st, FALSE, "UnboundLocalError", node.id)
            return NoneV()
        sib = self._sibling_function(node.id)
        if sib is not None:
            # a helper defined next to the function under contract inside the same enclosing function, that uses
            # nothing but its parameters: calls are inlined (a block moved into a local function keeps the proof)
            v = FnV("sibling", node=sib)
            st.env[node.id] = v
            return v
        raise GenerationError(f"unbound name {node.id} in {self.c.qualname}")

    def _sibling_function(self, name: str):
        if name in self.c.calls:
            return None
        if not self.c.nested_in:
            # a helper function of the same module that is not under contract and not modelled
            from .source import _defs_in
            modname = self.func.mod.name
            if f"{modname}.{name}" in getattr(self.registry, "contracts", {}):
                return None
            for d in self.func.mod.tree.body:
                if isinstance(d, ast.FunctionDef) and d.name == name and not d.decorator_list and d is not self.func.node:
                    return d
            return None
        try:
            outer = self.repo.func(self.c.nested_in)
        except Exception:
            return None
        from .source import _defs_in
        for d in _defs_in(outer.node):
            if isinstance(d, ast.FunctionDef) and d.name == name and d is not self.func.node:
                params = {a.arg for a in d.args.args}
                bound = params | {n.id for n in ast.walk(d) if isinstance(n, ast.Name) and isinstance(n.ctx, ast.Store)}
                free = {n.id for n in ast.walk(d) if isinstance(n, ast.Name) and isinstance(n.ctx, ast.Load)} - bound
                import builtins
                if all(hasattr(builtins, f) for f in free):
                    return d
        return None

    def e_Attribute(self, node, st, spec):
        txt = self.origin(node)
        consts = self.c.ghost.get("constants", {})
        if txt in consts:
            return const_val(self, consts[txt])
        base = self.eval(node.value, st, spec)
        if isinstance(base, TupV):
            # a named tuple: field positions are declared by the contract (ghost["tuple_fields"])
            pos = self.c.ghost.get("tuple_fields", {}).get(node.attr)
            if pos is not None and pos < len(base.items):
                return base.items[pos]
        if isinstance(base, ObjV):
            if base.present is not None:
                self.may_raise(st, base.present, "AttributeError", txt)
            if (base.path + (node.attr,)) not in self.field_types and not spec:
                return FnV("method", recv=base, name=node.attr, node=node.value)
            return self.heap_get(st, base.path + (node.attr,))
        if isinstance(base, ExcV):
            if node.attr in base.fields:
                return base.fields[node.attr]
            raise GenerationError(f"exception field {node.attr}")
        if isinstance(base, NoneV):
            self.may_raise(st, FALSE, "AttributeError", txt)
            return NoneV()
        if isinstance(base, V) and isinstance(base.ty, TOpt) and isinstance(base.ty.inner, TRef):
            self.may_raise(st, self.decls.is_some(base.t), "AttributeError", txt)
            base = V(base.ty.inner, self.decls.opt_val(base.t))
        if isinstance(base, V) and isinstance(base.ty, TRef):
            c = self.spec_contract or self.c
            fty = c.ref_fields.get((base.ty.cls, node.attr)) or self.c.ref_fields.get((base.ty.cls, node.attr))
            if fty is not None:
                f = self.decls.fun(f"{base.ty.cls}.{node.attr}", [base.t.sort], sort_of(fty, self.decls))
                return wrap(self, fty, f(base.t))
            if (base.ty.cls, node.attr) not in self.c.ref_methods and not any(k.endswith("." + node.attr) for k in self.c.calls):
                raise GenerationError(f"field {base.ty.cls}.{node.attr} is not declared in the contract's ref_fields")
        return FnV("method", recv=base, name=node.attr, node=node.value)

    def e_Subscript(self, node, st, spec):
        base = self.eval(node.value, st, spec)
        if isinstance(node.slice, ast.Slice):
            if node.slice.step is not None:
                raise GenerationError("slice step")
            lo = self.eval(node.slice.lower, st, spec) if node.slice.lower else None
            hi = self.eval(node.slice.upper, st, spec) if node.slice.upper else None
            return py_slice(self, base, lo, hi)
        idx = self.eval(node.slice, st, spec)
        return py_index(self, st, base, idx, self.origin(node))

    def e_BinOp(self, node, st, spec):
        a = self.eval(node.left, st, spec)
        b = self.eval(node.right, st, spec)
        op = type(node.op).__name__
        if not spec:
            # arithmetic on None raises TypeError
            from .builtins_ import unwrap_opt
            if isinstance(a, V) and isinstance(a.ty, TOpt) and isinstance(a.ty.inner, TInt):
                a = unwrap_opt(self, st, a, self.origin(node))
            if isinstance(b, V) and isinstance(b.ty, TOpt) and isinstance(b.ty.inner, TInt):
                b = unwrap_opt(self, st, b, self.origin(node))
        if op == "Add":
            return py_add(self, a, b)
        return py_arith(self, op, a, b)

    def e_UnaryOp(self, node, st, spec):
        v = self.eval(node.operand, st, spec)
        if isinstance(node.op, ast.Not):
            return V(BOOL, Not(truthy(self, v)))
        if isinstance(node.op, ast.USub):
            return V(INT, smt.Neg(pyops._int(self, v)))
        raise GenerationError("unary op")

    def e_BoolOp(self, node, st, spec):
        # value-returning and/or; only boolean contexts and same-typed operands are supported
        vals = []
        conds = []
        depth = len(st.guards)
        is_and = isinstance(node.op, ast.And)
        for i, sub in enumerate(node.values):
            v = self.eval(sub, st, spec)
            vals.append(v)
            t = truthy(self, v)
            conds.append(t)
            if i < len(node.values) - 1:
                st.guards.append(t if is_and else Not(t))
        del st.guards[depth:]
        if all(isinstance(v, V) and isinstance(v.ty, TBool) for v in vals):
            return V(BOOL, And(*conds) if is_and else Or(*conds))
        # general: result is first falsy (and) / truthy (or) operand, else last
        res = vals[-1]
        for v, c in zip(reversed(vals[:-1]), reversed(conds[:-1])):
            res = self.merge_vals(c if not is_and else Not(c), v, res)
        if isinstance(res, V) and isinstance(res.ty, TJson):
            # operands of different types were merged into a JSON value: keep what Python guarantees about it,
            # bool(a and b) == bool(a) and bool(b), bool(a or b) == bool(a) or bool(b)
            st.assume(Eq(truthy(self, res), And(*conds) if is_and else Or(*conds)))
        return res

    def merge_vals(self, cond: Term, a: Val, b: Val) -> Val:
        if isinstance(a, V) and isinstance(b, V) and a.ty == b.ty:
            return V(a.ty, Ite(cond, a.t, b.t))
        if isinstance(a, NoneV) and isinstance(b, NoneV):
            return a
        for x, y in ((a, b), (b, a)):
            if isinstance(x, V) and isinstance(x.ty, TOpt):
                yy = coerce(self, y, x.ty)
                aa, bb = (x, yy) if x is a else (yy, x)
                return V(x.ty, Ite(cond, aa.t, bb.t))
        if isinstance(a, NoneV) and isinstance(b, V):
            ty = TOpt(b.ty)
            return V(ty, Ite(cond, coerce(self, a, ty).t, coerce(self, b, ty).t))
        if isinstance(b, NoneV) and isinstance(a, V):
            ty = TOpt(a.ty)
            return V(ty, Ite(cond, coerce(self, a, ty).t, coerce(self, b, ty).t))
        if isinstance(a, V) and isinstance(b, V):
            ja, jb = to_json(self, a), to_json(self, b)
            return V(JSON, Ite(cond, ja.t, jb.t))
        raise GenerationError(f"cannot merge {a} / {b}")

    def e_Compare(self, node, st, spec):
        left = self.eval(node.left, st, spec)
        terms = []
        for op, comp in zip(node.ops, node.comparators):
            right = self.eval(comp, st, spec)
            if not spec and type(op).__name__ in ("Lt", "LtE", "Gt", "GtE"):
                # ordering None against a number raises TypeError in Python 3
                from .builtins_ import unwrap_opt
                left = unwrap_opt(self, st, left, self.origin(node))
                right = unwrap_opt(self, st, right, self.origin(node))
            terms.append(py_compare(self, type(op).__name__, left, right))
            left = right
        return V(BOOL, And(*terms))

    def e_IfExp(self, node, st, spec):
        c = truthy(self, self.eval(node.test, st, spec))
        st.guards.append(c)
        a = self.eval(node.body, st, spec)
        st.guards[-1] = Not(c)
        b = self.eval(node.orelse, st, spec)
        st.guards.pop()
        return self.merge_vals(c, a, b)

    def e_Tuple(self, node, st, spec):
        return TupV([self.eval(e, st, spec) for e in node.elts])

    def e_List(self, node, st, spec):
        items = [self.eval(e, st, spec) for e in node.elts]
        return ListV(items)

    def e_Dict(self, node, st, spec):
        items = {}
        for k, v in zip(node.keys, node.values):
            if k is None:
                inner = self.eval(v, st, spec)
                if not isinstance(inner, DictV):
                    raise GenerationError("dict ** merge of a non-literal dict")
                items.update(inner.items)
                continue
            kv = self.eval(k, st, spec)
            ks = pyops._const_str(kv)
            if ks is None:
                raise GenerationError("dict literal with non-constant key")
            items[ks] = self.eval(v, st, spec)
        return DictV(items)

    def e_JoinedStr(self, node, st, spec):
        t = StrVal("")
        for part in node.values:
            if isinstance(part, ast.Constant):
                t = smt.Concat(t, StrVal(part.value))
            else:
                if part.format_spec is not None or part.conversion not in (-1, 115):
                    raise GenerationError("f-string format spec")
                t = smt.Concat(t, py_str(self, self.eval(part.value, st, spec)).t)
        return V(STR, t)

    def _comp(self, node, st, spec, build):
        if len(node.generators) != 1 or node.generators[0].ifs:
            return self._opaque_comp(node, st, spec)
        gen = node.generators[0]
        it_val = self.eval(gen.iter, st, spec)
        view = iter_view(self, st, it_val, self.origin(gen.iter))
        if view.concrete is None:
            m = self._map_comp(node, gen, it_val, st) if isinstance(node, (ast.ListComp, ast.GeneratorExp)) else None
            return m if m is not None else self._opaque_comp(node, st, spec)
        saved = dict(st.env)
        out = []
        for i in range(view.concrete):
            self.store(gen.target, view.elem(IntVal(i)), st)
            out.append(build(st))
        st.env = saved
        return out

    def _map_comp(self, node, gen, S, st):
        """[f(x) for x in S] over a symbolic sequence, f mentioning only x: `map_<f>(S)`, an uninterpreted function of S
        with len(map(S)) == len(S).  Specifications name the same function (spec helper `map_term`)."""
        if not (isinstance(S, V) and isinstance(S.ty, TSeq) and isinstance(gen.target, ast.Name)):
            return None
        free = {n.id for n in ast.walk(node.elt) if isinstance(n, ast.Name)}
        if free - {gen.target.id}:
            return None
        return self.map_term(ast.unparse(node.elt), gen.target.id, S, st)

    def map_term(self, elt_src: str, var: str, S, st):
        d = self.decls
        x = smt.BoundVar("q_mapelt", sort_of(S.ty.elem, d))
        saved = dict(st.env)
        st.env[var] = wrap(self, S.ty.elem, x)
        try:
            v = self.eval(ast.parse(elt_src, mode="eval").body, st, True)
        finally:
            st.env = saved
        if not isinstance(v, V):
            return None
        f = d.fun("map_" + smt.mangle(re.sub(r"\b%s\b" % re.escape(var), "_", elt_src)), [S.t.sort], smt.SeqS(v.t.sort))
        res = f(S.t)
        st.assume(Eq(Len(res), Len(S.t)))
        return V(TSeq(v.ty), res)

    def _opaque_comp(self, node, st, spec):
        """A comprehension the property does not depend on: an unconstrained JSON-like value."""
        return V(JSON, self.decls.fresh("comp", sort_of(JSON, self.decls)))

    def e_ListComp(self, node, st, spec):
        r = self._comp(node, st, spec, lambda s: self.eval(node.elt, s, spec))
        return ListV(r) if isinstance(r, list) else r

    def e_GeneratorExp(self, node, st, spec):
        return self.e_ListComp(node, st, spec)

    def e_DictComp(self, node, st, spec):
        return self._opaque_comp(node, st, spec)

    def e_SetComp(self, node, st, spec):
        """{x for x in S if cond(x)} over a set S: the subset of S satisfying cond."""
        if len(node.generators) == 1 and isinstance(node.generators[0].target, ast.Name) \
                and isinstance(node.elt, ast.Name) and node.elt.id == node.generators[0].target.id:
            gen = node.generators[0]
            S = self.eval(gen.iter, st, spec)
            if isinstance(S, V) and isinstance(S.ty, TSet):
                d = self.decls
                es = sort_of(S.ty.elem, d)
                x = smt.BoundVar("q_sc", es)
                saved = st.env.get(gen.target.id)
                st.env[gen.target.id] = V(S.ty.elem, x)
                conds = [truthy(self, self.eval(c, st, True)) for c in gen.ifs]
                if saved is None:
                    st.env.pop(gen.target.id, None)
                else:
                    st.env[gen.target.id] = saved
                res = d.fresh("setcomp", S.t.sort)
                st.assume(smt.Forall([x], Eq(smt.Select(res, x), And(smt.Select(S.t, x), *conds))))
                return V(S.ty, res)
        return self._opaque_comp(node, st, spec)

    def quantified_any_all(self, node: ast.Call, st, spec):
        """any/all over a generator expression ranging over a set or a sequence: a quantified formula."""
        gen_exp = node.args[0]
        gen = gen_exp.generators[0]
        S = self.eval(gen.iter, st, spec)
        d = self.decls
        is_any = node.func.id == "any"
        if isinstance(S, V) and isinstance(S.ty, TSet) and isinstance(gen.target, ast.Name):
            x = smt.BoundVar("q_" + gen.target.id, sort_of(S.ty.elem, d))
            saved = st.env.get(gen.target.id)
            st.env[gen.target.id] = V(S.ty.elem, x)
            body = And(*[truthy(self, self.eval(c, st, True)) for c in gen.ifs],
                       truthy(self, self.eval(gen_exp.elt, st, True))) if is_any else \
                Implies(And(*[truthy(self, self.eval(c, st, True)) for c in gen.ifs]),
                        truthy(self, self.eval(gen_exp.elt, st, True)))
            if saved is None:
                st.env.pop(gen.target.id, None)
            else:
                st.env[gen.target.id] = saved
            if is_any:
                return V(BOOL, smt.Exists([x], And(smt.Select(S.t, x), body)))
            return V(BOOL, smt.Forall([x], Implies(smt.Select(S.t, x), body)))
        return None

    def e_Lambda(self, node, st, spec):
        return FnV("lambda", node=node, env=dict(st.env))

    def e_Call(self, node, st, spec):
        return self.call(node, st, spec)

    # ------------------------------------------------------------------ calls
    def call(self, node: ast.Call, st: State, spec: bool) -> Val:
        txt = ast.unparse(node.func)
        if node.keywords and any(k.arg is None for k in node.keywords):
            raise GenerationError("**kwargs call")
        # spec-only special forms
        if spec and isinstance(node.func, ast.Name):
            if node.func.id == "old":
                return self.eval(node.args[0], self._old_state(st), True)
            if node.func.id in ("forall", "exists"):
                return self._quant(node, st)
            if node.func.id == "implies":
                a = truthy(self, self.eval(node.args[0], st, True))
                st.guards.append(a)
                b = truthy(self, self.eval(node.args[1], st, True))
                st.guards.pop()
                return V(BOOL, Implies(a, b))
            if node.func.id == "ite":
                c = truthy(self, self.eval(node.args[0], st, True))
                return self.merge_vals(c, self.eval(node.args[1], st, True), self.eval(node.args[2], st, True))
        if txt.startswith("log.") and not spec:
            # logging: never raises, no effect visible to any contract (DESIGN 2.3); arguments are not
            # evaluated because formatting is lazy in the logging module
            return NoneV()
        if isinstance(node.func, ast.Name) and node.func.id in ("any", "all") and len(node.args) == 1 \
                and isinstance(node.args[0], ast.GeneratorExp) and len(node.args[0].generators) == 1:
            q = self.quantified_any_all(node, st, spec)
            if q is not None:
                return q
        how = self.c.calls.get(txt)
        if how is not None and not spec:
            args = [self.eval(a, st, spec) for a in node.args]
            kwargs = {k.arg: self.eval(k.value, st, spec) for k in node.keywords}
            return self.call_contracted(how, txt, node, st, args, kwargs)
        fn = self.eval(node.func, st, spec)
        args = [self.eval(a, st, spec) for a in node.args]
        kwargs = {k.arg: self.eval(k.value, st, spec) for k in node.keywords}
        if isinstance(fn, FnV):
            if fn.kind == "spec":
                args = [pyops.listv_to_seq(self, a) if isinstance(a, ListV) and a.items else a for a in args]
                return fn.fn(self, st, *args, **kwargs)
            if fn.kind == "named":
                if fn.name in BUILTINS:
                    return BUILTINS[fn.name](self, st, node, args, kwargs)
            if fn.kind == "method":
                return self.call_method(fn, node, st, args, kwargs)
            if fn.kind == "lambda":
                return self.call_lambda(fn, st, args)
        raise GenerationError(f"call of {txt} in {self.c.qualname} (no contract, not a modelled builtin)")

    def call_lambda(self, fn: FnV, st: State, args):
        saved = st.env
        st.env = dict(fn.env)
        for a, v in zip(fn.node.args.args, args):
            st.env[a.arg] = v
        try:
            return self.eval(fn.node.body, st, False)
        finally:
            st.env = saved

    def call_method(self, fn: FnV, node, st, args, kwargs):
        recv = fn.recv
        origin = self.origin(node)
        d = self.decls
        if isinstance(recv, V) and isinstance(recv.ty, TOpt):
            self.may_raise(st, d.is_some(recv.t), "AttributeError", origin)
            recv = wrap(self, recv.ty.inner, d.opt_val(recv.t))
        if isinstance(recv, V):
            if isinstance(recv.ty, TStr):
                return str_method(self, st, recv, fn.name, args, origin)
            if isinstance(recv.ty, TSeq):
                res, new = seq_method(self, st, recv, fn.name, args, origin)
                if new is not None:
                    self.store(fn.node, new, st)
                return res
            if isinstance(recv.ty, TMap):
                res, new = map_method(self, st, recv, fn.name, args, origin)
                if new is not None:
                    self.store(fn.node, new, st)
                return res
            if isinstance(recv.ty, TRec):
                res, new = rec_method(self, st, recv, fn.name, args, origin)
                return res
            if isinstance(recv.ty, TJson):
                return json_method(self, st, recv, fn.name, args, origin)
            if isinstance(recv.ty, TSet):
                res, new = set_method(self, st, recv, fn.name, args, origin)
                if new is not None:
                    self.store(fn.node, new, st)
                return res
        if isinstance(recv, V) and isinstance(recv.ty, TRef):
            sig = self.c.ref_methods.get((recv.ty.cls, fn.name))
            if sig is not None:
                arg_tys, ret = sig
                cargs = [coerce(self, a, t) for a, t in zip(args, arg_tys)]
                f = self.decls.fun(f"{recv.ty.cls}.{fn.name}()", [recv.t.sort] + [sort_of(t, self.decls) for t in arg_tys],
                                   sort_of(ret, self.decls))
                return wrap(self, ret, f(recv.t, *[a.t for a in cargs]))
        if isinstance(recv, DictV) and fn.name == "get":
            k = pyops._const_str(args[0])
            dflt = args[1] if len(args) > 1 else NoneV()
            if k is not None:
                return recv.items.get(k, dflt)
            # symbolic key over a constant table: result is a symbolic choice (used by `handle`)
            return FnV("table", table=recv, key=args[0], default=dflt)
        raise GenerationError(f"method {fn.name} on {recv} at {origin}")

    # assigning back to the expression a mutating method was called on
    def store(self, target: ast.AST, v: Val, st: State):
        if isinstance(target, ast.Name):
            ty = self.c.locals.get(target.id)
            if ty is not None:
                v = coerce(self, v, ty)
            st.env[target.id] = self.name_value(st, target.id, v)
            return
        if isinstance(target, ast.Attribute):
            base = self.eval(target.value, st)
            if isinstance(base, ObjV):
                self.heap_set(st, base.path + (target.attr,), v)
                return
            raise GenerationError(f"attribute store on {base}")
        if isinstance(target, ast.Subscript):
            base = self.eval(target.value, st)
            if isinstance(target.slice, ast.Slice):
                raise GenerationError("slice assignment")
            idx = self.eval(target.slice, st)
            origin = self.origin(target)
            if isinstance(base, V) and isinstance(base.ty, TSeq):
                n = Len(base.t)
                i = pyops.norm_index(pyops._int(self, idx), n)
                self.may_raise(st, And(Le(IntVal(0), i), Lt(i, n)), "IndexError", origin)
                it = coerce(self, v, base.ty.elem)
                new = smt.Concat(smt.Concat(smt.Extract(base.t, IntVal(0), i), smt.Unit(it.t)),
                                 smt.Extract(base.t, Add(i, IntVal(1)), n))
                self.store(target.value, V(base.ty, new), st)
                return
            if isinstance(base, V) and isinstance(base.ty, TMap):
                k = coerce(self, idx, base.ty.key)
                it = coerce(self, v, base.ty.val)
                self.store(target.value, V(base.ty, smt.Store(base.t, k.t, self.decls.some(it.t))), st)
                return
            if isinstance(base, DictV):
                k = pyops._const_str(idx)
                if k is None:
                    raise GenerationError("dict literal store with symbolic key")
                items = dict(base.items)
                items[k] = v
                self.store(target.value, DictV(items), st)
                return
            raise GenerationError(f"subscript store on {base}")
        if isinstance(target, (ast.Tuple, ast.List)):
            if isinstance(v, TupV) and len(v.items) == len(target.elts):
                for t, x in zip(target.elts, v.items):
                    self.store(t, x, st)
                return
            if isinstance(v, V) and isinstance(v.ty, TSeq):
                self.may_raise(st, Eq(Len(v.t), IntVal(len(target.elts))), "ValueError", self.origin(target))
                for k, t in enumerate(target.elts):
                    self.store(t, wrap(self, v.ty.elem, smt.At(v.t, IntVal(k))), st)
                return
            if isinstance(v, V) and isinstance(v.ty, TTup):
                for k, t in enumerate(target.elts):
                    self.store(t, wrap(self, v.ty.items[k], self.decls.field(v.t, f"f{k}")), st)
                return
            raise GenerationError(f"unpacking {v}")
        raise GenerationError(f"store target {type(target).__name__}")

    # ------------------------------------------------------------------ spec helpers
    def _old_state(self, st: State) -> State:
        old = getattr(st, "_old", None) if False else None
        return self._old_override or self.initial

    _old_override = None

    def _quant(self, node: ast.Call, st: State) -> Val:
        # forall(i, lo, hi, body)  /  exists(i, lo, hi, body)
        name = node.args[0].id
        lo = pyops._int(self, self.eval(node.args[1], st, True))
        hi = pyops._int(self, self.eval(node.args[2], st, True))
        bv = smt.BoundVar("q_" + name, smt.INT)
        saved = st.env.get(name)
        st.env[name] = V(INT, bv)
        sub = st.fork()
        sub.env = st.env
        body = truthy(self, self.eval(node.args[3], sub, True))
        side = [p for p in sub.pc[len(st.pc):]]
        if saved is None:
            del st.env[name]
        else:
            st.env[name] = saved
        rng = And(Le(lo, bv), Lt(bv, hi))
        if node.func.id == "forall":
            return V(BOOL, smt.Forall([bv], Implies(rng, And(*side, body))))
        return V(BOOL, smt.Exists([bv], And(rng, *side, body)))

    def spec_bool(self, expr: str, st: State) -> Term:
        node = ast.parse(expr, mode="eval").body
        sub = st.fork()
        before = len(sub.pc)
        v = self.eval(node, sub, True)
        # partial operations inside specs: the spec must be well-defined; side conditions are conjoined
        side = sub.pc[before:]
        st.heap.update({k: v2 for k, v2 in sub.heap.items() if k not in st.heap})
        return And(*side, truthy(self, v))


from .builtins_ import BUILTINS, json_method, set_method, iter_view  # noqa: E402
