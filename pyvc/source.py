"""Front end: the real source of /repo, re-read on every run.

Nothing is cached on disk.  A function is addressed by qualified name, e.g.
``fortls.parsers.internal.parser.FortranFile.apply_change``; nested functions by path
``fortls.langserver.LangServer.serve_autocomplete.get_candidates``.
"""
from __future__ import annotations

import ast
import hashlib
import os

REPO = os.environ.get("PYVC_REPO", "/repo")


class SourceError(Exception):
    """The contract no longer binds to the code (function / loop vanished or renamed)."""


_SNAPSHOTS = None


def snapshots() -> dict:
    """{qualified name of an outermost function: its text when the contracts were last anchored}"""
    global _SNAPSHOTS
    if _SNAPSHOTS is None:
        import json
        path = os.path.join(os.path.dirname(os.path.dirname(os.path.abspath(__file__))), "contracts", "snapshots.json")
        try:
            with open(path) as f:
                _SNAPSHOTS = json.load(f)
        except (OSError, ValueError):
            _SNAPSHOTS = {}
    return _SNAPSHOTS


class Module:
    def __init__(self, name: str, path: str):
        self.name = name
        self.path = path
        with open(path, encoding="utf-8") as f:
            self.text = f.read()
        self.tree = ast.parse(self.text, filename=path)
        self.lines = self.text.split("\n")
        self.reanchored: dict[str, dict] = {}
        self._reanchor()

    def _reanchor(self):
        """Contracts, invariants and shape obligations name local variables.  A function that differs from the text the
        contracts were anchored on only by a one-to-one renaming of locally bound names is alpha-renamed back to those
        names (positions kept).  Alpha-renaming preserves meaning; anything else leaves the function as it is."""
        snaps = snapshots()
        if not snaps:
            return
        from . import shape

        def visit(node, prefix):
            for i, ch in enumerate(getattr(node, "body", [])):
                if isinstance(ch, (ast.FunctionDef, ast.AsyncFunctionDef)):
                    q = prefix + "." + ch.name
                    old = snaps.get(q)
                    if old is None:
                        continue
                    try:
                        snap = ast.parse(old).body[0]
                    except (SyntaxError, IndexError):
                        continue
                    if ast.dump(snap) == ast.dump(ch):
                        continue
                    res = shape.alpha_rename(snap, ch)
                    if res is None:
                        # an accumulation loop written out where the snapshot has the list comprehension
                        ch2, n_loops = shape.canon_append_loops(ch)
                        if n_loops:
                            if ast.dump(snap) == ast.dump(ch2):
                                res = (ch2, {"<append loops as comprehensions>": str(n_loops)})
                            else:
                                res = shape.alpha_rename(snap, ch2)
                                if res is not None:
                                    res[1]["<append loops as comprehensions>"] = str(n_loops)
                    if res is not None:
                        node.body[i] = res[0]
                        self.reanchored[q] = res[1]
                elif isinstance(ch, ast.ClassDef):
                    visit(ch, prefix + "." + ch.name)
        visit(self.tree, self.name)


class Repo:
    def __init__(self, root: str | None = None, package: str = "fortls"):
        self.root = root or REPO
        self.package = package
        self.modules: dict[str, Module] = {}
        pkg_dir = os.path.join(self.root, package)
        for dirpath, dirnames, filenames in os.walk(pkg_dir):
            dirnames[:] = [d for d in dirnames if d != "__pycache__"]
            for fn in sorted(filenames):
                if not fn.endswith(".py"):
                    continue
                full = os.path.join(dirpath, fn)
                rel = os.path.relpath(full, self.root)[:-3].replace(os.sep, ".")
                if rel.endswith(".__init__"):
                    rel = rel[: -len(".__init__")]
                self.modules[rel] = Module(rel, full)

    # ------------------------------------------------------------------ lookup
    def find(self, qualname: str) -> tuple[Module, ast.AST, list[ast.AST]]:
        """Return (module, node, chain of enclosing defs) for a qualified name."""
        best = None
        for mname in self.modules:
            if qualname == mname or qualname.startswith(mname + "."):
                if best is None or len(mname) > len(best):
                    best = mname
        if best is None:
            raise SourceError(f"no module for {qualname}")
        mod = self.modules[best]
        rest = qualname[len(best):].lstrip(".")
        node: ast.AST = mod.tree
        chain: list[ast.AST] = []
        if rest:
            for part in rest.split("."):
                found = None
                for child in _defs_in(node):
                    if child.name == part:
                        found = child
                if found is None:
                    raise SourceError(f"{qualname}: '{part}' not found in {best}")
                chain.append(found)
                node = found
        return mod, node, chain

    def func(self, qualname: str) -> "FuncInfo":
        mod, node, chain = self.find(qualname)
        if not isinstance(node, (ast.FunctionDef, ast.AsyncFunctionDef)):
            raise SourceError(f"{qualname} is not a function")
        cls = None
        for c in chain[:-1]:
            if isinstance(c, ast.ClassDef):
                cls = c
        return FuncInfo(qualname, mod, node, cls, chain)

    def all_functions(self):
        """Yield (qualname, FuncInfo) for every function, method and nested function."""
        for mname, mod in self.modules.items():
            yield from self._walk_defs(mname, mod, mod.tree, None, [])

    def _walk_defs(self, prefix, mod, node, cls, chain):
        for child in _defs_in(node):
            q = prefix + "." + child.name
            ch = chain + [child]
            if isinstance(child, ast.ClassDef):
                yield from self._walk_defs(q, mod, child, child, ch)
            else:
                yield q, FuncInfo(q, mod, child, cls, ch)
                yield from self._walk_defs(q, mod, child, cls, ch)

    def classes(self):
        for mname, mod in self.modules.items():
            for node in mod.tree.body:
                if isinstance(node, ast.ClassDef):
                    yield mname + "." + node.name, mod, node


def _defs_in(node):
    """Definitions directly inside node (descending through if/try/with/for, not into defs)."""
    out = []
    stack = list(getattr(node, "body", []))
    for fld in ("orelse", "finalbody", "handlers"):
        stack += list(getattr(node, fld, []) or [])
    while stack:
        n = stack.pop(0)
        if isinstance(n, (ast.FunctionDef, ast.AsyncFunctionDef, ast.ClassDef)):
            out.append(n)
            continue
        for fld in ("body", "orelse", "finalbody", "handlers"):
            stack += list(getattr(n, fld, []) or [])
    return out


class FuncInfo:
    def __init__(self, qualname, mod: Module, node: ast.FunctionDef, cls, chain):
        self.qualname = qualname
        self.mod = mod
        self.node = node
        self.cls = cls
        self.chain = chain

    @property
    def short(self) -> str:
        parts = self.qualname.split(".")
        names = [c.name for c in self.chain]
        return ".".join(names)

    def loops(self) -> list[ast.AST]:
        """Loops of this function in source order (not descending into nested defs)."""
        out = []

        def visit(n):
            for child in ast.iter_child_nodes(n):
                if isinstance(child, (ast.FunctionDef, ast.AsyncFunctionDef, ast.ClassDef, ast.Lambda)):
                    continue
                if isinstance(child, (ast.For, ast.While)):
                    out.append(child)
                visit(child)

        visit(self.node)
        out.sort(key=lambda n: (n.lineno, n.col_offset))
        return out

    def nested(self, name: str) -> "FuncInfo":
        for child in _defs_in(self.node):
            if child.name == name and isinstance(child, ast.FunctionDef):
                return FuncInfo(self.qualname + "." + name, self.mod, child, self.cls, self.chain + [child])
        raise SourceError(f"{self.qualname}: nested function {name} not found")

    def source(self) -> str:
        return ast.get_source_segment(self.mod.text, self.node) or ""

    def digest(self) -> str:
        return hashlib.sha256(ast.dump(self.node).encode()).hexdigest()[:16]

    def where(self, node=None) -> str:
        n = node or self.node
        return f"{os.path.relpath(self.mod.path, '/')}:{getattr(n, 'lineno', '?')}"


def loop_fingerprint(loop: ast.AST) -> str:
    """Text of a loop header, independent of layout: used to bind an invariant to its loop."""
    if isinstance(loop, ast.For):
        return f"for {ast.unparse(loop.target)} in {ast.unparse(loop.iter)}"
    return f"while {ast.unparse(loop.test)}"
