"""Discharging obligations (16-way), verdict bookkeeping, evidence and exit codes."""
from __future__ import annotations

import concurrent.futures as cf
import json
import os
import sys
import time

from . import smt
from .engine import Obligation

VERIF = os.path.dirname(os.path.dirname(os.path.abspath(__file__)))
JOBS = int(os.environ.get("PYVC_JOBS", "16"))


def discharge(decls: smt.Decls, obs: list[Obligation], timeout: float, both: bool = False) -> None:
    """Fill ob.result for every obligation: dict(verdict, backend, time_s, ...).
    verdicts: proved | refuted | unknown | error | reachable | vacuous."""

    def one(ob: Obligation):
        if ob.kind == "must_be_sat":
            text = smt.script(decls, ob.pc, axioms=False)
            v, out, t = smt.run_cvc5(text, min(timeout, 10))
            backend = "cvc5"
            if v not in ("sat", "unsat"):
                v2, out2, t2 = smt.run_z3(text, min(timeout, 10))
                t += t2
                if v2 in ("sat", "unsat"):
                    v, backend = v2, "z3"
            verdict = {"sat": "reachable", "unsat": "vacuous"}.get(v, "unknown")
            return {"verdict": verdict, "backend": backend, "time_s": t}
        text = smt.script(decls, ob.assertions())
        r = smt.check_unsat(text, timeout, both=both)
        verdict = {"unsat": "proved", "sat": "refuted", "unknown": "unknown", "error": "error"}[r["verdict"]]
        if verdict == "unknown":
            # counter-model search on the quantifier-free part (ground axiom instances only); a model
            # found this way is only a candidate: it counts as a refutation once it replays natively
            qf = smt.script(decls, ob.assertions(), axioms=False)
            v, out, t = smt.run_cvc5(qf, min(timeout, 10), fmf=True)
            r["time_s"] += t
            if v == "sat":
                verdict = "refuted"
                r["backend"] = "cvc5-fmf(candidate)"
        return {"verdict": verdict, "backend": r["backend"], "time_s": r["time_s"], "detail": r["detail"][:2000],
                "answers": r["answers"]}

    with cf.ThreadPoolExecutor(max_workers=JOBS) as ex:
        futs = {ex.submit(one, ob): ob for ob in obs}
        for f in cf.as_completed(futs):
            ob = futs[f]
            try:
                ob.result = f.result()
            except Exception as e:  # solver plumbing failure is a checker error, never a violation
                ob.result = {"verdict": "error", "backend": None, "time_s": 0.0, "detail": repr(e)}


    # a verdict must not flip because the machine is busy: whatever timed out in the parallel pass is tried again,
    # one query at a time, with four times the budget (a timeout is never reported as a violation either way)
    slow = [ob for ob in obs if ob.result.get("verdict") == "unknown"
            and any(a == "timeout" for a in (ob.result.get("answers") or {}).values())]
    for ob in slow[:24]:
        first = ob.result
        try:
            ob.result = one_retry(decls, ob, timeout * 4, both)
            ob.result["time_s"] += first.get("time_s", 0.0)
            ob.result["detail"] = (ob.result.get("detail") or "") + " [decided on the sequential retry]"
        except Exception:  # noqa: BLE001
            ob.result = first


def one_retry(decls, ob, timeout, both):
    if ob.kind == "must_be_sat":
        text = smt.script(decls, ob.pc, axioms=False)
        v, out, t = smt.run_cvc5(text, timeout)
        backend = "cvc5"
        if v not in ("sat", "unsat"):
            v2, out2, t2 = smt.run_z3(text, timeout)
            t += t2
            if v2 in ("sat", "unsat"):
                v, backend = v2, "z3"
        return {"verdict": {"sat": "reachable", "unsat": "vacuous"}.get(v, "unknown"), "backend": backend, "time_s": t}
    r = smt.check_unsat(smt.script(decls, ob.assertions()), timeout, both=both)
    verdict = {"unsat": "proved", "sat": "refuted", "unknown": "unknown", "error": "error"}[r["verdict"]]
    return {"verdict": verdict, "backend": r["backend"], "time_s": r["time_s"], "detail": r["detail"][:2000], "answers": r["answers"]}


def counter_model(decls: smt.Decls, ob: Obligation, extra: list | None = None, timeout: float = 20):
    names = dict(ob.inputs)
    return smt.get_model(decls, ob.assertions(), names, timeout=timeout, extra_bounds=extra)
