"""Mode T — termination obligations over the recursion cycles of the package (DESIGN 2.2).

Every strongly connected component of the call graph (re-computed from the source on every run) needs a
measure in the sidecar.  A measure is one of a few templates; each template generates obligations that are
decided mechanically on the AST of the functions in the cycle (shape of the recursive calls, guards that
dominate them) and on the writer sites of the heap field the measure descends along.
A cycle with no measure is undecided (exit 2), never a violation.
"""
from __future__ import annotations

import ast
import re

from .effects import Effects, _walk_own
from .results import Item


WRAPPERS = {"enumerate", "zip", "reversed", "sorted", "list", "tuple", "iter"}


def sccs(eff: Effects):
    """Tarjan, iterative.  Returns the non-trivial SCCs (size > 1 or self-loop) as sorted lists."""
    g = {q: sorted({c for c, _ in fe.calls if c in eff.funcs}) for q, fe in eff.funcs.items()}
    index, low, on, stack, out = {}, {}, set(), [], []
    counter = [0]
    for root in sorted(g):
        if root in index:
            continue
        work = [(root, 0)]
        while work:
            v, i = work[-1]
            if i == 0:
                index[v] = low[v] = counter[0]
                counter[0] += 1
                stack.append(v)
                on.add(v)
            recurse = False
            succ = g[v]
            while i < len(succ):
                w = succ[i]
                i += 1
                if w not in index:
                    work[-1] = (v, i)
                    work.append((w, 0))
                    recurse = True
                    break
                if w in on:
                    low[v] = min(low[v], index[w])
            if recurse:
                continue
            work.pop()
            if work:
                u = work[-1][0]
                low[u] = min(low[u], low[v])
            if low[v] == index[v]:
                comp = []
                while True:
                    w = stack.pop()
                    on.discard(w)
                    comp.append(w)
                    if w == v:
                        break
                if len(comp) > 1 or v in g[v]:
                    out.append(sorted(comp))
    return sorted(out)


def intra_calls(eff: Effects, comp: list[str]):
    """[(caller, callee, call node)] for the calls that stay inside the component."""
    out = []
    for q in comp:
        for callee, node in eff.funcs[q].calls:
            if callee in comp:
                out.append((q, callee, node))
    return out


def _recv_text(call: ast.Call):
    return ast.unparse(call.func.value) if isinstance(call.func, ast.Attribute) else None


def local_sources(fn: ast.AST, name: str):
    """Expressions a local name is bound from inside fn (assignments and for-targets)."""
    out = []
    for n in _walk_own(fn):
        if isinstance(n, ast.Assign):
            for t in n.targets:
                if isinstance(t, ast.Name) and t.id == name:
                    out.append(("assign", n.value))
        elif isinstance(n, ast.For):
            for sub in ast.walk(n.target):
                if isinstance(sub, ast.Name) and sub.id == name:
                    out.append(("for", n.iter))
        elif isinstance(n, (ast.ListComp, ast.GeneratorExp)):
            for g in n.generators:
                for sub in ast.walk(g.target):
                    if isinstance(sub, ast.Name) and sub.id == name:
                        out.append(("for", g.iter))
    return out


def descends_along(eff: Effects, caller: str, call: ast.Call, fields: tuple, via_methods: tuple = ()):
    """Is the receiver of `call` one step along one of `fields` from the caller's own object?
    Accepted receivers: self.<f>; a local bound only from self.<f> / from iterating self.<f> or
    <obj>.<via>() where via is a children-enumerating method; <param>.<f> for function-style recursion."""
    fn = eff.funcs[caller].info.node
    recv = call.func.value if isinstance(call.func, ast.Attribute) else None
    if recv is None:
        # plain function recursion f(x.<field>, ...): first argument must be a field step
        if not call.args:
            return False
        recv = call.args[0]

    def is_step(e, depth=0):
        if depth > 3:
            return False
        if isinstance(e, ast.Call) and isinstance(e.func, ast.Name) and e.func.id in WRAPPERS and e.args:
            return all(is_step(a, depth + 1) for a in e.args)
        if isinstance(e, ast.Attribute) and e.attr in fields:
            return True
        if isinstance(e, ast.Call) and isinstance(e.func, ast.Attribute) and e.func.attr in via_methods:
            return True
        if isinstance(e, ast.Subscript):
            return is_step(e.value, depth + 1)
        if isinstance(e, ast.Name):
            srcs = local_sources(fn, e.id)
            return bool(srcs) and all(is_step(v, depth + 1) for _, v in srcs)
        return False

    return is_step(recv)


def dominating_guard(fn: ast.FunctionDef, call: ast.Call, pred) -> bool:
    """Does some `if` statement whose test satisfies pred return/continue before `call` on every path?
    (Conservative: looks for an `if <test>: return ...` statement earlier in one of the enclosing blocks.)"""
    def blocks(node):
        for fld in ("body", "orelse", "finalbody"):
            b = getattr(node, fld, None)
            if isinstance(b, list) and b and isinstance(b[0], ast.stmt):
                yield b
        for h in getattr(node, "handlers", []) or []:
            yield h.body

    def contains(n, target):
        return any(x is target for x in ast.walk(n))

    def search(block):
        for i, stmt in enumerate(block):
            if contains(stmt, call):
                for prev in block[:i]:
                    if isinstance(prev, ast.If) and pred(prev.test) and prev.body and \
                            isinstance(prev.body[-1], (ast.Return, ast.Continue, ast.Raise, ast.Break)):
                        return True
                for b in blocks(stmt):
                    if any(contains(s, call) for s in b) and search(b):
                        return True
                # the call may be under an `if` whose test itself is the (negated) guard
                if isinstance(stmt, ast.If) and any(contains(s, call) for s in stmt.body):
                    pass
                return False
        return False

    return search(fn.body)


def item(name, ok, detail, where="", witness=None, func="", shape=False):
    return Item(name, "proved" if ok else "refuted", "structural(termination)", 0.0, where=where, detail=detail,
                mode="T", func=func, witness=None if ok else (witness or {"reason": detail}), shape=shape)
