"""./check <property> [--tier quick|thorough] [--replay <file>]

Exit codes: 0 all obligations discharged (known findings are printed and tolerated);
1 a violation (refuted obligation that replays on the real code, or a failed frame/termination
obligation) not listed in known_findings.txt; 2 undecided (solver unknown, spurious counter-models,
contract no longer binds); 3 checker error.  unknown/timeout/traceback never map to 1.
"""
from __future__ import annotations

import argparse
import importlib
import json
import os
import re
import sys
import time
import traceback

VERIF = os.path.dirname(os.path.dirname(os.path.abspath(__file__)))
sys.path.insert(0, VERIF)
REPO_DIR = os.environ.get("PYVC_REPO", "/repo")
# runs against a scratch copy of the repository (mutation self-test) keep their outputs in the scratch work directory
OUT_DIR = os.environ.get("PYVC_WORK") if (os.environ.get("PYVC_REPO") and os.environ.get("PYVC_WORK")) else None
sys.path.insert(0, REPO_DIR)

from pyvc import smt, run  # noqa: E402
from pyvc.source import Repo, SourceError  # noqa: E402
from pyvc.contract import Registry  # noqa: E402
from pyvc.exec import Verifier  # noqa: E402
from pyvc.pyops import GenerationError  # noqa: E402
from pyvc.results import Item, load_known, decode_model  # noqa: E402


def verify_function(repo, reg, mod, qualname, timeout, both):
    """Mode F on one function: returns (items, decls, obligations)."""
    c = reg.get(qualname)
    v = Verifier(repo, reg, c, spec_env=getattr(mod, "SPEC_ENV", {}), axioms=getattr(mod, "AXIOMS", {}))
    obs = v.verify()
    run.discharge(v.decls, obs, timeout, both=both)
    items = []
    canaries = []
    for ob in obs:
        r = ob.result
        if ob.kind == "must_be_sat":
            if ob.name.endswith("vacuity.requires"):
                if r["verdict"] == "vacuous":
                    items.append(Item(ob.name, "error", r["backend"], r["time_s"], where=ob.where,
                                      detail="contradictory precondition: contract is vacuous"))
                else:
                    items.append(Item(ob.name, "guard-ok", r["backend"], r["time_s"], where=ob.where,
                                      detail=f"precondition {r['verdict']}", counts=False))
            else:
                canaries.append(r["verdict"])
            continue
        it = Item(ob.name, r["verdict"], r["backend"], r["time_s"], where=ob.where, detail=r.get("detail", ""),
                  mode="F", func=qualname)
        it.ob = ob
        it.decls = v.decls
        items.append(it)
    items += v.frame_items or []
    if canaries and "reachable" not in canaries:
        verdict = "error" if all(x == "vacuous" for x in canaries) else "guard-ok"
        items.append(Item(f"{c.prop}/{c.short}/vacuity.paths", verdict, "cvc5", 0.0,
                          detail=f"no return path shown reachable: {canaries}", counts=False))
    return items, v


def main(argv=None):
    ap = argparse.ArgumentParser()
    ap.add_argument("prop")
    ap.add_argument("--tier", default=os.environ.get("VERIF_TIER", "quick"))
    ap.add_argument("--replay")
    args = ap.parse_args(argv)
    pid = args.prop.upper()
    tier = "thorough" if args.tier == "thorough" else "quick"
    seed = int(os.environ.get("VERIF_SEED", "0") or 0)
    t0 = time.time()
    mod = importlib.import_module("contracts." + pid.lower())
    if args.replay:
        with open(args.replay) as f:
            rep = json.load(f)
        out = mod.replay(rep["obligation"], rep.get("model") or {}, rep)
        print(json.dumps(out, indent=1, default=str))
        return 1 if out.get("confirmed") else 0
    timeout = 10 if tier == "quick" else 60
    both = tier == "thorough"
    items: list[Item] = []
    status = 0
    engines = []
    try:
        repo = Repo(REPO_DIR)
        reg = Registry()
        mod.build(reg)
        for q in getattr(mod, "TARGETS", []):
            try:
                its, eng = verify_function(repo, reg, mod, q, timeout, both)
                items += its
                engines.append(eng)
            except SourceError as e:
                items.append(Item(f"{pid}/{reg.get(q).short}/binding", "unknown", "front-end", 0.0, detail=str(e),
                                  func=q))
            except GenerationError as e:
                # the contract does not bind to the function as it is now written (renamed local the invariants mention,
                # a new loop without invariant, a statement outside the subset): undecided, not a violation and not a
                # crash of the checker; a failing input found natively still decides
                items.append(Item(f"{pid}/{reg.get(q).short}/generation", "unknown", "front-end", 0.0,
                                  detail="contract no longer binds: " + str(e), func=q))
        if hasattr(mod, "extra"):
            items += mod.extra(repo, reg, tier, seed)
    except Exception:
        traceback.print_exc()
        items.append(Item(f"{pid}/checker", "error", "python", 0.0, detail=traceback.format_exc()[-1500:]))

    # ---- counter-models and replay
    known = load_known(pid)
    violations, undecided, errors, known_hits = [], [], [], []
    searched = {}
    os.makedirs(os.path.join(OUT_DIR or VERIF, "replays", pid), exist_ok=True)
    for it in items:
        if it.verdict == "refuted":
            rep = {"property": pid, "obligation": it.name, "backend": it.backend, "where": it.where,
                   "solver_output": it.detail[:1500], "trace": getattr(getattr(it, "ob", None), "trace", [])}
            confirmed, tried = None, 0
            if it.witness is not None:  # E/T obligations and enumerations carry their own witness
                rep["witness"] = it.witness
                confirmed = it.confirmed
            elif getattr(it, "ob", None) is not None:
                model = run.counter_model(it.decls, it.ob)
                tried = 1
                if model is not None:
                    model = decode_model(it.decls, it.ob, model)
                    rep["model"] = model
                    try:
                        out = mod.replay(it.name, model, rep)
                    except Exception:
                        out = {"confirmed": None, "detail": "replay crashed: " + traceback.format_exc()[-800:]}
                    rep["replay"] = out
                    confirmed = out.get("confirmed")
            rep["rerun"] = f"./check {pid} --replay replays/{pid}/{safe(it.name)}.json"
            path = os.path.join(OUT_DIR or VERIF, "replays", pid, safe(it.name) + ".json")
            with open(path, "w") as f:
                json.dump(rep, f, indent=1, default=str)
            it.replay_path = path
            base = re.sub(r"#\d+$", "", it.name)
            k = match_known(known, base)
            if confirmed is not True and it.mode == "F":
                # the counter-model did not reproduce: look for a failing input of the real function natively
                w = native_search(mod, it.func, searched, tier, seed, it.name)
                if w is not None:
                    rep["native_search_witness"] = w
                    with open(path, "w") as f:
                        json.dump(rep, f, indent=1, default=str)
                    confirmed = True
            if confirmed is not True and getattr(it, "shape", False):
                # the expected form of the code is gone: decide natively, else report the lost binding as undecided
                w = native_search(mod, it.func, searched, tier, seed, it.name) if it.func else None
                if w is None and it.func and tier != "thorough":
                    # nothing at the quick depth: the lost shape buys the deeper bounded search before giving up
                    w = native_search(mod, it.func, {}, "thorough", seed, it.name)
                if w is not None:
                    rep["native_search_witness"] = w
                    with open(path, "w") as f:
                        json.dump(rep, f, indent=1, default=str)
                    confirmed = True
                else:
                    it.verdict = "shape-lost"
                    it.detail = ("the code no longer has the form this obligation was discharged for and the bounded search "
                                 "found no failing input: re-anchor the contract; " + it.detail)
            if confirmed is not True and (it.mode == "F" or it.verdict == "shape-lost"):
                if it.verdict != "shape-lost":
                    it.verdict = "spurious" if confirmed is False else "refuted-unreplayed"
                undecided.append(it)
            elif k is not None and k["kind"] == "finding":
                known_hits.append((it, k))
            else:
                it.no_input = confirmed is None
                violations.append(it)
        elif it.verdict in ("unknown", "error"):
            # undecided by the verifier: a failing input found natively still is a violation of the contract
            w = native_search(mod, it.func, searched, tier, seed, it.name) if it.func else None
            if w is not None:
                rep = {"property": pid, "obligation": it.name, "backend": it.backend, "verifier_output": it.detail[:1500],
                       "native_search_witness": w,
                       "rerun": f"./check {pid}"}
                path = os.path.join(OUT_DIR or VERIF, "replays", pid, safe(it.name) + ".json")
                with open(path, "w") as f:
                    json.dump(rep, f, indent=1, default=str)
                it.replay_path = path
                it.no_input = False
                base = re.sub(r"#\d+$", "", it.name)
                k = match_known(known, base)
                if k is not None:
                    known_hits.append((it, k))
                else:
                    violations.append(it)
            elif it.verdict == "unknown":
                undecided.append(it)
            else:
                errors.append(it)

    for it, k in known_hits:
        print(f"KNOWN-FINDING: property={pid} {k['text']}")
    seen = set()
    for it in violations:
        base = re.sub(r"#\d+$", "", it.name)
        if base in seen:
            continue
        seen.add(base)
        tail = " no-failing-input-found" if it.no_input else ""
        print(f"VIOLATION property={pid} replay={it.replay_path} obligation={base}{tail}")
    for it in undecided:
        print(f"UNDECIDED property={pid} obligation={it.name} ({it.verdict}: {it.detail[:200]!r})")
    for it in errors:
        print(f"CHECKER-ERROR property={pid} obligation={it.name}: {it.detail[:600]}")
    if violations:
        status = 1
    elif errors:
        status = 3
    elif undecided:
        status = 2

    write_evidence(pid, tier, seed, mod, items, violations, known_hits, time.time() - t0, reg if 'reg' in dir() else None)
    counted = [i for i in items if i.counts]
    print(f"{pid}: {sum(1 for i in counted if i.verdict in ('proved', 'bounded-ok'))}/{len(counted)} obligations "
          f"discharged, {len(violations)} violation(s), {len(known_hits)} known finding(s), "
          f"{len(undecided)} undecided, {len(errors)} error(s), {time.time() - t0:.1f}s -> exit {status}")
    return status


def native_search(mod, func, cache, tier, seed, obligation=""):
    """Bounded search for an input on which the real function violates its contract natively (used only to
    attach a failing input to an obligation that did not verify; never to discharge one)."""
    if not func or not hasattr(mod, "search"):
        return None
    key = (func, re.sub(r"#\d+$", "", obligation))
    if key not in cache:
        try:
            cache[key] = mod.search(func, tier, seed, key[1])
        except Exception:
            cache[key] = None
            traceback.print_exc()
    return cache[key]


def safe(name: str) -> str:
    return re.sub(r"[^A-Za-z0-9_.#-]+", "_", name)[:150]


def match_known(known, base):
    for k in known:
        if k["obligation"] == base or (k["obligation"].endswith("*") and base.startswith(k["obligation"][:-1])):
            return k
    return None


def write_evidence(pid, tier, seed, mod, items, violations, known_hits, wall, reg):
    counted = [i for i in items if i.counts]
    proved = [i for i in counted if i.verdict == "proved"]
    by_backend = {}
    for i in counted:
        if i.verdict in ("proved", "bounded-ok"):
            by_backend[i.backend or "?"] = by_backend.get(i.backend or "?", 0) + 1
    funcs = sorted({i.func for i in items if i.func})
    bounded = [{"name": i.name, "bound": i.detail, "verdict": i.verdict} for i in items if i.mode == "bounded"]
    samples = []
    for i in counted[:400]:
        if len(samples) >= 6:
            break
        if i.verdict == "proved" and getattr(i, "ob", None) is not None and "ensures" in i.name:
            samples.append({"obligation": i.name, "where": i.where, "backend": i.backend,
                            "goal_smt": i.ob.goal.s[:600], "path": i.ob.trace})
    for i in counted:
        if len(samples) >= 8:
            break
        if i.mode in ("E", "T", "bounded", "table") and i.verdict in ("proved", "bounded-ok"):
            samples.append({"obligation": i.name, "where": i.where, "backend": i.backend, "detail": i.detail[:400]})
    if not samples:
        samples = [{"obligation": i.name, "verdict": i.verdict} for i in counted[:5]]
    trusted = list(getattr(mod, "TRUSTED", []))
    if reg is not None:
        for c in reg.assumed():
            if c.prop == pid or not c.prop:
                trusted.append(f"assumed contract {c.short}: {c.note}")
    level = getattr(mod, "LEVEL", "proof")
    # what was done to the source text before conditions were generated (meaning-preserving, mechanical; DESIGN 9.4c)
    general = ["functions that differ from contracts/snapshots.json only by a renaming of locally bound names (or by an "
               "accumulation loop written out where the snapshot has the list comprehension) are renamed / rewritten back "
               "before conditions are generated; a function that calls locals/vars/dir/eval/exec/globals or touches frames is never renamed"]
    try:
        ranch = {}
        for m_ in Repo(REPO_DIR).modules.values():
            ranch.update(m_.reanchored)
        if ranch:
            general.append("re-anchored on this run: " + "; ".join(f"{q} ({', '.join(f'{a}->{b}' for a, b in sorted(r.items())[:6])})"
                                                                  for q, r in sorted(ranch.items())[:12]))
    except Exception:  # noqa: BLE001
        pass
    trusted = trusted + general
    ev = {
        "property_id": pid, "tier": tier, "seed": seed, "level": level,
        "coverage": {
            "obligations": len([i for i in counted if i.mode != "bounded"]),
            "discharged": len([i for i in counted if i.mode != "bounded" and i.verdict == "proved"]),
            "checker_cmd": f"./check {pid} --tier {tier}",
            "trusted_base": trusted,
            "functions_under_contract": funcs,
            "by_backend": by_backend,
            "solver_time_s": round(sum(i.time_s for i in items), 2),
            "bounded": bounded,
            "samples": samples,
            "residual": getattr(mod, "RESIDUAL", ""),
            "known_findings": [k["text"] for _, k in known_hits],
            "not_discharged": [{"name": i.name, "verdict": i.verdict} for i in counted
                               if i.verdict not in ("proved", "bounded-ok")][:50],
        },
        "assumptions": list(getattr(mod, "ASSUMPTIONS", [])) + trusted,
        "wall_s": round(wall, 2),
        "violations": len({re.sub(r'#\d+$', '', i.name) for i in violations}),
    }
    if level != "proof":
        cases = sum(getattr(i, "count", 1) for i in counted)
        ev["coverage"].update({
            "evaluations": cases,
            "distinct_nontrivial": cases,
            "rule": getattr(mod, "RULE", "cases are enumerated without repetition by the generators named in each item's "
                                         "detail; every enumerated case is distinct by construction"),
            "explanation": getattr(mod, "RULE", ""),
        })
    os.makedirs(os.path.join(OUT_DIR or VERIF, "evidence"), exist_ok=True)
    with open(os.path.join(OUT_DIR or VERIF, "evidence", f"{pid}.json"), "w") as f:
        json.dump(ev, f, indent=1, default=str)


if __name__ == "__main__":
    sys.exit(main())
