"""Semantics of python operators and library methods over symbolic values.

Everything here states, as SMT terms, what CPython does for the value shapes listed in
DESIGN 2.2.  An operation on a shape not listed raises GenerationError: the verifier then stops
with exit 3 (checker error) rather than guessing.
"""
from __future__ import annotations

from . import smt
from .smt import (And, Or, Not, Implies, Ite, Eq, IntVal, StrVal, BoolVal, Len, Concat, Extract, At, Add, Sub, Lt, Le,
                  Ge, Gt, TRUE, FALSE, Term)
from .types import *


class GenerationError(Exception):
    """Construct outside the modelled subset (never mapped to a violation)."""


# ------------------------------------------------------------------ helpers
def is_smt(v: Val) -> bool:
    return isinstance(v, V)


def const_val(eng, x) -> Val:
    if x is None:
        return NoneV()
    if isinstance(x, bool):
        return V(BOOL, BoolVal(x))
    if isinstance(x, int):
        return V(INT, IntVal(x))
    if isinstance(x, str):
        return V(STR, StrVal(x))
    raise GenerationError(f"constant {x!r}")


def coerce(eng, v: Val, ty: Ty) -> Val:
    """Convert v to static type ty (None -> Optional none, T -> Optional some(T), bool -> int)."""
    if isinstance(v, V) and v.ty == ty:
        return v
    d = eng.decls
    if isinstance(ty, TOpt):
        if isinstance(v, NoneV):
            return V(ty, d.none(sort_of(ty.inner, d)))
        inner = coerce(eng, v, ty.inner)
        return V(ty, d.some(inner.t))
    if isinstance(ty, TInt) and isinstance(v, V) and isinstance(v.ty, TBool):
        return V(INT, Ite(v.t, IntVal(1), IntVal(0)))
    if isinstance(ty, TJson):
        return to_json(eng, v)
    if isinstance(ty, TNone) and isinstance(v, NoneV):
        return v
    if isinstance(ty, TObj) and isinstance(v, (ObjV, ExcV)):
        return v
    if isinstance(ty, TTup) and isinstance(v, TupV):
        items = [coerce(eng, i, t) for i, t in zip(v.items, ty.items)]
        return V(ty, d.mk(sort_of(ty, d), *[i.t for i in items]))
    if isinstance(ty, TSeq) and isinstance(v, ListV):
        items = [coerce(eng, i, ty.elem) for i in v.items]
        return V(ty, smt.SeqLit(sort_of(ty.elem, d), [i.t for i in items]))
    raise GenerationError(f"cannot coerce {v} to {ty}")


def to_json(eng, v: Val) -> Val:
    """Embed a python value into the opaque Json sort through injective constructors."""
    d = eng.decls
    js = sort_of(JSON, d)
    if isinstance(v, V) and isinstance(v.ty, TJson):
        return v
    if isinstance(v, NoneV):
        return V(JSON, d.fun("json_null", [], js)())
    if isinstance(v, V) and isinstance(v.ty, TInt):
        return V(JSON, d.fun("json_int", [smt.INT], js)(v.t))
    if isinstance(v, V) and isinstance(v.ty, TBool):
        return V(JSON, d.fun("json_bool", [smt.BOOL], js)(v.t))
    if isinstance(v, V) and isinstance(v.ty, TStr):
        return V(JSON, d.fun("json_str", [smt.STR], js)(v.t))
    if isinstance(v, V) and isinstance(v.ty, TOpt):
        inner = to_json(eng, V(v.ty.inner, d.opt_val(v.t)))
        return V(JSON, Ite(d.is_some(v.t), inner.t, d.fun("json_null", [], js)()))
    if isinstance(v, V):
        f = d.fun("json_of_" + smt.mangle(v.t.sort), [v.t.sort], js)
        return V(JSON, f(v.t))
    if isinstance(v, DictV):
        keys = sorted(v.items)
        f = d.fun("json_obj_" + "_".join(smt.mangle(k) for k in keys), [js] * len(keys), js)
        return V(JSON, f(*[to_json(eng, v.items[k]).t for k in keys]))
    if isinstance(v, ListV):
        f = d.fun(f"json_list{len(v.items)}", [js] * len(v.items), js)
        return V(JSON, f(*[to_json(eng, i).t for i in v.items]))
    raise GenerationError(f"to_json {v}")


def listv_to_seq(eng, v: ListV) -> Val:
    """A python-level list literal as an SMT sequence (items must share one SMT type)."""
    if v.items and all(isinstance(i, V) for i in v.items) and len({repr(i.ty) for i in v.items}) == 1:
        return coerce(eng, v, TSeq(v.items[0].ty))
    raise GenerationError("heterogeneous or empty list literal needs a declared type")


def fresh_val(eng, hint: str, ty: Ty) -> Val:
    if isinstance(ty, TNone):
        return NoneV()
    if isinstance(ty, TTup):
        return TupV([fresh_val(eng, f"{hint}.{i}", t) for i, t in enumerate(ty.items)])
    if isinstance(ty, TObj):
        raise GenerationError(f"fresh object value {hint}")
    return V(ty, eng.decls.fresh(hint, sort_of(ty, eng.decls)))


# ------------------------------------------------------------------ truthiness / equality
def truthy(eng, v: Val) -> Term:
    d = eng.decls
    if isinstance(v, NoneV):
        return FALSE
    if isinstance(v, ObjV) and v.present is not None:
        return v.present
    if isinstance(v, (ObjV, FnV, ExcV)):
        return TRUE
    if isinstance(v, TupV):
        return BoolVal(len(v.items) > 0)
    if isinstance(v, DictV):
        return BoolVal(len(v.items) > 0)
    if isinstance(v, ListV):
        return BoolVal(len(v.items) > 0)
    ty = v.ty
    if isinstance(ty, TBool):
        return v.t
    if isinstance(ty, TInt):
        return Not(Eq(v.t, IntVal(0)))
    if isinstance(ty, (TStr, TSeq)):
        return Gt(Len(v.t), IntVal(0))
    if isinstance(ty, TOpt):
        inner = truthy(eng, V(ty.inner, d.opt_val(v.t)))
        return And(d.is_some(v.t), inner)
    if isinstance(ty, TJson):
        return d.fun("json_truthy", [v.t.sort], smt.BOOL)(v.t)
    if isinstance(ty, (TRec,)):
        return TRUE if ty.fields else FALSE
    raise GenerationError(f"truthiness of {ty}")


def is_none(eng, v: Val) -> Term:
    if isinstance(v, NoneV):
        return TRUE
    if isinstance(v, ObjV) and v.present is not None:
        return Not(v.present)
    if isinstance(v, V) and isinstance(v.ty, TOpt):
        return Not(eng.decls.is_some(v.t))
    if isinstance(v, V) and isinstance(v.ty, TJson):
        js = v.t.sort
        return Eq(v.t, eng.decls.fun("json_null", [], js)())
    return FALSE


def py_eq(eng, a: Val, b: Val) -> Term:
    d = eng.decls
    if isinstance(a, NoneV):
        return is_none(eng, b)
    if isinstance(b, NoneV):
        return is_none(eng, a)
    if isinstance(a, TupV) and isinstance(b, TupV):
        if len(a.items) != len(b.items):
            return FALSE
        return And(*[py_eq(eng, x, y) for x, y in zip(a.items, b.items)])
    if isinstance(a, ObjV) and isinstance(b, ObjV):
        return BoolVal(a.path == b.path)
    if isinstance(a, V) and isinstance(b, V):
        if a.ty == b.ty:
            return Eq(a.t, b.t)
        if isinstance(a.ty, TOpt) and a.ty.inner == b.ty:
            return And(d.is_some(a.t), Eq(d.opt_val(a.t), b.t))
        if isinstance(b.ty, TOpt) and b.ty.inner == a.ty:
            return py_eq(eng, b, a)
        if isinstance(a.ty, TBool) and isinstance(b.ty, TInt):
            return Eq(coerce(eng, a, INT).t, b.t)
        if isinstance(a.ty, TInt) and isinstance(b.ty, TBool):
            return py_eq(eng, b, a)
        if isinstance(a.ty, TJson) or isinstance(b.ty, TJson):
            return Eq(to_json(eng, a).t, to_json(eng, b).t)
        # different python types are never equal (str vs int ...)
        if {type(a.ty), type(b.ty)} <= {TStr, TInt, TBool, TSeq} and type(a.ty) is not type(b.ty):
            return FALSE
    if isinstance(a, ListV) and isinstance(b, V) and isinstance(b.ty, TSeq):
        return Eq(coerce(eng, a, b.ty).t, b.t)
    if isinstance(b, ListV) and isinstance(a, V) and isinstance(a.ty, TSeq):
        return Eq(a.t, coerce(eng, b, a.ty).t)
    if isinstance(a, ListV) and isinstance(b, ListV):
        if len(a.items) != len(b.items):
            return FALSE
        return And(*[py_eq(eng, x, y) for x, y in zip(a.items, b.items)])
    if isinstance(a, (DictV, ListV)) or isinstance(b, (DictV, ListV)):
        return Eq(to_json(eng, a).t, to_json(eng, b).t)
    raise GenerationError(f"== between {a} and {b}")


# ------------------------------------------------------------------ indexing / slicing
def norm_index(i: Term, n: Term) -> Term:
    return Ite(Lt(i, IntVal(0)), Add(i, n), i)


def clamp_slice_bound(b: Term, n: Term) -> Term:
    """Python slice bound normalisation for step 1."""
    b1 = Ite(Lt(b, IntVal(0)), Add(b, n), b)
    return Ite(Lt(b1, IntVal(0)), IntVal(0), Ite(Gt(b1, n), n, b1))


def py_slice(eng, v: Val, lo: Val | None, hi: Val | None) -> Val:
    if not (isinstance(v, V) and isinstance(v.ty, (TStr, TSeq))):
        raise GenerationError(f"slice of {v}")
    n = Len(v.t)
    lo_t = IntVal(0) if lo is None or isinstance(lo, NoneV) else clamp_slice_bound(_int(eng, lo), n)
    hi_t = n if hi is None or isinstance(hi, NoneV) else clamp_slice_bound(_int(eng, hi), n)
    ln = Ite(Gt(hi_t, lo_t), Sub(hi_t, lo_t), IntVal(0))
    return V(v.ty, Extract(v.t, lo_t, ln))


def _int(eng, v: Val) -> Term:
    if isinstance(v, V) and isinstance(v.ty, TInt):
        return v.t
    if isinstance(v, V) and isinstance(v.ty, TBool):
        return Ite(v.t, IntVal(1), IntVal(0))
    raise GenerationError(f"int expected, got {v}")


def py_index(eng, st, v: Val, idx: Val, origin: str) -> Val:
    d = eng.decls
    if isinstance(v, TupV):
        k = _const_int(idx)
        if k is None:
            raise GenerationError("tuple index must be constant")
        return v.items[k]
    if isinstance(v, ListV):
        k = _const_int(idx)
        if k is None:
            return py_index(eng, st, listv_to_seq(eng, v), idx, origin)
        if not (-len(v.items) <= k < len(v.items)):
            eng.may_raise(st, FALSE, "IndexError", origin)
        return v.items[k]
    if isinstance(v, DictV):
        k = _const_str(idx)
        if k is None:
            raise GenerationError("dict literal key must be constant")
        if k not in v.items:
            eng.may_raise(st, FALSE, "KeyError", origin)
            return NoneV()
        return v.items[k]
    if isinstance(v, NoneV):
        eng.may_raise(st, FALSE, "TypeError", origin)
        return NoneV()
    if isinstance(v, V) and isinstance(v.ty, TOpt):
        eng.may_raise(st, d.is_some(v.t), "TypeError", origin)
        return py_index(eng, st, V(v.ty.inner, d.opt_val(v.t)), idx, origin)
    if isinstance(v, V) and isinstance(v.ty, (TStr, TSeq)):
        i = _int(eng, idx)
        n = Len(v.t)
        j = norm_index(i, n)
        eng.may_raise(st, And(Le(IntVal(0), j), Lt(j, n)), "IndexError", origin)
        ety = STR if isinstance(v.ty, TStr) else v.ty.elem
        return wrap(eng, ety, At(v.t, j))
    if isinstance(v, V) and isinstance(v.ty, TTup):
        k = _const_int(idx)
        if k is None:
            raise GenerationError("tuple index must be constant")
        if not (-len(v.ty.items) <= k < len(v.ty.items)):
            eng.may_raise(st, FALSE, "IndexError", origin)
            return NoneV()
        k = k % len(v.ty.items)
        return wrap(eng, v.ty.items[k], d.field(v.t, f"f{k}"))
    if isinstance(v, V) and isinstance(v.ty, TRec):
        k = _const_str(idx)
        if k is None or k not in v.ty.fields:
            if k is not None:
                eng.may_raise(st, FALSE, "KeyError", origin)
                return NoneV()
            raise GenerationError(f"record key must be a declared constant: {origin}")
        if k in v.ty.optional:
            eng.may_raise(st, d.field(v.t, "has_" + k), "KeyError", origin)
        return wrap(eng, v.ty.fields[k], d.field(v.t, k))
    if isinstance(v, V) and isinstance(v.ty, TMap):
        kv = coerce(eng, idx, v.ty.key)
        cell = smt.Select(v.t, kv.t)
        eng.may_raise(st, d.is_some(cell), "KeyError", origin)
        return wrap(eng, v.ty.val, d.opt_val(cell))
    if isinstance(v, V) and isinstance(v.ty, TJson):
        # subscripting an arbitrary JSON value: may raise KeyError/TypeError/IndexError
        ok = d.fun("json_has_key", [v.t.sort, v.t.sort], smt.BOOL)(v.t, to_json(eng, idx).t)
        eng.may_raise(st, ok, "LookupOrTypeError", origin)
        return V(JSON, d.fun("json_item", [v.t.sort, v.t.sort], v.t.sort)(v.t, to_json(eng, idx).t))
    raise GenerationError(f"subscript of {v} at {origin}")


def wrap(eng, ty: Ty, t: Term) -> Val:
    if isinstance(ty, TNone):
        return NoneV()
    return V(ty, t)


def _const_int(v: Val):
    if isinstance(v, V) and isinstance(v.ty, TInt):
        s = v.t.s
        if s.isdigit():
            return int(s)
        if s.startswith("(- ") and s[3:-1].isdigit():
            return -int(s[3:-1])
    return None


def _const_str(v: Val):
    if isinstance(v, V) and isinstance(v.ty, TStr) and v.t.s.startswith('"') and "\\u{" not in v.t.s:
        return v.t.s[1:-1].replace('""', '"')
    return None


# ------------------------------------------------------------------ binary operators
def py_add(eng, a: Val, b: Val) -> Val:
    if isinstance(a, V) and isinstance(b, V):
        if isinstance(a.ty, (TInt, TBool)) and isinstance(b.ty, (TInt, TBool)):
            return V(INT, Add(_int(eng, a), _int(eng, b)))
        if isinstance(a.ty, TStr) and isinstance(b.ty, TStr):
            return V(STR, Concat(a.t, b.t))
        if isinstance(a.ty, TSeq) and a.ty == b.ty:
            return V(a.ty, Concat(a.t, b.t))
    if isinstance(a, V) and isinstance(a.ty, TSeq) and isinstance(b, ListV):
        return py_add(eng, a, coerce(eng, b, a.ty))
    if isinstance(b, V) and isinstance(b.ty, TSeq) and isinstance(a, ListV):
        return py_add(eng, coerce(eng, a, b.ty), b)
    if isinstance(a, ListV) and isinstance(b, ListV):
        return ListV(a.items + b.items)
    if isinstance(a, TupV) and isinstance(b, TupV):
        return TupV(a.items + b.items)
    raise GenerationError(f"+ between {a} and {b}")


def py_arith(eng, op: str, a: Val, b: Val) -> Val:
    x, y = _int(eng, a), _int(eng, b)
    if op == "Sub":
        return V(INT, Sub(x, y))
    if op == "Mult":
        return V(INT, smt.Mul(x, y))
    if op == "FloorDiv":
        return V(INT, smt.FloorDiv(x, y))
    if op == "Mod":
        return V(INT, smt.Mod(x, y))
    raise GenerationError(f"arith {op}")


def py_compare(eng, op: str, a: Val, b: Val) -> Term:
    if op in ("Eq", "NotEq"):
        e = py_eq(eng, a, b)
        return e if op == "Eq" else Not(e)
    if op in ("Is", "IsNot"):
        if isinstance(a, NoneV) or isinstance(b, NoneV):
            e = py_eq(eng, a, b)
        elif isinstance(a, ObjV) and isinstance(b, ObjV):
            e = BoolVal(a.path == b.path)
        elif isinstance(a, V) and isinstance(b, V) and a.ty == b.ty and isinstance(a.ty, (TBool, TInt, TRef)):
            e = Eq(a.t, b.t)
        elif isinstance(a, V) and isinstance(b, V) and a.ty == b.ty and isinstance(a.ty, TOpt) \
                and isinstance(a.ty.inner, (TInt, TRef)):
            # object identities modelled by integers: `is` is equality of the (optional) identity
            e = Eq(a.t, b.t)
        else:
            raise GenerationError(f"'is' between {a} and {b}")
        return e if op == "Is" else Not(e)
    if op in ("Lt", "LtE", "Gt", "GtE"):
        # an Optional[int] operand: compared through its value (None has no order; the comparison then
        # constrains nothing, so nothing can be proved from it)
        if isinstance(a, V) and isinstance(a.ty, TOpt) and isinstance(a.ty.inner, TInt):
            a = V(INT, eng.decls.opt_val(a.t))
        if isinstance(b, V) and isinstance(b.ty, TOpt) and isinstance(b.ty.inner, TInt):
            b = V(INT, eng.decls.opt_val(b.t))
        if isinstance(a, V) and isinstance(b, V) and isinstance(a.ty, (TInt, TBool)) and isinstance(b.ty, (TInt, TBool)):
            x, y = _int(eng, a), _int(eng, b)
            return {"Lt": Lt, "LtE": Le, "Gt": Gt, "GtE": Ge}[op](x, y)
        raise GenerationError(f"ordering between {a} and {b}")
    if op in ("In", "NotIn"):
        e = py_contains(eng, b, a)
        return e if op == "In" else Not(e)
    raise GenerationError(f"compare {op}")


def py_contains(eng, container: Val, item: Val) -> Term:
    d = eng.decls
    if isinstance(container, (TupV, ListV)):
        return Or(*[py_eq(eng, item, x) for x in container.items])
    if isinstance(container, DictV):
        k = _const_str(item)
        if k is not None:
            return BoolVal(k in container.items)
        return Or(*[py_eq(eng, item, const_val(eng, x)) for x in container.items])
    if isinstance(container, V):
        ty = container.ty
        if isinstance(ty, TStr):
            return smt.Contains(container.t, coerce(eng, item, STR).t)
        if isinstance(ty, TSeq):
            it = coerce(eng, item, ty.elem)
            return smt.Contains(container.t, smt.Unit(it.t))
        if isinstance(ty, TRec):
            k = _const_str(item)
            if k is None:
                raise GenerationError("'in' on record needs constant key")
            if k not in ty.fields:
                return FALSE
            if k in ty.optional:
                return d.field(container.t, "has_" + k)
            return TRUE
        if isinstance(ty, TMap):
            return d.is_some(smt.Select(container.t, coerce(eng, item, ty.key).t))
        if isinstance(ty, TSet):
            return smt.Select(container.t, coerce(eng, item, ty.elem).t)
        if isinstance(ty, TJson):
            return d.fun("json_has_key", [container.t.sort, container.t.sort], smt.BOOL)(container.t,
                                                                                       to_json(eng, item).t)
    raise GenerationError(f"'in' on {container}")


# ------------------------------------------------------------------ str()/f-strings
def py_str(eng, v: Val) -> Val:
    d = eng.decls
    if isinstance(v, V):
        if isinstance(v.ty, TStr):
            return v
        if isinstance(v.ty, TInt):
            r = smt.StrFromInt(v.t)
            if "q_" not in r.s:  # decimal digits and '-' only: no line breaks, never empty
                d.ground_axiom("str_int.no_cr", Not(smt.Contains(r, StrVal("\r"))))
                d.ground_axiom("str_int.no_lf", Not(smt.Contains(r, StrVal("\n"))))
                d.ground_axiom("str_int.nonempty", Gt(Len(r), IntVal(0)))
            return V(STR, r)
        if isinstance(v.ty, TBool):
            return V(STR, Ite(v.t, StrVal("True"), StrVal("False")))
        if isinstance(v.ty, TOpt) and isinstance(v.ty.inner, (TStr, TInt, TBool)):
            inner = py_str(eng, V(v.ty.inner, d.opt_val(v.t)))
            return V(STR, Ite(d.is_some(v.t), inner.t, StrVal("None")))
        f = d.fun("py_str_" + smt.mangle(v.t.sort), [v.t.sort], smt.STR)
        return V(STR, f(v.t))
    if isinstance(v, NoneV):
        return V(STR, StrVal("None"))
    if isinstance(v, ExcV):
        return V(STR, d.fresh("str_exc", smt.STR))
    raise GenerationError(f"str() of {v}")


# ------------------------------------------------------------------ methods of str / list / dict
def str_method(eng, st, recv: V, name: str, args: list[Val], origin: str) -> Val:
    d = eng.decls
    s = recv.t
    if name == "startswith" and len(args) == 1:
        return V(BOOL, smt.PrefixOf(coerce(eng, args[0], STR).t, s))
    if name == "endswith" and len(args) == 1:
        return V(BOOL, smt.SuffixOf(coerce(eng, args[0], STR).t, s))
    if name == "find" and len(args) == 1:
        return V(INT, smt.IndexOf(s, coerce(eng, args[0], STR).t, IntVal(0)))
    if name in ("lower", "upper") and not args:
        f = d.fun("py_" + name, [smt.STR], smt.STR)
        eng.ensure_axioms("py_" + name)
        return V(STR, f(s))
    if name in ("strip", "lstrip", "rstrip") and not args:
        f = d.fun("py_" + name, [smt.STR], smt.STR)
        eng.ensure_axioms("py_" + name)
        r = f(s)
        if "q_" not in r.s:  # library facts: stripping only removes characters at the ends
            if name == "rstrip":
                d.ground_axiom("rstrip.prefix", smt.PrefixOf(r, s))
            elif name == "lstrip":
                d.ground_axiom("lstrip.suffix", smt.SuffixOf(r, s))
            else:
                d.ground_axiom("strip.contained", smt.Contains(s, r))
            d.ground_axiom(name + ".len", Le(Len(r), Len(s)))
        return V(STR, r)
    if name == "encode":
        return V(STR, s)  # bytes are modelled by the text plus the blen() spec function
    if name == "count" and len(args) == 1:
        f = d.fun("py_count", [smt.STR, smt.STR], smt.INT)
        eng.ensure_axioms("py_count")
        return V(INT, f(s, coerce(eng, args[0], STR).t))
    if name == "partition" and len(args) == 1:
        # (before, sep, after) at the first occurrence of sep, (s, "", "") when there is none
        sep = coerce(eng, args[0], STR).t
        eng.may_raise(st, Gt(Len(sep), IntVal(0)), "ValueError", origin)
        i = smt.IndexOf(s, sep, IntVal(0))
        found = Ge(i, IntVal(0))
        return TupV([V(STR, Ite(found, Extract(s, IntVal(0), i), s)), V(STR, Ite(found, sep, StrVal(""))),
                     V(STR, Ite(found, Extract(s, Add(i, Len(sep)), Len(s)), StrVal("")))])
    if name == "split" and len(args) in (1, 2):
        sep = coerce(eng, args[0], STR).t
        if len(args) == 2:
            k = _const_int(args[1])
            if k != 1:
                raise GenerationError("split maxsplit only 1")
            # s.split(sep, 1): [s] if sep not in s else [before, after] at first occurrence
            i = smt.IndexOf(s, sep, IntVal(0))
            before = Extract(s, IntVal(0), i)
            after = Extract(s, Add(i, Len(sep)), Len(s))
            two = smt.SeqLit(smt.STR, [before, after])
            one = smt.SeqLit(smt.STR, [s])
            eng.may_raise(st, Gt(Len(sep), IntVal(0)), "ValueError", origin)
            return V(TSeq(STR), Ite(Ge(i, IntVal(0)), two, one))
        f = d.fun("py_split", [smt.STR, smt.STR], smt.SeqS(smt.STR))
        eng.ensure_axioms("py_split")
        eng.may_raise(st, Gt(Len(sep), IntVal(0)), "ValueError", origin)
        res = f(s, sep)
        if "q_" not in res.s:
            # library facts about str.split: at least one piece; the first piece is the text before the first
            # separator (a prefix of s free of the separator); no separator -> the whole string
            first = At(res, IntVal(0))
            d.ground_axiom("split.nonempty", Implies(Gt(Len(sep), IntVal(0)), Ge(Len(res), IntVal(1))))
            d.ground_axiom("split.first_prefix", Implies(Gt(Len(sep), IntVal(0)),
                                                        And(smt.PrefixOf(first, s), Not(smt.Contains(first, sep)))))
            d.ground_axiom("split.no_sep", Implies(And(Gt(Len(sep), IntVal(0)), Not(smt.Contains(s, sep))),
                                                   Eq(res, smt.Unit(s))))
        return V(TSeq(STR), res)
    if name == "join" and len(args) == 1:
        f = d.fun("py_join", [smt.STR, smt.SeqS(smt.STR)], smt.STR)
        return V(STR, f(s, coerce(eng, args[0], TSeq(STR)).t))
    if name == "replace" and len(args) in (2, 3):
        a, b = coerce(eng, args[0], STR).t, coerce(eng, args[1], STR).t
        if len(args) == 3 and _const_int(args[2]) == 1:
            return V(STR, smt.app(smt.STR, "str.replace", s, a, b))
        return V(STR, smt.app(smt.STR, "str.replace_all", s, a, b))
    raise GenerationError(f"str.{name}/{len(args)} at {origin}")


def seq_method(eng, st, recv: V, name: str, args: list[Val], origin: str):
    """Returns (result, new_receiver_value or None)."""
    ty = recv.ty
    s = recv.t
    if name == "append" and len(args) == 1:
        a0 = args[0]
        if isinstance(a0, V) and isinstance(a0.ty, TOpt) and a0.ty.inner == ty.elem:
            # the sequence is declared to hold proper values: pushing None is an obligation, not a Python error
            eng.oblige(f"{eng.c.prop}/{eng.c.short}/model.pushed_value_not_none[{origin}]", st, eng.decls.is_some(a0.t),
                       kind="call_pre")
            a0 = wrap(eng, ty.elem, eng.decls.opt_val(a0.t))
        it = coerce(eng, a0, ty.elem)
        return NoneV(), V(ty, Concat(s, smt.Unit(it.t)))
    if name == "extend" and len(args) == 1:
        return NoneV(), V(ty, Concat(s, coerce(eng, args[0], ty).t))
    if name == "copy" and not args:
        return V(ty, s), None
    if name == "pop" and len(args) <= 1:
        n = Len(s)
        if args:
            i = norm_index(_int(eng, args[0]), n)
        else:
            i = Sub(n, IntVal(1))
        eng.may_raise(st, And(Le(IntVal(0), i), Lt(i, n)), "IndexError", origin)
        elem = wrap(eng, ty.elem, At(s, i))
        rest = Concat(Extract(s, IntVal(0), i), Extract(s, Add(i, IntVal(1)), n))
        return elem, V(ty, rest)
    if name == "insert" and len(args) == 2:
        n = Len(s)
        i = clamp_slice_bound(_int(eng, args[0]), n)
        it = coerce(eng, args[1], ty.elem)
        return NoneV(), V(ty, Concat(Concat(Extract(s, IntVal(0), i), smt.Unit(it.t)), Extract(s, i, n)))
    if name == "count" and len(args) == 1:
        raise GenerationError("list.count")
    raise GenerationError(f"list.{name}/{len(args)} at {origin}")


def map_method(eng, st, recv: V, name: str, args: list[Val], origin: str):
    d = eng.decls
    ty = recv.ty
    if name == "get" and len(args) in (1, 2):
        k = coerce(eng, args[0], ty.key)
        cell = smt.Select(recv.t, k.t)
        if len(args) == 1:
            return V(TOpt(ty.val), cell), None
        dflt = args[1]
        if isinstance(dflt, NoneV):
            return V(TOpt(ty.val), cell), None
        dv = coerce(eng, dflt, ty.val)
        return V(ty.val, Ite(d.is_some(cell), d.opt_val(cell), dv.t)), None
    if name == "pop" and len(args) == 2:
        k = coerce(eng, args[0], ty.key)
        cell = smt.Select(recv.t, k.t)
        new = V(ty, smt.Store(recv.t, k.t, d.none(sort_of(ty.val, d))))
        if isinstance(args[1], NoneV):
            return V(TOpt(ty.val), cell), new
        dv = coerce(eng, args[1], ty.val)
        return V(ty.val, Ite(d.is_some(cell), d.opt_val(cell), dv.t)), new
    raise GenerationError(f"dict.{name}/{len(args)} at {origin}")


def rec_method(eng, st, recv: V, name: str, args: list[Val], origin: str):
    d = eng.decls
    ty = recv.ty
    if name == "get" and len(args) in (1, 2):
        k = _const_str(args[0])
        if k is None:
            raise GenerationError(f"record .get needs constant key at {origin}")
        dflt = args[1] if len(args) == 2 else NoneV()
        if k not in ty.fields:
            return dflt, None
        fty = ty.fields[k]
        val = wrap(eng, fty, d.field(recv.t, k))
        if k not in ty.optional:
            return val, None
        has = d.field(recv.t, "has_" + k)
        if isinstance(dflt, NoneV):
            if isinstance(fty, TOpt):
                return V(fty, Ite(has, val.t, d.none(sort_of(fty.inner, d)))), None
            oty = TOpt(fty)
            return V(oty, Ite(has, d.some(val.t), d.none(sort_of(fty, d)))), None
        dv = coerce(eng, dflt, fty)
        return V(fty, Ite(has, val.t, dv.t)), None
    raise GenerationError(f"record.{name} at {origin}")
