"""Modelled builtins.  Each takes (eng, st, node, args, kwargs) and returns a Val."""
from __future__ import annotations

from . import smt
from .smt import And, Or, Not, Implies, Ite, Eq, IntVal, StrVal, BoolVal, Len, TRUE, FALSE
from .types import *
from . import pyops
from .pyops import GenerationError, coerce, truthy, wrap, to_json


class IterV(Val):
    """An iteration view: length term + element function (index term -> Val)."""

    def __init__(self, n, elem, root=None, concrete=None):
        self.n = n
        self.elem = elem
        self.root = root
        self.concrete = concrete  # python int length when statically known
        self.ty = TJson()


def enumeration_facts(S, order, es):
    i, j = smt.BoundVar("si", smt.INT), smt.BoundVar("sj", smt.INT)
    x = smt.BoundVar("sx", es)
    return [
        smt.Forall([i], Implies(And(smt.Le(IntVal(0), i), smt.Lt(i, Len(order))), smt.Select(S, smt.At(order, i)))),
        smt.Forall([x], Implies(smt.Select(S, x), smt.Contains(order, smt.Unit(x)))),
        smt.Forall([i, j], Implies(And(smt.Le(IntVal(0), i), smt.Lt(i, j), smt.Lt(j, Len(order))),
                                   Not(Eq(smt.At(order, i), smt.At(order, j))))),
    ]


def iter_view(eng, st, v: Val, origin: str) -> IterV:
    d = eng.decls
    if isinstance(v, IterV):
        return v
    if isinstance(v, (TupV, ListV)):
        items = v.items

        def elem(i):
            k = pyops._const_int(V(INT, i))
            if k is None:
                sq = pyops.listv_to_seq(eng, v) if isinstance(v, ListV) else None
                if sq is None:
                    raise GenerationError("symbolic index into python-level sequence")
                return wrap(eng, sq.ty.elem, smt.At(sq.t, i))
            return items[k]

        return IterV(IntVal(len(items)), elem, concrete=len(items))
    if isinstance(v, DictV):
        keys = list(v.items)
        return IterV(IntVal(len(keys)), lambda i: pyops.const_val(eng, keys[pyops._const_int(V(INT, i))]),
                     concrete=len(keys))
    if isinstance(v, V) and isinstance(v.ty, TSeq):
        return IterV(Len(v.t), lambda i: wrap(eng, v.ty.elem, smt.At(v.t, i)))
    if isinstance(v, V) and isinstance(v.ty, TStr):
        return IterV(Len(v.t), lambda i: V(STR, smt.At(v.t, i)))
    if isinstance(v, V) and isinstance(v.ty, TSet):
        # iteration over a set: an arbitrary enumeration without repetition of its members.  A contract may
        # name that enumeration with a ghost parameter (spec function enumerates(order, S)).
        es = sort_of(v.ty.elem, d)
        named = getattr(eng, "_set_orders", {}).get(v.t.s)
        if named is not None:
            order = named
        else:
            order = d.fresh("set_order", smt.SeqS(es))
            for fact in enumeration_facts(v.t, order, es):
                st.assume(fact)
        return IterV(Len(order), lambda k: wrap(eng, v.ty.elem, smt.At(order, k)))
    raise GenerationError(f"iteration over {v} at {origin}")


def b_len(eng, st, node, args, kwargs):
    v = args[0]
    if isinstance(v, (TupV, ListV)):
        return V(INT, IntVal(len(v.items)))
    if isinstance(v, DictV):
        return V(INT, IntVal(len(v.items)))
    if isinstance(v, V) and isinstance(v.ty, (TStr, TSeq)):
        return V(INT, Len(v.t))
    if isinstance(v, V) and isinstance(v.ty, TSet):
        # cardinality of a set: uninterpreted, non-negative (contracts that need more state it as a spec function)
        n = eng.decls.fun("set_card_" + smt.mangle(v.t.sort), [v.t.sort], smt.INT)(v.t)
        eng.decls.ground_axiom("card.nonneg", smt.Ge(n, IntVal(0)))
        return V(INT, n)
    if isinstance(v, V) and isinstance(v.ty, TOpt):
        eng.may_raise(st, eng.decls.is_some(v.t), "TypeError", eng.origin(node))
        return b_len(eng, st, node, [wrap(eng, v.ty.inner, eng.decls.opt_val(v.t))], {})
    if isinstance(v, V) and isinstance(v.ty, TJson):
        d = eng.decls
        ok = d.fun("json_sized", [v.t.sort], smt.BOOL)(v.t)
        eng.may_raise(st, ok, "TypeError", eng.origin(node))
        n = d.fun("json_len", [v.t.sort], smt.INT)(v.t)
        st.assume(smt.Ge(n, IntVal(0)))
        return V(INT, n)
    if isinstance(v, NoneV):
        eng.may_raise(st, FALSE, "TypeError", eng.origin(node))
        return V(INT, IntVal(0))
    raise GenerationError(f"len of {v}")


def b_str(eng, st, node, args, kwargs):
    return pyops.py_str(eng, args[0])


def b_int(eng, st, node, args, kwargs):
    v = args[0]
    if isinstance(v, V) and isinstance(v.ty, (TInt, TBool)):
        return V(INT, pyops._int(eng, v))
    if isinstance(v, V) and isinstance(v.ty, TStr):
        # int(s): defined for (optionally signed, whitespace-padded) decimal strings.  The model
        # uses an uninterpreted pair (int_ok, int_of) with the axiom that plain digit strings
        # parse to str.to_int.
        d = eng.decls
        ok = d.fun("py_int_ok", [smt.STR], smt.BOOL)(v.t)
        val = d.fun("py_int_of", [smt.STR], smt.INT)(v.t)
        eng.ensure_axioms("py_int")
        eng.may_raise(st, ok, "ValueError", eng.origin(node))
        return V(INT, val)
    raise GenerationError(f"int() of {v}")


def b_bool(eng, st, node, args, kwargs):
    return V(BOOL, truthy(eng, args[0]))


def b_isinstance(eng, st, node, args, kwargs):
    v = args[0]
    cls = ast_name(node.args[1])
    d = eng.decls
    if isinstance(v, V) and isinstance(v.ty, TJson):
        f = d.fun("json_is_" + smt.mangle(cls), [v.t.sort], smt.BOOL)
        eng.ensure_axioms("json_kinds")
        return V(BOOL, f(v.t))
    table = {"str": TStr, "int": (TInt, TBool), "bool": TBool, "list": TSeq, "dict": (TMap, TRec), "set": TSet}
    if isinstance(v, V) and cls in table:
        return V(BOOL, BoolVal(isinstance(v.ty, table[cls])))
    if isinstance(v, NoneV):
        return V(BOOL, FALSE)
    if isinstance(v, (DictV,)):
        return V(BOOL, BoolVal(cls == "dict"))
    if isinstance(v, (ListV,)):
        return V(BOOL, BoolVal(cls == "list"))
    if isinstance(v, TupV):
        return V(BOOL, BoolVal(cls == "tuple"))
    if isinstance(v, ExcV):
        from .engine import is_subclass
        r = is_subclass(v.cls, cls)
        if r is None:
            return V(BOOL, d.fresh("isinst", smt.BOOL))
        return V(BOOL, BoolVal(r))
    raise GenerationError(f"isinstance({v}, {cls})")


def ast_name(n):
    import ast
    return ast.unparse(n)


def b_range(eng, st, node, args, kwargs):
    if len(args) == 1:
        lo, hi = IntVal(0), pyops._int(eng, args[0])
    elif len(args) == 2:
        lo, hi = pyops._int(eng, args[0]), pyops._int(eng, args[1])
    else:
        raise GenerationError("range with step")
    n = smt.Max(smt.Sub(hi, lo), IntVal(0))
    return IterV(n, lambda i: V(INT, smt.Add(lo, i)))


def b_enumerate(eng, st, node, args, kwargs):
    it = iter_view(eng, st, args[0], eng.origin(node))
    return IterV(it.n, lambda i: TupV([V(INT, i), it.elem(i)]), concrete=it.concrete)


def b_zip(eng, st, node, args, kwargs):
    its = [iter_view(eng, st, a, eng.origin(node)) for a in args]
    n = its[0].n
    for it in its[1:]:
        n = smt.Min(n, it.n)
    conc = None
    if all(it.concrete is not None for it in its):
        conc = min(it.concrete for it in its)
    return IterV(n, lambda i: TupV([it.elem(i) for it in its]), concrete=conc)


def b_any_all(which):
    def f(eng, st, node, args, kwargs):
        v = args[0]
        it = iter_view(eng, st, v, eng.origin(node))
        if it.concrete is not None:
            ts = [truthy(eng, it.elem(IntVal(k))) for k in range(it.concrete)]
            return V(BOOL, Or(*ts) if which == "any" else And(*ts))
        i = smt.BoundVar("qa", smt.INT)
        body = truthy(eng, it.elem(i))
        rng = And(smt.Le(IntVal(0), i), smt.Lt(i, it.n))
        if which == "any":
            return V(BOOL, smt.Exists([i], And(rng, body)))
        return V(BOOL, smt.Forall([i], Implies(rng, body)))
    return f


def b_set(eng, st, node, args, kwargs):
    d = eng.decls
    if not args:
        raise GenerationError("set() without element type: declare the local's type")
    v = args[0]
    if isinstance(v, V) and isinstance(v.ty, TSet):
        return v
    if isinstance(v, V) and isinstance(v.ty, TJson):
        ok = d.fun("json_iterable", [v.t.sort], smt.BOOL)(v.t)
        eng.ensure_axioms("json_set")
        eng.may_raise(st, ok, "TypeError", eng.origin(node))
        return V(JSON, d.fun("json_set", [v.t.sort], v.t.sort)(v.t))
    if isinstance(v, V) and isinstance(v.ty, TSeq):
        es = sort_of(v.ty.elem, d)
        x = smt.BoundVar("sx", es)
        res = d.fresh("set_of", smt.ArrayS(es, smt.BOOL))
        st.assume(smt.Forall([x], Eq(smt.Select(res, x), smt.Contains(v.t, smt.Unit(x)))))
        return V(TSet(v.ty.elem), res)
    raise GenerationError(f"set({v})")


def b_list(eng, st, node, args, kwargs):
    if not args:
        return ListV([])
    v = args[0]
    if isinstance(v, V) and isinstance(v.ty, TSeq):
        return v
    raise GenerationError(f"list({v})")


def unwrap_opt(eng, st, v, origin, exc="TypeError"):
    """Use an Optional value where a plain one is needed: raises `exc` when it is None."""
    if isinstance(v, V) and isinstance(v.ty, TOpt):
        eng.may_raise(st, eng.decls.is_some(v.t), exc, origin)
        return wrap(eng, v.ty.inner, eng.decls.opt_val(v.t))
    if isinstance(v, NoneV):
        eng.may_raise(st, FALSE, exc, origin)
        return V(INT, IntVal(0))
    return v


def b_minmax(which):
    def f(eng, st, node, args, kwargs):
        if len(args) == 2:
            args = [unwrap_opt(eng, st, a, eng.origin(node)) for a in args]
            a, b = pyops._int(eng, args[0]), pyops._int(eng, args[1])
            return V(INT, smt.Min(a, b) if which == "min" else smt.Max(a, b))
        raise GenerationError(which)
    return f


BUILTINS = {
    "len": b_len, "str": b_str, "int": b_int, "bool": b_bool, "isinstance": b_isinstance, "range": b_range,
    "enumerate": b_enumerate, "zip": b_zip, "any": b_any_all("any"), "all": b_any_all("all"), "set": b_set,
    "list": b_list, "min": b_minmax("min"), "max": b_minmax("max"),
}


def json_method(eng, st, recv: V, name: str, args, origin: str):
    """Methods called on an arbitrary JSON value: it may not be a dict at all."""
    d = eng.decls
    js = recv.t.sort
    if name == "get" and len(args) in (1, 2):
        is_dict = d.fun("json_is_dict", [js], smt.BOOL)(recv.t)
        eng.ensure_axioms("json_kinds")
        eng.may_raise(st, is_dict, "AttributeError", origin)
        k = to_json(eng, args[0]).t
        has = d.fun("json_has_key", [js, js], smt.BOOL)(recv.t, k)
        item = d.fun("json_item", [js, js], js)(recv.t, k)
        dflt = args[1] if len(args) == 2 else NoneV()
        if isinstance(dflt, V) and not isinstance(dflt.ty, TJson):
            # typed default: result keeps the default's type only when absent; model as Json
            dj = to_json(eng, dflt).t
        else:
            dj = to_json(eng, dflt).t
        return V(JSON, Ite(has, item, dj))
    raise GenerationError(f"method {name} on JSON value at {origin}")


def set_method(eng, st, recv: V, name: str, args, origin: str):
    d = eng.decls
    ty = recv.ty
    if name == "add" and len(args) == 1:
        it = coerce(eng, args[0], ty.elem)
        return NoneV(), V(ty, smt.Store(recv.t, it.t, TRUE))
    if name == "copy" and not args:
        return recv, None
    if name == "update" and len(args) == 1 and isinstance(args[0], V) and isinstance(args[0].ty, TSet):
        es = sort_of(ty.elem, d)
        x = smt.BoundVar("sx", es)
        res = d.fresh("set_union", recv.t.sort)
        st.assume(smt.Forall([x], Eq(smt.Select(res, x), Or(smt.Select(recv.t, x), smt.Select(args[0].t, x)))))
        return NoneV(), V(ty, res)
    raise GenerationError(f"set.{name} at {origin}")
