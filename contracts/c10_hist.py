"""Bounded stand-in for C10: histories of sync events over a multi-file workspace; after the last save the
long-lived server's answers are compared with those of a fresh server started on the same files."""
from __future__ import annotations

import json
import os
import re

BASE = {
    "t.f90": "module tmod\n  type :: shape\n    integer :: old_c\n  contains\n    procedure :: area\n  end type shape\ncontains\n"
             "  function area(self) result(r)\n    class(shape) :: self\n    real :: r\n    r = 1.0\n  end function area\nend module tmod\n",
    "u.f90": "module umod\n  use tmod\n  type, extends(shape) :: square\n    integer :: side\n  end type square\n  type(shape) :: v\n  type(square) :: q\ncontains\n"
             "  subroutine work()\n    v%old_c = 1\n    q%side = 2\n    print *, v%area()\n  end subroutine work\nend module umod\n",
    "p.f90": "program main\n  use umod, only: work, v\n  implicit none\n  call work()\n  v%old_c = 3\nend program main\n",
    "inc.f90": "integer :: from_inc\n",
    "b1.f90": "module bmod\ncontains\n  subroutine impl(self, n)\n    class(*) :: self\n    integer :: n\n  end subroutine impl\n"
              "  function fres(x) result(y)\n    real :: x, y\n    y = x\n  end function fres\nend module bmod\n",
    "b2.f90": "module b2mod\n  use bmod\n  type :: tb\n  contains\n    procedure :: go => impl\n  end type tb\n  procedure(fres), pointer :: fp => null()\n"
              "  interface gen\n    module procedure impl\n  end interface gen\ncontains\n  subroutine user()\n    type(tb) :: o\n    call o%go(1)\n"
              "    associate (aa => o)\n      call aa%go(2)\n    end associate\n    print *, fp(1.0)\n  end subroutine user\nend module b2mod\n",
    "sm1.f90": "module parentm\n  interface\n    module subroutine ms(a)\n      integer :: a\n    end subroutine ms\n  end interface\nend module parentm\n",
    "sm2.f90": "submodule (parentm) childm\ncontains\n  module subroutine ms(a)\n    integer :: a\n  end subroutine ms\nend submodule childm\n",
    "g1.f90": "module g1m\n  type :: base_t\n    integer :: alpha\n  end type base_t\nend module g1m\n",
    "g2.f90": "module g2m\n  use g1m\n  type, extends(base_t) :: mid_t\n    integer :: gamma\n  end type mid_t\nend module g2m\n",
    "g3.f90": "module g3m\n  use g2m\n  type, extends(mid_t) :: leaf_t\n    integer :: omega\n  end type leaf_t\n  type(leaf_t) :: lv\ncontains\n"
              "  subroutine gw()\n    lv%alpha = 1\n  end subroutine gw\nend module g3m\n",
    "sp1.f90": "module par\n  interface\n    module subroutine foo(x, y)\n      integer, intent(in) :: x\n      real, intent(out) :: y\n    end subroutine foo\n  end interface\nend module par\n",
    "sp2.f90": "submodule (par) subp\ncontains\n  module procedure foo\n    y = x\n  end procedure foo\nend submodule subp\n",
    "sf1.f90": "module fpar\n  interface\n    module function mf(a) result(r)\n      integer :: a\n      real :: r\n    end function mf\n  end interface\nend module fpar\n",
    "sf2.f90": "submodule (fpar) fchild\ncontains\n  module function mf(a) result(r)\n    integer :: a\n    real :: r\n    r = a\n  end function mf\nend submodule fchild\n",
    "decl2.f90": "integer :: inc_priv\ninteger :: inc_other\n",
    "m2.f90": "module m2\n  implicit none\n  include 'decl2.f90'\n  private :: inc_priv\nend module m2\n",
    "p2.f90": "module host2\n  implicit none\n  integer :: inc_priv\ncontains\n  subroutine s2()\n    use m2\n    inc_priv = 1\n"
              "    inc_other = 2\n  end subroutine s2\nend module host2\n",
    # a unit with nothing to link itself (no EXTENDS, no procedure pointers): only a variable of a type from another file
    "plain.f90": "program plainp\n  use tmod\n  implicit none\n  type(shape) :: xx\n  xx%old_c = 1\nend program plainp\n",
    "pa.f90": "module pam\ncontains\n  subroutine ps(a, b)\n    integer :: a\n    class(*) :: b\n  end subroutine ps\nend module pam\n",
    "pb.f90": "module pbm\n  use pam\n  type :: tt\n  contains\n    procedure, pass(b) :: m => ps\n  end type tt\ncontains\n"
              "  subroutine pu(x)\n    type(tt) :: x\n    call x%m(1)\n  end subroutine pu\nend module pbm\n",
    "long.f90": "module longm\n  integer :: a_rather_long_name_for_a_variable = 1234567890 + 1234567890 + 12345\n"
                "  ! a comment line that is longer than the configured sixty characters, clearly\nend module longm\n",
    # two files declare a module of the same name (as test programs of one project do)
    "dup_a.f90": "module dupm\n  integer :: xa\nend module dupm\n",
    "dup_b.f90": "module dupm\n  integer :: xb\nend module dupm\n",
    "dup_c.f90": "program dupc\n  use dupm\n  xa = 1\n  xb = 2\nend program dupc\n",
    # an include file whose suffix is not a source suffix: the scan of the workspace does not index it
    "vars.inc": "integer :: from_vinc\n",
    "hv.f90": "module hvm\n  include 'vars.inc'\ncontains\n  subroutine hvs()\n    from_vinc = 1\n  end subroutine hvs\nend module hvm\n",
    "w.f90": "subroutine uses_inc()\n  include 'inc.f90'\n  from_inc = 1\nend subroutine uses_inc\n",
}

BASE_B1_RENAMED = BASE["b1.f90"].replace("impl", "impl2").replace("fres", "fres2")
BASE_B1_SIG = BASE["b1.f90"].replace("subroutine impl(self, n)", "subroutine impl(self, n, extra)").replace("    integer :: n\n", "    integer :: n\n    integer :: extra\n")
BASE_SM1_ARGS = BASE["sm1.f90"].replace("ms(a)", "ms(a, bb)").replace("      integer :: a\n", "      integer :: a\n      real :: bb\n")
BASE_SF1_ARGS = BASE["sf1.f90"].replace("mf(a) result(r)", "mf(a, bb) result(rr)").replace("real :: r\n", "integer :: rr\n      real :: bb\n")
BASE_SM1_RENAMED = BASE["sm1.f90"].replace("parentm", "parentm2")

# each history: list of (op, file, new text or None); ops: save (write to disk + didSave), change (didChange full text,
# no disk write), open, close, delete (remove from disk + didClose), create (write + didOpen)
HISTORIES = {
    "include_file_with_other_suffix_closed": [("close", "vars.inc", None)],
    "include_file_with_other_suffix_edited_and_closed": [("save", "vars.inc", "integer :: from_vinc, second_v\n"), ("query", None, None), ("close", "vars.inc", None)],
    "source_file_closed": [("close", "t.f90", None), ("query", None, None), ("close", "u.f90", None)],
    "source_file_closed_and_reopened": [("close", "t.f90", None), ("open", "t.f90", None)],
    "duplicate_module_first_file_saved": [("save", "dup_a.f90", BASE["dup_a.f90"] + "! c\n")],
    "duplicate_module_second_file_saved": [("save", "dup_b.f90", BASE["dup_b.f90"] + "! c\n")],
    "duplicate_module_both_saved": [("save", "dup_b.f90", BASE["dup_b.f90"] + "! c\n"), ("save", "dup_a.f90", BASE["dup_a.f90"] + "! c\n")],
    "duplicate_module_dropped_by_one_file": [("save", "dup_b.f90", "module other_name\n  integer :: xb\nend module other_name\n"), ("query", None, None),
                                             ("save", "dup_a.f90", BASE["dup_a.f90"] + "! c\n")],
    "duplicate_module_file_deleted_and_back": [("delete", "dup_b.f90", None), ("query", None, None), ("create", "dup_b.f90", BASE["dup_b.f90"])],
    "rename_component": [("save", "t.f90", BASE["t.f90"].replace("old_c", "new_c")),
                         ("save", "u.f90", BASE["u.f90"].replace("old_c", "new_c")),
                         ("save", "p.f90", BASE["p.f90"].replace("old_c", "new_c"))],
    "rename_module_and_back": [("save", "t.f90", BASE["t.f90"].replace("tmod", "tmod2")),
                               ("save", "t.f90", BASE["t.f90"])],
    "remove_type_bound": [("save", "t.f90", BASE["t.f90"].replace("  contains\n    procedure :: area\n", ""))],
    "edit_unsaved_then_save_original": [("change", "t.f90", BASE["t.f90"].replace("old_c", "zzz")),
                                        ("save", "t.f90", BASE["t.f90"])],
    "delete_and_recreate": [("delete", "t.f90", None), ("create", "t.f90", BASE["t.f90"].replace("old_c", "re_c")),
                            ("save", "u.f90", BASE["u.f90"].replace("old_c", "re_c")),
                            ("save", "p.f90", BASE["p.f90"].replace("old_c", "re_c"))],
    "change_extends": [("save", "u.f90", BASE["u.f90"].replace("type, extends(shape) :: square", "type :: square"))],
    "include_changes": [("save", "inc.f90", "integer :: from_inc2\n"),
                        ("save", "w.f90", BASE["w.f90"].replace("from_inc = 1", "from_inc2 = 1"))],
    "new_file_defines_used_module": [("save", "p.f90", BASE["p.f90"].replace("use umod, only: work, v", "use umod, only: work, v\n  use later")),
                                     ("create", "later.f90", "module later\n  integer :: lv\nend module later\n")],
    "query_then_edit_dependency_only": [("query", None, None), ("save", "t.f90", BASE["t.f90"].replace("old_c", "new_c"))],
    "query_then_remove_parent_type": [("query", None, None),
                                      ("save", "t.f90", BASE["t.f90"].replace("type :: shape", "type :: shape2").replace("end type shape", "end type shape2").replace("class(shape)", "class(shape2)"))],
    "query_then_edit_include": [("query", None, None), ("save", "inc.f90", "integer :: other_name\n")],
    "query_then_delete_module_file": [("query", None, None), ("delete", "t.f90", None)],
    "query_then_rename_binding_target": [("query", None, None), ("save", "b1.f90", BASE_B1_RENAMED)],
    "query_then_change_signature": [("query", None, None), ("save", "b1.f90", BASE_B1_SIG)],
    "query_then_rename_parent_module": [("query", None, None), ("save", "sm1.f90", BASE_SM1_RENAMED)],
    "query_then_delete_include_file": [("query", None, None), ("delete", "inc.f90", None)],
    "disk_save_dependency_only": [("query", None, None), ("disk_save", "t.f90", BASE["t.f90"].replace("old_c", "new_c"))],
    "disk_save_twice": [("disk_save", "t.f90", BASE["t.f90"].replace("old_c", "mid_c")), ("query", None, None),
                        ("disk_save", "t.f90", BASE["t.f90"].replace("old_c", "new_c"))],
    "query_then_edit_grandparent_type": [("query", None, None),
                                         ("save", "g1.f90", BASE["g1.f90"].replace("integer :: alpha", "integer :: alpha2\n    integer :: extra")),
                                         ("save", "g3.f90", BASE["g3.f90"].replace("lv%alpha", "lv%alpha2"))],
    "edit_grandparent_only": [("save", "g1.f90", BASE["g1.f90"].replace("integer :: alpha", "integer :: alpha\n    integer :: extra"))],
    "duplicate_module_then_rename": [("create", "dup.f90", "module tmod\n  integer :: from_dup\nend module tmod\n"),
                                     ("save", "dup.f90", "module tmod_b\n  integer :: from_dup\nend module tmod_b\n")],
    "duplicate_module_then_delete": [("create", "dup.f90", "module g1m\n  integer :: from_dup\nend module g1m\n"),
                                     ("delete", "dup.f90", None)],
    "query_then_rename_submodule_prototype": [("query", None, None), ("save", "sp1.f90", BASE["sp1.f90"].replace("foo", "foo_other"))],
    "prototype_arguments_change_then_prototype_removed": [("save", "sm1.f90", BASE_SM1_ARGS), ("query", None, None),
                                                          ("save", "sm1.f90", BASE["sm1.f90"].replace("ms", "ms_other"))],
    "prototype_arguments_change_then_file_deleted": [("save", "sm1.f90", BASE_SM1_ARGS), ("query", None, None), ("delete", "sm1.f90", None)],
    "function_prototype_changes_then_removed": [("save", "sf1.f90", BASE_SF1_ARGS), ("query", None, None),
                                                ("save", "sf1.f90", BASE["sf1.f90"].replace("mf", "mf_other"))],
    "function_prototype_changes_and_back": [("save", "sf1.f90", BASE_SF1_ARGS), ("query", None, None), ("save", "sf1.f90", BASE["sf1.f90"])],
    "function_prototype_file_deleted": [("save", "sf1.f90", BASE_SF1_ARGS), ("query", None, None), ("delete", "sf1.f90", None)],
    "private_statement_on_included_entity_removed": [("query", None, None), ("save", "m2.f90", BASE["m2.f90"].replace("  private :: inc_priv\n", ""))],
    "private_statement_on_included_entity_moved": [("query", None, None),
                                                   ("save", "m2.f90", BASE["m2.f90"].replace("private :: inc_priv", "private :: inc_other"))],
    # typing: one-line edits that are undone again, the disk never changes, every document is saved at the end
    "typed_component_then_undone": [("query", None, None), ("edit", "t.f90", (2, 20, 20, ", extra")),
                                    ("edit", "u.f90", (3, 19, 19, "x")), ("edit", "u.f90", (3, 19, 20, "")),
                                    ("edit", "t.f90", (2, 20, 27, ""))],
    "typed_rename_then_undone": [("edit", "t.f90", (2, 15, 20, "zzz_c")), ("query", None, None), ("edit", "u.f90", (5, 2, 2, " ")),
                                 ("edit", "u.f90", (5, 2, 3, "")), ("edit", "t.f90", (2, 15, 20, "old_c"))],
    "passed_object_argument_renamed": [("query", None, None), ("save", "pa.f90", BASE["pa.f90"].replace("(a, b)", "(a, c)").replace(":: b", ":: c"))],
    "passed_object_argument_renamed_and_back": [("query", None, None), ("save", "pa.f90", BASE["pa.f90"].replace("(a, b)", "(c, a)").replace(":: b", ":: c")),
                                                ("save", "pa.f90", BASE["pa.f90"])],
    "query_then_edit": [("query", None, None), ("save", "t.f90", BASE["t.f90"].replace("old_c", "new_c")),
                        ("save", "u.f90", BASE["u.f90"].replace("old_c", "new_c")),
                        ("save", "p.f90", BASE["p.f90"].replace("old_c", "new_c"))],
}


def all_queries(srv, ws, files, parse_out, rw):
    """Deterministic battery of queries; returns {label: result}."""
    res = {}
    rid = [1000]

    def ask(method, params):
        rid[0] += 1
        srv.handle({"jsonrpc": "2.0", "id": rid[0], "method": method, "params": params})
        out = parse_out(rw.out)
        rw.out.clear()
        for m in out:
            if m.get("id") == rid[0]:
                return m.get("result", {"error": str(m.get("error", {}).get("message"))[:120]})
        return None

    def norm(x):
        s = json.dumps(x, sort_keys=True, default=str)
        return s.replace(ws.root, "<root>")

    res["workspace/symbol"] = norm(ask("workspace/symbol", {"query": ""}))
    for name in sorted(files):
        text = files[name]
        uri = ws.uri(name)
        res[f"{name}:symbols"] = norm(ask("textDocument/documentSymbol", {"textDocument": {"uri": uri}}))
        for ln, line in enumerate(text.split("\n")):
            for m in re.finditer(r"[A-Za-z_]\w*|%", line):
                pos = {"line": ln, "character": m.start() + 1}
                for meth in ("definition", "hover", "completion", "references"):
                    params = {"textDocument": {"uri": uri}, "position": pos}
                    if meth == "references":
                        params["context"] = {"includeDeclaration": True}
                    r = ask("textDocument/" + meth, params)
                    if meth == "completion" and isinstance(r, list):
                        r = sorted(str(i.get("label")) for i in r)
                    if meth == "references" and isinstance(r, list):
                        r = sorted(json.dumps(i, sort_keys=True) for i in r)
                    res[f"{name}:{ln}:{m.start()}:{meth}"] = norm(r)
    return res


def diagnostics_of(srv, ws, files, parse_out, rw):
    out = {}
    for name in sorted(files):
        uri = ws.uri(name)
        d, e = srv.get_diagnostics(uri)
        out[name] = json.dumps(d, sort_keys=True, default=str).replace(ws.root, "<root>") if e is None else f"error: {e!r}"
    return out


def run_history(hname, steps):
    from replay.harness import Workspace, make_server, parse_out
    from fortls.jsonrpc import path_to_uri
    ws = Workspace(dict(BASE))
    try:
        def start():
            srv, rw = make_server(("--max_line_length", "60", "--max_comment_line_length", "60", "--incremental_sync"))
            srv.nthreads = 1
            srv.handle({"jsonrpc": "2.0", "id": 0, "method": "initialize",
                        "params": {"rootUri": path_to_uri(ws.root), "rootPath": ws.root}})
            rw.out.clear()
            return srv, rw

        srv, rw = start()
        files = dict(BASE)
        closed = set()
        for name in sorted(files):
            srv.handle({"jsonrpc": "2.0", "method": "textDocument/didOpen", "params": {"textDocument": {"uri": ws.uri(name)}}})
        for op, name, text in steps:
            uri = ws.uri(name) if name else None
            if op == "query":
                all_queries(srv, ws, files, parse_out, rw)
            elif op == "save":
                ws.write(name, text)
                files[name] = text
                srv.handle({"jsonrpc": "2.0", "method": "textDocument/didChange",
                            "params": {"textDocument": {"uri": uri}, "contentChanges": [{"text": text}]}})
                srv.handle({"jsonrpc": "2.0", "method": "textDocument/didSave", "params": {"textDocument": {"uri": uri}}})
            elif op == "disk_save":
                # the file changes on disk (another tool) and the editor only sends didSave
                ws.write(name, text)
                files[name] = text
                srv.handle({"jsonrpc": "2.0", "method": "textDocument/didSave", "params": {"textDocument": {"uri": uri}}})
            elif op == "edit":
                # a ranged edit inside one line, as typing sends it (text = (line, from column, to column, inserted text));
                # the buffer then differs from the disk until a later edit undoes it
                ln, c0, c1, ins = text
                srv.handle({"jsonrpc": "2.0", "method": "textDocument/didChange",
                            "params": {"textDocument": {"uri": uri},
                                       "contentChanges": [{"range": {"start": {"line": ln, "character": c0}, "end": {"line": ln, "character": c1}}, "text": ins}]}})
            elif op == "change":
                srv.handle({"jsonrpc": "2.0", "method": "textDocument/didChange",
                            "params": {"textDocument": {"uri": uri}, "contentChanges": [{"text": text}]}})
            elif op == "close":
                # the editor closes the document; the file stays on disk (the fresh server does not open it either)
                closed.add(name)
                srv.handle({"jsonrpc": "2.0", "method": "textDocument/didClose", "params": {"textDocument": {"uri": uri}}})
            elif op == "open":
                closed.discard(name)
                srv.handle({"jsonrpc": "2.0", "method": "textDocument/didOpen", "params": {"textDocument": {"uri": uri}}})
            elif op == "delete":
                os.remove(ws.path(name))
                files.pop(name, None)
                srv.handle({"jsonrpc": "2.0", "method": "textDocument/didClose", "params": {"textDocument": {"uri": uri}}})
            elif op == "create":
                ws.write(name, text)
                files[name] = text
                srv.handle({"jsonrpc": "2.0", "method": "textDocument/didOpen", "params": {"textDocument": {"uri": uri}}})
        rw.out.clear()
        # every open document saved: one more save round so that every file has seen the final state of the others
        for name in sorted(files):
            if name not in closed:
                srv.handle({"jsonrpc": "2.0", "method": "textDocument/didSave", "params": {"textDocument": {"uri": ws.uri(name)}}})
        rw.out.clear()
        old_answers = all_queries(srv, ws, files, parse_out, rw)
        old_diag = diagnostics_of(srv, ws, files, parse_out, rw)
        old_state = {"include_dirs": sorted(d.replace(ws.root, "<root>") for d in srv.include_dirs),
                     "source_dirs": sorted(d.replace(ws.root, "<root>") for d in srv.source_dirs)}
        fresh, frw = start()
        for name in sorted(files):
            if name not in closed:
                fresh.handle({"jsonrpc": "2.0", "method": "textDocument/didOpen", "params": {"textDocument": {"uri": ws.uri(name)}}})
        frw.out.clear()
        new_answers = all_queries(fresh, ws, files, parse_out, frw)
        new_diag = diagnostics_of(fresh, ws, files, parse_out, frw)
        new_state = {"include_dirs": sorted(d.replace(ws.root, "<root>") for d in fresh.include_dirs),
                     "source_dirs": sorted(d.replace(ws.root, "<root>") for d in fresh.source_dirs)}
        for k in sorted(set(old_answers) | set(new_answers)):
            if old_answers.get(k) != new_answers.get(k):
                return {"history": hname, "steps": [(o, n) for o, n, _ in steps], "query": k,
                        "long_lived_server": (old_answers.get(k) or "")[:400], "fresh_server": (new_answers.get(k) or "")[:400]}
        for k in sorted(set(old_diag) | set(new_diag)):
            if old_diag.get(k) != new_diag.get(k):
                return {"history": hname, "steps": [(o, n) for o, n, _ in steps], "diagnostics_of": k,
                        "long_lived_server": old_diag.get(k, "")[:400], "fresh_server": new_diag.get(k, "")[:400]}
        if old_state != new_state:
            return {"history": hname, "steps": [(o, n) for o, n, _ in steps], "server_state": "search paths",
                    "long_lived_server": old_state, "fresh_server": new_state}
        return None
    finally:
        ws.close()


def run_all(only=None):
    n = 0
    for hname, steps in HISTORIES.items():
        if only and hname not in only:
            continue
        n += 1
        w = run_history(hname, steps)
        if w:
            return w, n
    return None, n
