"""Reference C preprocessor (conditional inclusion and object-like macro table, ISO C 6.10.1) and the generator
of directive skeletons used by the bounded stand-in of C08."""
from __future__ import annotations

import itertools
import random
import re

CONDS = ["defined(A)", "!defined(A)", "defined A || defined B", "(defined A || defined B)", "defined(A) && defined(B)",
         "A == 1", "B > 1", "!(defined(A) && defined(B))", "0", "1", "C", "defined(C) || (A == 1 && !defined(B))",
         "(defined(A))", "!defined (B)", "A != 1", "defined B",
         # && and || yield 0 or 1; integer arithmetic truncates towards zero
         "(2 && 4) == 1", "(0 || 3) == 1", "(defined(A) && B) == 1", "7/2 == 3", "-7/2 == -3", "-7%2 == -1", "B*3 - 1 >= 5",
         "(A + 1)/2 == 1"]


# ------------------------------------------------------------------ reference evaluator of #if expressions
def ref_eval(expr: str, table: dict) -> bool:
    toks = re.findall(r"defined|[A-Za-z_]\w*|\d+|&&|\|\||==|!=|<=|>=|[()!<>+\-*/%]", expr)
    pos = 0

    def peek():
        return toks[pos] if pos < len(toks) else None

    def take(t=None):
        nonlocal pos
        tok = toks[pos]
        if t is not None and tok != t:
            raise ValueError(f"expected {t}, got {tok}")
        pos += 1
        return tok

    def primary():
        t = peek()
        if t == "(":
            take("(")
            v = or_()
            take(")")
            return v
        if t == "!":
            take("!")
            return 0 if primary() else 1
        if t == "-":
            take("-")
            return -primary()
        if t == "+":
            take("+")
            return primary()
        if t == "defined":
            take()
            if peek() == "(":
                take("(")
                name = take()
                take(")")
            else:
                name = take()
            return 1 if name in table else 0
        if t is not None and t.isdigit():
            return int(take())
        name = take()
        val = table.get(name)
        if val is None:
            return 0
        try:
            return int(str(val))
        except ValueError:
            return 1 if str(val) == "True" else 0

    def cdiv(a, b):
        q = abs(a) // abs(b)
        return q if (a < 0) == (b < 0) else -q

    def mul_():
        v = primary()
        while peek() in ("*", "/", "%"):
            op = take()
            w = primary()
            v = v * w if op == "*" else (cdiv(v, w) if op == "/" else v - w * cdiv(v, w))
        return v

    def add_():
        v = mul_()
        while peek() in ("+", "-"):
            op = take()
            w = mul_()
            v = v + w if op == "+" else v - w
        return v

    def cmp_():
        v = add_()
        while peek() in ("==", "!=", "<", ">", "<=", ">="):
            op = take()
            w = add_()
            v = int({"==": v == w, "!=": v != w, "<": v < w, ">": v > w, "<=": v <= w, ">=": v >= w}[op])
        return v

    def and_():
        v = cmp_()
        while peek() == "&&":
            take()
            w = cmp_()
            v = int(bool(v) and bool(w))
        return v

    def or_():
        v = and_()
        while peek() == "||":
            take()
            w = and_()
            v = int(bool(v) or bool(w))
        return v

    v = or_()
    if pos != len(toks):
        raise ValueError("trailing tokens")
    return bool(v)


# ------------------------------------------------------------------ reference conditional inclusion
def reference(lines: list[str], initial: dict):
    """Returns (active: list[bool] per line for non-directive lines (None for directives), final macro table)."""
    table = dict(initial)
    stack = []  # frames [parent_active, taken, active]
    out = []
    for line in lines:
        s = line.strip()
        cur_active = all(f[2] for f in stack)
        m = re.match(r"#\s*(if(?=[ (!\t])|ifdef|ifndef|elif|else|endif|define|undef)\s*(.*)$", s)
        if not m:
            out.append(cur_active)
            continue
        kind, rest = m.group(1).strip(), m.group(2).strip()
        out.append(None)
        if kind != "define":
            # comments are removed before directives are read; the name of #ifdef/#ifndef/#undef is one identifier
            rest = re.sub(r"/\*.*?\*/|//.*$", " ", rest).strip()
            if kind in ("ifdef", "ifndef", "undef"):
                w_ = re.match(r"[A-Za-z_]\w*", rest)
                rest = w_.group(0) if w_ else rest
        if kind in ("if", "ifdef", "ifndef"):
            parent = cur_active
            if kind == "if":
                tv = ref_eval(rest, table) if parent else False
            elif kind == "ifdef":
                tv = rest in table
            else:
                tv = rest not in table
            stack.append([parent, bool(tv), parent and bool(tv)])
        elif kind == "elif":
            f = stack[-1]
            if f[0] and not f[1]:
                tv = ref_eval(rest, table)
                f[2] = bool(tv)
                f[1] = f[1] or bool(tv)
            else:
                f[2] = False
        elif kind == "else":
            f = stack[-1]
            f[2] = f[0] and not f[1]
            f[1] = True
        elif kind == "endif":
            stack.pop()
        elif kind == "define" and cur_active:
            parts = rest.split(None, 1)
            # a redefinition replaces the macro (a C preprocessor warns and uses the new body)
            table[parts[0]] = parts[1] if len(parts) > 1 else "True"
        elif kind == "undef" and cur_active:
            table.pop(rest, None)
    return out, table


# ------------------------------------------------------------------ skeleton generator
def gen_block(rnd, depth, budget):
    """Random balanced block of at most `budget[0]` directives."""
    lines = []
    n_items = rnd.randint(0, 3)
    for _ in range(n_items):
        if budget[0] <= 0:
            break
        r = rnd.random()
        if r < 0.3:
            lines.append(f"integer :: v{rnd.randint(0, 99)}")
        elif r < 0.45:
            budget[0] -= 1
            nm = rnd.choice("ABC")
            lines.append(rnd.choice([f"#define {nm} 1", f"#define {nm} 2", f"#define {nm}"]))
        elif r < 0.55:
            budget[0] -= 1
            lines.append(f"#undef {rnd.choice('ABC')}")
        elif depth > 0 and budget[0] >= 2:
            budget[0] -= 2
            k = rnd.random()
            if k < 0.5:
                c = rnd.choice(CONDS)
                lines.append(f"#if({c})" if rnd.random() < 0.2 else f"#if {c}")
            elif k < 0.75:
                lines.append(f"#ifdef {rnd.choice('ABC')}")
            else:
                lines.append(f"#ifndef {rnd.choice('ABC')}")
            lines += gen_block(rnd, depth - 1, budget)
            for _ in range(rnd.randint(0, 2)):
                if budget[0] <= 0:
                    break
                budget[0] -= 1
                lines.append(f"#elif {rnd.choice(CONDS)}")
                lines += gen_block(rnd, depth - 1, budget)
            if rnd.random() < 0.6 and budget[0] > 0:
                budget[0] -= 1
                lines.append("#else")
                lines += gen_block(rnd, depth - 1, budget)
            lines.append("#endif")
    lines.append(f"integer :: t{rnd.randint(0, 99)}")
    return lines


def respell(lines, rnd):
    """the same program with blanks and tabs where a C preprocessor allows them, and comments after the names and
    conditions of the conditional directives (macro bodies are left alone: a body is taken character for character)"""
    out = []
    for ln in lines:
        m = re.match(r"#(if(?=[ (])|ifdef|ifndef|elif|else|endif|define|undef)(.*)$", ln)
        if not m or rnd.random() < 0.5:
            out.append(ln)
            continue
        kind, rest = m.group(1), m.group(2)
        lead = rnd.choice(["", "", " ", "\t", "  "])
        if rest[:1] == " " and rnd.random() < 0.5:
            rest = rnd.choice(["\t", "  ", " \t"]) + rest[1:]
        if kind == "define":
            parts = rest.split(" ")
            if len(parts) == 3 and rnd.random() < 0.5:     # '', name, body
                rest = parts[0] + rest[:0] + rnd.choice([" ", "\t"]).join(["", parts[1], parts[2]])
        elif rnd.random() < 0.4:
            rest = rest + rnd.choice([" /* note */", " // note", "\t/* A B */", " /* defined(C) */"])
        out.append("#" + lead + kind + rest)
    return out


def small_exhaustive():
    """All single if-groups over the condition list x {elif none/one} x {else yes/no} with code in each branch."""
    for c1 in CONDS:
        for c2 in [None] + CONDS[:6]:
            for has_else in (False, True):
                lines = [f"#if({c1})" if (has_else and c2 is None) else f"#if {c1}", "integer :: a1"]
                if c2 is not None:
                    lines += [f"#elif {c2}", "integer :: a2"]
                if has_else:
                    lines += ["#else", "integer :: a3"]
                lines += ["#endif", "integer :: a4"]
                yield lines
    for n in "ABC":
        for kind in ("ifdef", "ifndef"):
            yield [f"#{kind} {n}", "integer :: b1", "#else", "integer :: b2", "#endif"]
            yield [f"#{kind} {n}", f"#define {n} 5", "#if A == 5", "integer :: b3", "#endif", "#else", f"#undef {n}", "#endif",
                   "integer :: b4"]


INITIALS = [{}, {"A": "1"}, {"B": "2"}, {"A": "1", "B": "2"}, {"A": "2", "C": "1"}]


def compare(lines, initial):
    """Run the real preprocess_file and the reference on the same input; return a mismatch description or None."""
    from fortls.parsers.internal.parser import preprocess_file
    out, skips, defines, table = preprocess_file(list(lines), pp_defs=dict(initial))
    ref_active, ref_table = reference(lines, initial)
    for k, act in enumerate(ref_active):
        if act is None:
            continue
        ln = k + 1
        skipped = any(a <= ln <= b for a, b in skips)
        if skipped == act:
            return {"lines": lines, "initial_defs": initial, "line": ln, "text": lines[k],
                    "reference_active": act, "fortls_skips": skips}
    got = {k: str(v) for k, v in table.items() if not isinstance(v, tuple)}
    want = {k: str(v) for k, v in ref_table.items()}
    if got != want:
        return {"lines": lines, "initial_defs": initial, "macro_table_reference": want, "macro_table_fortls": got}
    if len(out) != len(lines):
        return {"lines": lines, "initial_defs": initial, "problem": "output has a different number of lines",
                "output_lines": len(out)}
    return None


def compare_index(lines, initial):
    """Declarations on active lines are indexed, declarations on inactive lines are not (real FortranFile.parse)."""
    from fortls.parsers.internal.parser import FortranFile
    ref_active, _ = reference(lines, initial)
    f = FortranFile("/pyvc/skeleton.F90")
    f.set_contents(list(lines))
    a = f.parse(pp_defs=dict(initial), include_dirs=set())
    have = {(v.name.lower(), v.sline) for v in a.variable_list}
    for k, act in enumerate(ref_active):
        m = re.match(r"integer :: (\w+)$", lines[k])
        if act is None or not m:
            continue
        present = (m.group(1).lower(), k + 1) in have
        if present != act:
            return {"lines": lines, "initial_defs": initial, "line": k + 1, "declaration": lines[k],
                    "reference_active": act, "indexed": present}
    return None


def bounded_compare(tier: str, seed: int):
    n = 0
    for lines in small_exhaustive():
        for init in INITIALS:
            n += 1
            w = compare(lines, init)
            if w:
                return w, n
    rnd = random.Random(seed)
    for _ in range(6000 if tier == "thorough" else 1500):
        lines = gen_block(rnd, 3, [rnd.randint(2, 9)])
        init = rnd.choice(INITIALS)
        n += 1
        w = compare(lines, init)
        if w:
            return w, n
    rnd2 = random.Random(seed + 77)
    for _ in range(3000 if tier == "thorough" else 800):
        lines = respell(gen_block(rnd2, 3, [rnd2.randint(2, 9)]), rnd2)
        init = rnd2.choice(INITIALS)
        n += 1
        w = compare(lines, init)
        if w:
            w["spelling"] = "blanks, tabs and comments inside directives"
            return w, n
    return None, n


def exhaustive_skeletons(max_dir: int, max_depth: int):
    """Every well-formed conditional skeleton with at most max_dir directives and nesting at most max_depth, with
    every #if/#elif condition being literally 0 or 1 (so all truth assignments are covered); a code line follows
    every directive."""
    out = []

    def rec(seq, stack, n):
        # stack: list of 'seen_else' flags for the open groups
        if not stack and seq:
            out.append(list(seq))
        if n == max_dir:
            return
        if len(stack) < max_depth:
            for c in "01":
                rec(seq + ["#if " + c], stack + [False], n + 1)
        if stack:
            if not stack[-1]:
                for c in "01":
                    rec(seq + ["#elif " + c], stack, n + 1)
                rec(seq + ["#else"], stack[:-1] + [True], n + 1)
            rec(seq + ["#endif"], stack[:-1], n + 1)

    rec([], [], 0)
    res = []
    for seq in out:
        lines = ["integer :: c0"]
        for k, dline in enumerate(seq):
            lines.append(dline)
            lines.append(f"integer :: c{k + 1}")
        res.append(lines)
    return res


def exhaustive_compare(max_dir: int, max_depth: int):
    n = 0
    for lines in exhaustive_skeletons(max_dir, max_depth):
        n += 1
        w = compare(lines, {}) or compare_index(lines, {})
        if w:
            return w, n
    return None, n


# ------------------------------------------------------------------ macro substitution, character for character
# (bodies ending in a backslash are line continuations and are left out)
BODIES = ["1", "a\\qb", "x\\1y", "\\\\n", "'it''s'", '"q"', "a.*b", "$end", "(a+b)*c", "[0-9]+", "\\g<0>", "a|b", "{x}"]


def substitution_compare():
    """Returns {case label: (witness or None, number of inputs)}."""
    from fortls.parsers.internal.parser import preprocess_file
    res = {}

    def run(label, lines, want, defs=None):
        w, n = res.get(label, (None, 0))
        n += 1
        if w is None:
            try:
                out, _, _, _ = preprocess_file(list(lines), pp_defs=dict(defs or {}))
                if want is not None and out != want:
                    w = {"lines": lines, "expected_output": want, "fortls_output": out}
            except Exception as e:  # noqa: BLE001
                w = {"lines": lines, "pp_defs": defs, "exception": repr(e)}
        res[label] = (w, n)

    for body in BODIES:
        lines = [f"#define MAC {body}", "x = MAC + MACX + (MAC)", "call MAC"]
        run("object_like", lines, [lines[0], f"x = {body} + MACX + ({body})", f"call {body}"])
        lines = [f"#define FM(p, q) p {body} q", "y = FM(u,v)"]
        label = "function_like_param_in_literal" if re.search(r"\b[pq]\b", body) else "function_like"
        run(label, lines, [lines[0], f"y = u {body} v"])
    run("function_like_param_in_literal", ["#define FS(p) print *, 'p is', p", "FS(w)"],
        ["#define FS(p) print *, 'p is', p", "print *, 'p is', w"])
    for name, val in (("A+B", "7"), ("N", 3), ("X.Y", "z")):
        run("configured_names", [f"k = {name}"], None, {name: val})
    # calls: several per line, nested parentheses, argument order, arity, redefinition
    d = "#define F(a,b) a-b"
    for call, want in (("x = F(1,2) + F(3,4)", "x = 1-2 + 3-4"), ("y = F(g(1,2),3)", "y = g(1,2)-3"), ("z = F(b,a)", "z = b-a"),
                       ("w = F(1)", "w = F(1)"), ("v = F (s, t)*F(F(1,2),3)", None), ("u = F(h(1,(2,3)), k(4))", "u = h(1,(2,3))-k(4)"),
                       # white space around an argument is not part of it
                       ("t = F(1, 2)", "t = 1-2"), ("s = F( p , q )", "s = p-q"), ("r = F(g(1, 2) ,3)", "r = g(1, 2)-3")):
        if want is not None:
            run("function_like_calls", [d, call], [d, want])
    run("function_like_calls", ["#define E() 42", "q = E() + E()"], ["#define E() 42", "q = 42 + 42"])
    run("redefinition", ["#define F(x) x+1", "a = F(2)", "#undef F", "#define F(x) x*9", "b = F(2)"],
        ["#define F(x) x+1", "a = 2+1", "#undef F", "#define F(x) x*9", "b = 2*9"])
    run("redefinition", ["#define N 1", "i = N", "#define N 2", "j = N"], ["#define N 1", "i = 1", "#define N 2", "j = 2"])
    run("redefinition", ["#define F(x) x+1", "#define F(x) x-1", "c = F(5)"], ["#define F(x) x+1", "#define F(x) x-1", "c = 5-1"])
    run("redefinition", ["#define F(x) x+1", "c = F(5)", "#define F(x) x-1", "d = F(5)"], ["#define F(x) x+1", "c = 5+1", "#define F(x) x-1", "d = 5-1"])
    run("redefinition", ["#define N 1", "#undef N", "k = N"], ["#define N 1", "#undef N", "k = N"])
    # a macro redefined by an #include'd header: later uses take the new body (object-like and function-like, also #undef)
    from replay.harness import Workspace
    ws = Workspace({"inc.h": "#define F(x) x+2\n#define G 7\n#undef H\n"})
    try:
        lines = ["#define F(x) x+1", "#define G 5", "#define H(x) x*3", "a = F(1) + G + H(2)", '#include "inc.h"', "b = F(1) + G + H(2)"]
        w, n = res.get("redefinition_by_include", (None, 0))
        try:
            out, _, _, defs = preprocess_file(list(lines), file_path=ws.path("main.F90"), pp_defs={})
            want = lines[:3] + ["a = 1+1 + 5 + 2*3", lines[4], "b = 1+2 + 7 + H(2)"]
            if out != want:
                w = {"lines": lines, "inc.h": ["#define F(x) x+2", "#define G 7", "#undef H"], "expected_output": want, "fortls_output": out}
        except Exception as e:  # noqa: BLE001
            w = {"lines": lines, "exception": repr(e)}
        res["redefinition_by_include"] = (w, n + 1)
    finally:
        ws.close()
    # known findings of the pinned tree (kept separate so that each is identified by its own obligation)
    run("rescan_of_expansion", ["#define B 2", "#define A B", "x = A"], ["#define B 2", "#define A B", "x = 2"])
    run("object_like_in_character_literal", ["#define N 5", "print *, 'N is', N"], ["#define N 5", "print *, 'N is', 5"])
    return res
