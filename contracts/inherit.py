"""Contract on Type._resolve_inherit_parent, shared by C05 (definition through inherited components) and C12
(completion offers inherited members): after the call, the members the type inherits are exactly the members of its
parent — the parent's own and inherited ones, read after the parent itself has been resolved for this link version —
that the type does not declare itself, in the parent's order."""
from pyvc import smt
from pyvc.smt import And, Or, Not, Implies, Ite, Eq, IntVal, Len, Le, Lt, Add, Concat, At, Unit
from pyvc.types import *
from pyvc.contract import Contract, LoopSpec

TYPE = "fortls.parsers.internal.type.Type"
REFS = smt.SeqS("Ref")
STRS = smt.SeqS(smt.STR)


def lower_name(eng, c):
    d = eng.decls
    return d.fun("py_lower", [smt.STR], smt.STR)(d.fun("Obj.name", ["Ref"], smt.STR)(c))


def sp_own_names(eng, st, children):
    """[c.name.lower() for c in children] — the same uninterpreted map the engine uses for the comprehension"""
    return eng.map_term("child.name.lower()", "child", children, st)


def sp_resolved_members(eng, st, parent):
    """the parent's get_children() once the parent is resolved for the current link version"""
    d = eng.decls
    pt = d.opt_val(parent.t) if isinstance(parent.ty, TOpt) else parent.t
    return V(TSeq(TRef("Obj")), d.fun("Obj.members_resolved", ["Ref"], REFS)(pt))


def sp_inhfold(eng, st, members, names, k):
    """[m | m in members[:k], lower(m.name) not in names]"""
    d = eng.decls
    f = d.fun("inhfold", [REFS, STRS, smt.INT], REFS)
    cur = f(members.t, names.t, k.t)
    if "q_" not in k.t.s:
        d.ground_axiom("inhfold.base", Eq(f(members.t, names.t, IntVal(0)), smt.EmptySeq(REFS)))
        c = At(members.t, k.t)
        own = smt.Contains(names.t, Unit(lower_name(eng, c)))
        d.ground_axiom("inhfold.step", Implies(And(Le(IntVal(0), k.t), Lt(k.t, Len(members.t))),
                                               Eq(f(members.t, names.t, Add(k.t, IntVal(1))), Ite(own, cur, Concat(cur, Unit(c))))))
    return V(TSeq(TRef("Obj")), cur)


SPEC_ENV = {"own_names": sp_own_names, "resolved_members": sp_resolved_members, "inhfold": sp_inhfold}


def add(reg, prop):
    def m_resolve(eng, st, node, args, kwargs):
        # ghost typestate: the parent has been resolved for this link version
        st.env["#parent_resolved"] = V(BOOL, smt.TRUE)
        return NoneV()

    def m_members(eng, st, node, args, kwargs):
        d = eng.decls
        recv = eng.eval(node.func.value, st, False)
        pt = d.opt_val(recv.t) if isinstance(recv.ty, TOpt) else recv.t
        ok = st.env.get("#parent_resolved")
        name = "Obj.members_resolved" if ok is not None else "Obj.members_unresolved"
        return V(TSeq(TRef("Obj")), d.fun(name, ["Ref"], REFS)(pt))

    reg.add(Contract(
        f"{TYPE}._resolve_inherit_parent", prop=prop, receiver_cls="Type",
        params={"obj_tree": JSON, "inherit_version": INT},
        fields={"self.children": TSeq(TRef("Obj")), "self.in_children": TSeq(TRef("Obj")), "self.inherit_var": TOpt(TRef("Obj")),
                "self.inherit": TOpt(STR), "self.inherit_tmp": TOpt(STR)},
        ref_fields={("Obj", "name"): STR, ("Obj", "children"): TSeq(TRef("Obj")), ("Obj", "in_children"): TSeq(TRef("Obj"))},
        locals_={"child_names": TSeq(STR)},
        requires=[("has_parent", "self.inherit_var is not None")],
        ensures=[("inherited_members", "self.in_children == inhfold(resolved_members(self.inherit_var), own_names(self.children), "
                                       "len(resolved_members(self.inherit_var)))"),
                 ("inherit_restored", "self.inherit == old(self.inherit)"),
                 ("own_untouched", "self.children == old(self.children)")],
        calls={"self.inherit_var.resolve_inherit": m_resolve, "self.inherit_var.get_children": m_members},
        loops={0: LoopSpec("for child in self.inherit_var.get_children()", index="_k", invariants=[
            ("fold", "self.in_children == inhfold(resolved_members(self.inherit_var), child_names, _k)"),
            ("names", "child_names == own_names(self.children)")])},
        short="Type._resolve_inherit_parent"))
    return f"{TYPE}._resolve_inherit_parent"


CHAIN = {
    "base.f90": "module mg\n  type :: t_g\n    integer :: gcomp\n  contains\n    procedure :: gshow\n  end type t_g\ncontains\n"
                "  subroutine gshow(self)\n    class(t_g) :: self\n  end subroutine gshow\nend module mg\n",
    "mid.f90": "module mp\n  use mg\n  type, extends(t_g) :: t_p\n    integer :: pcomp\n  end type t_p\nend module mp\n",
    "leaf.f90": "module mc\n  use mp\n  type, extends(t_p) :: t_c\n    integer :: ccomp\n    integer :: pcomp_own\n  end type t_c\nend module mc\n",
    "over.f90": "module mo\n  use mp\n  type, extends(t_p) :: t_o\n    integer :: GCOMP\n  end type t_o\nend module mo\n",
}


def native_search():
    """Every link order of a three-level EXTENDS chain over separate files, with the real parser and resolve_links:
    the leaf type's members are its own plus everything its ancestors declare, minus what it overrides."""
    import itertools
    import os
    import shutil
    import tempfile
    from fortls.parsers.internal.parser import FortranFile
    base = os.environ.get("PYVC_SCRATCH", "/var/tmp/pyvc_scratch")
    os.makedirs(base, exist_ok=True)
    tmp = tempfile.mkdtemp(prefix="inh_", dir=base)
    try:
        for n, t in CHAIN.items():
            with open(os.path.join(tmp, n), "w") as f:
                f.write(t)
        for perm in itertools.permutations(sorted(CHAIN)):
            obj_tree, asts = {}, {}
            for n in CHAIN:
                ff = FortranFile(os.path.join(tmp, n))
                ff.load_from_disk()
                asts[n] = ff.parse()
                for key, obj in asts[n].global_dict.items():
                    obj_tree[key] = [obj, ff.path]
            for n in perm:
                asts[n].resolve_links(obj_tree, 1)
            for tname, want in (("mc::t_c", ["ccomp", "gcomp", "gshow", "pcomp", "pcomp_own"]), ("mp::t_p", ["gcomp", "gshow", "pcomp"]),
                                ("mo::t_o", ["gcomp", "gshow", "pcomp"])):
                mod, _, tn = tname.partition("::")
                t = [c for c in obj_tree[mod][0].children if c.name.lower() == tn][0]
                got = sorted(c.name.lower() for c in t.get_children())
                own_g = [c for c in t.get_children() if c.name.lower() == "gcomp"]
                if got != want or (tname == "mo::t_o" and own_g[0].file_ast.path != asts["over.f90"].path):
                    return {"files": CHAIN, "link_order": list(perm), "type": tname, "expected_members": want, "members": got}
        return None
    finally:
        shutil.rmtree(tmp, ignore_errors=True)


def add_resolve_inherit(reg, prop):
    """Type.resolve_inherit: with a new link version the inherited member list is rebuilt from the (resolved)
    parent, or emptied when there is no parent any more — whatever was cached before."""
    def m_find(eng, st, node, args, kwargs):
        return V(TOpt(TRef("Obj")), eng.decls.fresh("looked_up_parent", sort_of(TOpt(TRef("Obj")), eng.decls)))

    def m_links_back(eng, st, node, args, kwargs):
        return V(BOOL, eng.decls.fresh("links_back", smt.BOOL))

    def m_parent(eng, st, node, args, kwargs):
        st.env["rebuilt"] = V(BOOL, smt.TRUE)
        eng.heap_set(st, ("self", "in_children"), V(TSeq(TRef("Obj")), eng.decls.fresh("rebuilt_members", REFS)))
        return NoneV()
    m_parent.modifies = ["self.in_children", "self.inherit", "self.inherit_tmp"]

    reg.add(Contract(
        f"{TYPE}.resolve_inherit", prop=prop, receiver_cls="Type",
        params={"obj_tree": JSON, "inherit_version": INT, "rebuilt": BOOL},
        fields={"self.in_children": TSeq(TRef("Obj")), "self.inherit_var": TOpt(TRef("Obj")), "self.inherit": TOpt(STR),
                "self.inherit_version": INT, "self.parent": TOpt(TRef("Obj")), "self.inherit_tmp": TOpt(STR)},
        requires=[("ghost_init", "not rebuilt")],
        ensures=[("rebuilt_on_new_version", "implies(old(self.inherit) is not None and old(self.inherit_version) != inherit_version, "
                                            "rebuilt or len(self.in_children) == 0)"),
                 ("version_recorded", "implies(old(self.inherit) is not None, self.inherit_version == inherit_version)")],
        calls={"find_in_scope": m_find, "self.links_back": m_links_back, "self._resolve_inherit_parent": m_parent},
        short="Type.resolve_inherit"))
    return f"{TYPE}.resolve_inherit"
