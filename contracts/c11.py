"""C11 — hover and signature help restate the declaration and its documentation (narrow layer, DESIGN 3/C11).

VCs (mode F) on the real functions:
  * FortranAST.add_doc: an empty block changes nothing; a forward block ("!>") becomes the pending documentation and
    touches no entity; any other block is attached to the last declared entity and to no other;
  * FortranAST.add_variable / add_scope (mechanical slice from `self.last_obj = ...`): the pending documentation is
    consumed by exactly the entity being added, and nothing stays pending.
Structure: parse_docs flushes documentation that trails the previous entity before a "!>" block starts, get_docstring
ends a backward block at a "!>" line; serve_signature takes its argument list from get_paren_level (nested
parentheses removed) and marks the keyword's parameter, else the positional index.
Declaration-text equivalence (type, kind/len selector, attribute set, dimension, PARAMETER value), procedure hovers
and the active parameter are decided only on generated programs with a known ground truth (bounded).
"""
import ast

from pyvc import smt
from pyvc.smt import And, Or, Not, Implies, Ite, Eq, IntVal, StrVal, Len, Le, Lt, Ge, Gt, Add, Sub
from pyvc.types import *
from pyvc.contract import Contract, LoopSpec, Raises, FrameCall
from pyvc.results import Item

FAST = "fortls.parsers.internal.ast.FortranAST"
PARSER = "fortls.parsers.internal.parser.FortranFile"
LS = "fortls.langserver.LangServer"
DOCS = TMap(INT, STR)


def sp_upd(eng, st, m, k, v):
    d = eng.decls
    kt = d.opt_val(k.t) if isinstance(k.ty, TOpt) else k.t
    vt = d.opt_val(v.t) if isinstance(v.ty, TOpt) else v.t
    return V(DOCS, smt.Store(m.t, kt, d.some(vt)))


def sp_sval(eng, st, o):
    return V(STR, eng.decls.opt_val(o.t)) if isinstance(o.ty, TOpt) else o


SPEC_ENV = {"upd": sp_upd, "sval": sp_sval}
AXIOMS = {}


def build(reg):
    def m_obj_add_doc(eng, st, node, args, kwargs):
        d = eng.decls
        obj = eng.heap_get(st, ("self", "last_obj"))
        eng.may_raise(st, d.is_some(obj.t), "AttributeError", "self.last_obj.add_doc")
        doc = args[0]
        dt = d.opt_val(doc.t) if isinstance(doc.ty, TOpt) else doc.t
        cur = st.env["docs_of"]
        st.env["docs_of"] = V(DOCS, smt.Store(cur.t, d.opt_val(obj.t), d.some(dt)))
        return NoneV()
    m_obj_add_doc.modifies = []

    fields = {"self.pending_doc": TOpt(STR), "self.last_obj": TOpt(INT)}
    reg.add(Contract(
        f"{FAST}.add_doc", prop="C11", receiver_cls="FortranAST",
        params={"doc_string": STR, "forward": BOOL, "docs_of": DOCS}, fields=fields,
        ensures=[("empty_block_ignored", "implies(doc_string == '', self.pending_doc == old(self.pending_doc) and docs_of == old(docs_of))"),
                 ("forward_block_pending", "implies(doc_string != '' and forward, self.pending_doc == doc_string and docs_of == old(docs_of))"),
                 ("backward_block_on_last_entity", "implies(doc_string != '' and not forward and self.last_obj is not None, "
                                                   "docs_of == upd(old(docs_of), self.last_obj, doc_string) and self.pending_doc == old(self.pending_doc))"),
                 ("no_entity_yet", "implies(doc_string != '' and not forward and self.last_obj is None, "
                                   "docs_of == old(docs_of) and self.pending_doc == old(self.pending_doc))"),
                 ("last_entity_unchanged", "self.last_obj == old(self.last_obj)")],
        calls={"self.last_obj.add_doc": m_obj_add_doc},
        short="FortranAST.add_doc"))
    for fn, param in (("add_variable", "new_var"), ("add_scope", "new_scope")):
        reg.add(Contract(
            f"{FAST}.{fn}", prop="C11", receiver_cls="FortranAST",
            params={param: INT, "docs_of": DOCS}, fields=fields,
            ghost={"slice_from": f"self.last_obj = {param}"},
            ensures=[("pending_doc_consumed_by_this_entity", f"implies(old(self.pending_doc) is not None, "
                                                            f"docs_of == upd(old(docs_of), {param}, old(self.pending_doc)))"),
                     ("nothing_pending_nothing_attached", "implies(old(self.pending_doc) is None, docs_of == old(docs_of))"),
                     ("nothing_stays_pending", "self.pending_doc is None"),
                     ("is_last_entity", f"self.last_obj == {param}")],
            calls={"self.last_obj.add_doc": m_obj_add_doc},
            short=f"FortranAST.{fn}",
            note=f"mechanical slice: the statements of {fn} before `self.last_obj = {param}` (index bookkeeping) are dropped"))
    reg.add(Contract(
        "fortls.parsers.internal.base.FortranObj.add_doc", prop="C11", receiver_cls="FortranObj",
        params={"doc_str": STR}, fields={"self.doc_str": TOpt(STR)},
        ensures=[("first_block", "implies(old(self.doc_str) is None or old(self.doc_str) == '', self.doc_str == doc_str)"),
                 ("later_block_appended", "implies(old(self.doc_str) is not None and old(self.doc_str) != '', "
                                          "self.doc_str == sval(old(self.doc_str)) + '\\n' + doc_str)")],
        short="FortranObj.add_doc"))
    return reg


TARGETS = [f"{FAST}.add_doc", f"{FAST}.add_variable", f"{FAST}.add_scope", "fortls.parsers.internal.base.FortranObj.add_doc"]


def structure_items(repo):
    items = []
    from pyvc import shape
    pd = repo.func(f"{PARSER}.parse_docs")
    spd = shape.of(repo, f"{PARSER}.parse_docs")
    ok = (shape.has(spd, "if docs and doc_match.group(1) == '>':\n    add_line_comment(file_ast, docs)")
          and shape.before(spd, "add_line_comment(file_ast, docs)", "self.get_docstring(ln, line, doc_match, docs)")
          and shape.has(spd, "file_ast.add_doc(format(docs), forward=predocmark)"))
    items.append(Item("C11/FortranFile.parse_docs/ensures.trailing_doc_flushed_before_forward_block", "proved" if ok else "refuted",
                      "structural", 0.0, where=pd.where(), mode="table", func=pd.qualname,
                      detail="documentation trailing the previous entity is attached to it before a '!>' block starts; a block is "
                             "attached forward exactly when its first mark is '>'"))
    gd = repo.func(f"{PARSER}.get_docstring")
    sgd = shape.of(repo, f"{PARSER}.get_docstring")
    ok = (shape.has(sgd, "predocmark = True if match.group(1) == '>' else False")
          and shape.has(sgd, "not match or (not predocmark and match.group(1) == '>')"))
    items.append(Item("C11/FortranFile.get_docstring/ensures.backward_block_ends_at_forward_mark", "proved" if ok else "refuted",
                      "structural", 0.0, where=gd.where(), mode="table", func=gd.qualname,
                      detail="a block documenting the previous entity ends at the first '!>' line"))
    fs = repo.func(f"{LS}.serve_signature")
    sfs = shape.of(repo, f"{LS}.serve_signature")
    ok = (shape.has(sfs, "arg_string, sections = get_paren_level(strip_strings(line, True))") and shape.has(sfs, "arg_string.split(',')")
          and shape.has(sfs, "param_num = len(arg_strings) - 1") and shape.has(sfs, "opt_num = check_optional(arg_strings[-1], params)")
          and shape.has(sfs, "param_num = opt_num") and shape.has(sfs, "'activeParameter': param_num"))
    items.append(Item("C11/LangServer.serve_signature/ensures.active_parameter", "proved" if ok else "refuted", "structural", 0.0,
                      where=fs.where(), mode="table", func=fs.qualname,
                      detail="arguments are the comma-separated pieces of the list with character literals blanked and nested parentheses removed; the active "
                             "parameter is the one named by `keyword=` in the last piece, else the number of preceding pieces"))
    return items


def is_fresh(value, fresh):
    """the expression builds a new container on every evaluation"""
    if isinstance(value, (ast.Call, ast.List, ast.Dict, ast.Set, ast.ListComp, ast.DictComp, ast.SetComp)):
        return not (isinstance(value, ast.Call) and isinstance(value.func, ast.Attribute) and value.func.attr in ("get", "setdefault", "pop"))
    if isinstance(value, ast.Subscript) and isinstance(value.slice, ast.Slice):
        return True
    if isinstance(value, ast.BinOp) and isinstance(value.op, ast.Add):
        return True
    if isinstance(value, ast.Name):
        return value.id in fresh
    return False


def assigned_names(stmts, start=frozenset()):
    """names that, after the statement list, definitely hold a container created since `start` was taken (If: both
    branches; loops may run zero times; an assignment from a name keeps that name's status)"""
    cur = set(start)

    def assign(target, value):
        if isinstance(target, ast.Name):
            if value is not None and is_fresh(value, cur):
                cur.add(target.id)
            else:
                cur.discard(target.id)
        elif isinstance(target, (ast.Tuple, ast.List)):
            if isinstance(value, (ast.Tuple, ast.List)) and len(value.elts) == len(target.elts):
                for t, v in zip(target.elts, value.elts):
                    assign(t, v)
            else:
                for t in target.elts:
                    assign(t, value if isinstance(value, ast.Call) else None)
    for s_ in stmts:
        if isinstance(s_, ast.Assign):
            for t in s_.targets:
                assign(t, s_.value)
        elif isinstance(s_, ast.AnnAssign) and s_.value is not None:
            assign(s_.target, s_.value)
        elif isinstance(s_, ast.If):
            cur = assigned_names(s_.body, cur) & assigned_names(s_.orelse, cur)
        elif isinstance(s_, ast.With):
            cur = assigned_names(s_.body, cur)
        elif isinstance(s_, ast.Try):
            cur = assigned_names(s_.finalbody, cur)
    return cur


def ownership_items(repo):
    """Every entity built in a loop of FortranFile.parse owns its attribute containers: a list or dict argument of the
    constructor is (re)assigned inside the loop body on every path before the call.  (Variable.set_external_attr and
    friends mutate these lists in place, so a shared list would make one entity's attribute appear on the others.)"""
    fp = repo.func(f"{PARSER}.parse")
    bad, checked = [], 0
    CLASSES = {"Variable", "Method"}

    def visit(stmts, loop_assigned, in_loop):
        """walk a block; loop_assigned: names definitely assigned since the start of the innermost loop body"""
        cur = set(loop_assigned)
        for s_ in stmts:
            for n in ast.walk(s_) if not isinstance(s_, (ast.For, ast.While, ast.If, ast.With, ast.Try)) else []:
                if isinstance(n, ast.Call) and isinstance(n.func, ast.Name) and n.func.id in CLASSES and in_loop:
                    for a in list(n.args) + [k.value for k in n.keywords]:
                        if isinstance(a, ast.Name) and a.id in ("keywords", "keyword_info"):
                            nonlocal_checked.append(1)
                            if a.id not in cur:
                                bad.append({"constructor": n.func.id, "argument": a.id, "where": fp.where(n)})
            if isinstance(s_, (ast.For, ast.While)):
                visit(s_.body, set(), True)
                visit(s_.orelse, cur, in_loop)
            elif isinstance(s_, ast.If):
                visit(s_.body, cur, in_loop)
                visit(s_.orelse, cur, in_loop)
            elif isinstance(s_, ast.With):
                visit(s_.body, cur, in_loop)
            elif isinstance(s_, ast.Try):
                visit(s_.body, cur, in_loop)
                for h in s_.handlers:
                    visit(h.body, cur, in_loop)
            cur = assigned_names([s_], cur)
    nonlocal_checked = []
    visit(fp.node.body, set(), False)
    checked = len(nonlocal_checked)
    ok = checked > 0 and not bad
    return [Item("C11/FortranFile.parse/ownership.per_entity_attribute_containers", "proved" if ok else "refuted", "structural", 0.0,
                 where=fp.where(), mode="table", func=fp.qualname,
                 detail=f"{checked} keywords/keyword_info arguments of Variable/Method constructors inside loops: each holds a "
                        "container created in the loop body on every path before the call, so no two entities share an attribute list",
                 witness=None if ok else {"shared_arguments": bad[:4], "arguments_checked": checked})]


def carried_state_items(repo):
    """The entities of one declaration statement are processed independently: in the loop over obj_info.var_names every
    local that the loop body assigns is assigned in the same iteration before it is read (nothing computed for one
    entity is left over for the next)."""
    fp = repo.func(f"{PARSER}.parse")
    loops = [n for n in ast.walk(fp.node) if isinstance(n, ast.For) and ast.unparse(n.iter) == "obj_info.var_names"]
    bad = []
    checked = 0
    for loop in loops:
        written = {n.id for n in ast.walk(loop) if isinstance(n, ast.Name) and isinstance(n.ctx, ast.Store)}
        written |= {loop.target.id} if isinstance(loop.target, ast.Name) else set()
        # names bound by comprehensions are local to them
        for comp in [n for n in ast.walk(loop) if isinstance(n, (ast.ListComp, ast.SetComp, ast.DictComp, ast.GeneratorExp))]:
            for gen in comp.generators:
                written -= {n.id for n in ast.walk(gen.target) if isinstance(n, ast.Name)}

        def reads(node):
            return [n for n in ast.walk(node) if isinstance(n, ast.Name) and isinstance(n.ctx, ast.Load) and n.id in written]

        def targets(t):
            if isinstance(t, ast.Name):
                return {t.id}
            if isinstance(t, (ast.Tuple, ast.List)):
                return set().union(*[targets(e) for e in t.elts]) if t.elts else set()
            return set()

        def walk(stmts, assigned):
            nonlocal checked
            cur = set(assigned)
            for st_ in stmts:
                if isinstance(st_, ast.If):
                    for r_ in reads(st_.test):
                        checked += 1
                        if r_.id not in cur:
                            bad.append({"name": r_.id, "where": fp.where(r_)})
                    a = walk(st_.body, cur)
                    b = walk(st_.orelse, cur)
                    cur = a & b
                elif isinstance(st_, (ast.For, ast.While)):
                    walk(st_.body, cur)
                elif isinstance(st_, ast.Try):
                    walk(st_.body, cur)
                elif isinstance(st_, (ast.Continue, ast.Break, ast.Return)):
                    return set(written)  # the path leaves the iteration: nothing after it is constrained by it
                else:
                    val = getattr(st_, "value", None)
                    for r_ in (reads(val) if val is not None else reads(st_)):
                        checked += 1
                        if r_.id not in cur:
                            bad.append({"name": r_.id, "where": fp.where(r_)})
                    if isinstance(st_, ast.Assign):
                        for t in st_.targets:
                            cur |= targets(t)
                    elif isinstance(st_, ast.AnnAssign) and st_.value is not None:
                        cur |= targets(st_.target)
                    elif isinstance(st_, ast.AugAssign):
                        for r_ in reads(st_.target):
                            pass
            return cur
        start = {loop.target.id} if isinstance(loop.target, ast.Name) else set()
        walk(loop.body, start)
    ok = bool(loops) and checked > 0 and not bad
    return [Item("C11/FortranFile.parse/frame.entities_processed_independently", "proved" if ok else "refuted", "structural", 0.0,
                 where=fp.where(), mode="table", func=fp.qualname,
                 detail=f"{checked} reads of loop-assigned locals in the entity loop of a declaration statement: each is preceded, in "
                        "the same iteration and on every path, by an assignment (no value carried from one entity to the next)",
                 witness=None if ok else {"read_before_assigned_in_the_iteration": bad[:5], "loops_found": len(loops)})]


def extra(repo, reg, tier, seed):
    from contracts import c11_gen
    items = structure_items(repo) + ownership_items(repo) + carried_state_items(repo)
    w, n, nd, ns = c11_gen.run(tier, seed)
    it = Item("C11/session/generated_declaration_oracle", "refuted" if w else "bounded-ok", "native-run(bounded)", 0.0, mode="bounded",
              witness=w, confirmed=True if w else None, func=f"{LS}.serve_hover",
              detail=f"bounded: {n} generated modules, {nd} hovers on declared entities and procedures (type, kind/len selector, "
                     f"attribute set with arguments, dimension, PARAMETER value, own documentation block and no other, dummy "
                     f"arguments in order with their declarations) and {ns} signature-help positions in calls with nested "
                     "parentheses and keyword arguments (parameter list and active parameter)")
    it.count = nd + ns
    items.append(it)
    return items


def replay(obligation, model, rep):
    return {"confirmed": None}


def doc_small_scope():
    """The real add_doc / add_variable / add_scope documentation steps on every combination of pending/last state."""
    from fortls.parsers.internal.ast import FortranAST

    class O:
        def __init__(self, n):
            self.n, self.doc = n, None

        def add_doc(self, s):
            self.doc = s
    for pending in (None, "P"):
        for has_last in (False, True):
            for doc in ("", "D"):
                for forward in (False, True):
                    a = FortranAST.__new__(FortranAST)
                    last = O("last") if has_last else None
                    a.pending_doc, a.last_obj = pending, last
                    a.add_doc(doc, forward)
                    want_pending = doc if (doc and forward) else pending
                    want_last_doc = doc if (doc and not forward and has_last) else None
                    if a.pending_doc != want_pending or (has_last and last.doc != want_last_doc) or a.last_obj is not last:
                        return {"function": "FortranAST.add_doc", "doc_string": doc, "forward": forward, "pending_before": pending,
                                "has_last_entity": has_last, "pending_after": a.pending_doc, "last_entity_doc": getattr(last, "doc", None)}
    return None


def search(func, tier, seed, obligation=""):
    if func.endswith("add_doc"):
        return doc_small_scope()
    from contracts import c11_gen
    return c11_gen.run(tier, seed)[0]


TRUSTED = ["entities are integer identities in the VCs; `docs_of` is a ghost map from entity to the documentation it carries"]
ASSUMPTIONS = ["in the FortranAST contracts `docs_of[e]` is the block most recently attached to e; that earlier blocks of e are "
               "kept is FortranObj.add_doc's own contract"]
RESIDUAL = ("the regex pipeline that turns a declaration into (type, kind, attributes, dimension, value) and the hover renderers "
            "have no specification short of a Fortran declaration grammar: decided on generated declarations only (bounded)")
