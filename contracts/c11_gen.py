"""Bounded stand-in of C11: declarations generated from a grammar with a known ground truth (type, kind/len
selector, attribute set with arguments, name, PARAMETER value, documentation block), procedures with dummy
arguments, and calls with nested parentheses and keyword arguments; hover and signature help of a real server are
parsed back and compared."""
from __future__ import annotations

import random
import re


def norm(s: str) -> str:
    return re.sub(r"\s+", "", s).lower()


class Gen:
    def __init__(self, rnd: random.Random):
        self.r = rnd
        self.uid = 0
        self.lines: list[str] = []
        self.decls: list[dict] = []   # name, line0, type, selector, attrs(set of normalised), dim, value, doc
        self.procs: list[dict] = []
        self.calls: list[dict] = []
        self._dummy = False
        self.compar: set[str] = set()
        self.bound: list[dict] = []   # type-bound procedures: binding name, line, expected head of the hover
        self.nondocs: list[str] = []  # '!!' comments that trail executable statements: documentation of nothing
        self.r2 = random.Random(hash(rnd.getstate()))  # choices added later: earlier programs keep their shape

    def nm(self, pre):
        self.uid += 1
        return f"{pre}{self.uid}"

    def kw(self, s):
        c = self.r.random()
        return s.upper() if c < 0.25 else (s.capitalize() if c < 0.35 else s)

    def type_spec(self, allow_char=True, derived=None):
        """returns (source text, canonical type word, canonical selector text or '')"""
        r = self.r
        c = r.random()
        if derived and c < 0.15:
            word = "class" if (self._dummy and r.random() < 0.5) else "type"
            return f"{self.kw(word)}({derived})", word, norm(derived)
        if allow_char and c < 0.35:
            sel = r.choice(["(len=10)", "(10)", "*12", "(len=*)", "(len=3, kind=1)", "(kind=1, len=4)", "", "(len=2*3)", "(len=max(2,3))"])
            return self.kw("character") + sel, "character", norm(sel)
        base = r.choice(["integer", "real", "logical", "complex", "double precision"])
        if base == "double precision":
            return self.kw(base), "doubleprecision", ""
        sel = r.choice(["", "", "(kind=8)", "(8)", "*8", "(kind=selected_int_kind(9))", "(kind=kind(1.0d0))", "( kind = 4 )"]) \
            if base != "logical" else r.choice(["", "(kind=4)", "(4)"])
        if base == "complex" and sel == "*8":
            sel = "*16"
        return self.kw(base) + sel, base, norm(sel)

    def value_for(self, tword):
        r = self.r
        if tword == "character":
            v = r.choice(['"abc"', "'x,y'", '"a(b"', "'it''s'", '"p" // "q"'])
            # an exclamation mark inside the literal does not start a comment
            return self.r2.choice(['"wow!"', "'a!b, c'", '"!"', '"a::b"', "'::'"]) if self.r2.random() < 0.3 else v
        if tword == "logical":
            return r.choice([".true.", ".false.", ".not. .true."])
        if tword == "complex":
            return r.choice(["(1.0, 2.0)", "cmplx(1, 2)"])
        if tword in ("real", "doubleprecision"):
            return r.choice(["1.5", "2.0d0", "1.0e-3", "max(1.0, 2.0)", "3.0 * 2"])
        return r.choice(["5", "2**3", "max(1, 2)", "10_8", "-4", "huge(1)"])

    def declaration(self, indent, dummy_names=None, derived=None, in_proc=False):
        """one declaration statement with 1-2 entities; returns list of decl dicts"""
        r = self.r
        pad = " " * indent
        is_dummy = bool(dummy_names)
        self._dummy = is_dummy
        src_t, tword, sel = self.type_spec(derived=derived)
        attrs_src, attrs = [], set()
        pool = []
        if is_dummy:
            pool += [("intent(in)", "intent(in)"), ("intent(out)", "intent(out)"), ("intent(inout)", "intent(inout)"), ("intent( in )", "intent(in)"),
                     ("intent(in out)", "intent(inout)")]
        param = (not is_dummy) and tword not in ("type", "class") and r.random() < 0.3
        deferred = False
        if param:
            attrs_src.append(self.kw("parameter"))
            attrs.add("parameter")
        else:
            if is_dummy:
                a = r.choice(pool)
                attrs_src.append(self.kw(a[0]))
                attrs.add(a[1])
                if r.random() < 0.3:
                    attrs_src.append(self.kw("optional"))
                    attrs.add("optional")
                if r.random() < 0.15 and a[1] == "intent(in)" and tword != "character":
                    attrs_src.append(self.kw("value"))
                    attrs.add("value")
            else:
                for a in r.sample(["save", "target", "allocatable", "pointer", "protected", "volatile"], r.randint(0, 2)):
                    if a == "pointer" and "allocatable" in attrs or a == "allocatable" and "pointer" in attrs:
                        continue
                    if a == "target" and "pointer" in attrs or a == "pointer" and "target" in attrs:
                        continue
                    if a == "protected" and in_proc:
                        continue
                    attrs_src.append(self.kw(a))
                    attrs.add(a)
                deferred = "allocatable" in attrs or "pointer" in attrs
        dim_attr = None
        if r.random() < 0.35:
            if deferred:
                dim_attr = r.choice(["(:)", "(:,:)"])
            elif is_dummy:
                dim_attr = r.choice(["(:)", "(3)", "(n1, *)", "(0:)"]) if "value" not in attrs else None
            else:
                dim_attr = r.choice(["(3)", "(2,3)", "(0:4)", "(2, 3)", "(size(base_arr))"])
            if dim_attr:
                attrs_src.append(self.kw("dimension") + dim_attr)
        elif deferred and tword != "character":
            pass
        r.shuffle(attrs_src)
        if not is_dummy and not param and self.r2.random() < 0.2:
            # an attribute the parser does not model, anywhere in the list: the others must survive it
            attrs_src.insert(self.r2.randint(0, len(attrs_src)), self.r2.choice(["codimension[*]", "bind(c)", "BIND(C, name='b_1')"]))
        names = dummy_names or [self.nm("d") for _ in range(r.randint(1, 2))]
        ents, out = [], []
        for n in names:
            ent = n
            dim = dim_attr
            esel = sel
            if not deferred and not is_dummy and r.random() < 0.25 and (dim_attr is None or not dim_attr.startswith("(:")):
                # the entity's own array-spec overrides the DIMENSION attribute
                dim = r.choice(["(4)", "(2,2)"])
                ent += dim
            if tword == "character" and not is_dummy and not deferred and r.random() < 0.2 and "kind" not in sel and ":" not in sel:
                # the entity's own length overrides the type-spec's
                clen = r.choice(["*7", "*(5)"])
                ent += clen
                esel = norm(clen)
            val = None
            if param:
                val = self.value_for(tword)
                if dim:
                    val = "[" + val + ", " + self.value_for(tword) + "]" if r.random() < 0.5 else "(/ " + val + " /)"
                ent += " = " + val
            ents.append(ent)
            out.append({"name": n, "type": tword, "selector": esel, "attrs": set(attrs), "dim": norm(dim) if dim else None,
                        "value": val, "doc": None})
        sep = ", " if attrs_src else ""
        stmt = f"{pad}{src_t}{sep}{', '.join(attrs_src)} :: {', '.join(ents)}"
        if param and dim_attr:
            stmt = f"{pad}{src_t}{sep}{', '.join(attrs_src)} :: {', '.join(ents)}"
        # documentation placement
        # which entity of a multi-entity statement a block documents is not settled by FORD/Doxygen: only
        # single-entity statements carry documentation
        mode = r.random() if len(names) == 1 else 1.0
        doc = None
        if mode < 0.25:
            doc = f"doc text {self.nm('k')} before"
            self.lines.append(f"{pad}!> {doc}")
            self.lines.append(stmt)
        elif mode < 0.45:
            doc = f"doc text {self.nm('k')} trailing"
            self.lines.append(f"{stmt} !< {doc}")
        elif mode < 0.6:
            doc = f"doc text {self.nm('k')} after"
            self.lines.append(stmt)
            self.lines.append(f"{pad}!! {doc}")
        elif mode < 0.7:
            doc = f"doc text {self.nm('k')} before"
            doc2 = f"doc text {self.nm('k')} after"
            self.lines.append(f"{pad}!> {doc}")
            self.lines.append(stmt)
            self.lines.append(f"{pad}!! {doc2}")
        else:
            self.lines.append(stmt)
        line0 = len(self.lines) - 1 - (1 if (0.45 <= mode < 0.7) else 0)
        for d in out:
            d["line"] = line0
            d["doc"] = doc
            d["doc2"] = doc2 if 0.6 <= mode < 0.7 else None
        # a plain comment or blank line separates documentation from the next entity
        if r.random() < 0.3:
            self.lines.append(r.choice(["", f"{pad}! plain comment"]))
        return out

    def procedure(self, derived):
        r = self.r
        fun = r.random() < 0.4
        name = self.nm("fn" if fun else "sb")
        args = [self.nm("a") for _ in range(r.randint(1, 4))]
        pdoc = None
        if r.random() < 0.5:
            pdoc = f"doc text {self.nm('k')} of procedure"
            self.lines.append(f"  !> {pdoc}")
        head = f"  {self.kw('function' if fun else 'subroutine')} {name}({', '.join(args)})"
        res = None
        if fun:
            res = name + "_r"
            head += f" {self.kw('result')}({res})"
        self.lines.append(head)
        line0 = len(self.lines) - 1
        self.lines.append("    integer :: n1")
        order = list(args)
        r.shuffle(order)
        adecl = {}
        for a in order:
            for d in self.declaration(4, dummy_names=[a], derived=derived, in_proc=True):
                adecl[a] = d
        if fun:
            self.lines.append(f"    integer :: {res}")
            self.lines.append(f"    {res} = 1")
        for _ in range(r.randint(0, 2)):
            self.decls += self.declaration(4, derived=derived, in_proc=True)
        if self.r2.random() < 0.5:
            nd = f"doc text {self.nm('k')} trailing an executable statement"
            self.nondocs.append(nd)
            self.lines.append(f"    n1 = 1 {self.r2.choice(['!!', '!<'])} {nd}")
        if r.random() < 0.5:
            # the FORTRAN 77 idiom: several entities in one type statement, one of them made EXTERNAL afterwards
            e = [self.nm("e") for _ in range(r.randint(2, 3))]
            self.lines.append(f"    {self.kw('real')} :: {', '.join(e)}")
            ln = len(self.lines) - 1
            # documentation around the EXTERNAL statement belongs to the entity it completes
            edoc = None
            emode = self.r2.random()
            if emode < 0.3:
                edoc = f"doc text {self.nm('k')} before external"
                self.lines.append(f"    !> {edoc}")
                self.lines.append(f"    {self.kw('external')} {e[0]}")
            elif emode < 0.5:
                edoc = f"doc text {self.nm('k')} trailing external"
                self.lines.append(f"    {self.kw('external')} {e[0]} !< {edoc}")
            else:
                self.lines.append(f"    {self.kw('external')} {e[0]}")
            for i, n in enumerate(e):
                self.decls.append({"name": n, "type": "real", "selector": "", "attrs": {"external"} if i == 0 else set(),
                                   "dim": None, "value": None, "doc": edoc if i == 0 else None, "line": ln})
        self.lines.append(f"  {self.kw('end')} {self.kw('function' if fun else 'subroutine')} {name}")
        self.decls += list(adecl.values())
        self.procs.append({"name": name, "line": line0, "args": args, "arg_decls": adecl, "fun": fun, "doc": pdoc,
                           "optional": [a for a in args if "optional" in adecl[a]["attrs"]]})

    def call_site(self, p):
        """a call with nested parentheses and keyword arguments; records cursor positions with the expected parameter"""
        r = self.r
        args = p["args"]
        n_pos = r.randint(0, len(args))
        texts, expect = [], []
        for i, a in enumerate(args):
            nested = r.choice(["q(1)", "q(fx(1, 2))", "3", "w(2, 3)", "(1 + 2)", "q(1:2)", "'x,y'", '"a(b,"', "len('p,q')"])
            if i < n_pos:
                if len(args) > 1 and self.r2.random() < 0.25:
                    # a comparison whose left operand is spelled like another dummy argument is not keyword=value
                    other = self.r2.choice([x for x in args if x != a])
                    nested = other + self.r2.choice([" == 1", "==1", " /= 2", " >= 1", " <= q(1)"])
                    self.compar.add(nested)
                texts.append(nested)
            else:
                texts.append(f"{a}={nested}" if r.random() < 0.5 else f"{a} = {nested}")
            expect.append(i)
        # keyword arguments may come in any order
        kw_part = list(zip(texts[n_pos:], expect[n_pos:]))
        r.shuffle(kw_part)
        texts = texts[:n_pos] + [t for t, _ in kw_part]
        expect = expect[:n_pos] + [e for _, e in kw_part]
        pre = f"    call {p['name']}(" if not p["fun"] else f"    n1 = {p['name']}("
        line = pre
        positions = []
        for k, (t, e) in enumerate(zip(texts, expect)):
            if k:
                line += ", "
            start = len(line)
            line += t
            # cursor positions at depth 1 of this call: the end of the argument text, and right after `name=`
            positions.append((len(line), e))
            if t in self.compar:
                pass
            elif "=" in t and not t.startswith("("):
                eq = start + t.index("=") + 1
                positions.append((eq, e))
            elif t[0].isalnum():
                positions.append((start + 1, e))
        line += ")"
        self.lines.append(line)
        self.calls.append({"line": len(self.lines) - 1, "proc": p, "positions": positions})

    def generate(self):
        L = self.lines
        L.append("module gmod")
        L.append("  implicit none")
        L.append("  type :: gt")
        L.append("    integer :: gc")
        L.append("  end type gt")
        L.append("  integer :: base_arr(5)")
        for _ in range(self.r.randint(3, 6)):
            self.decls += self.declaration(2, derived="gt")
        if self.r2.random() < 0.6:
            # two statements on one line: the documentation trailing the line belongs to the last of them
            a, b = self.nm("d"), self.nm("d")
            doc = f"doc text {self.nm('k')} trailing two statements"
            if self.r2.random() < 0.5:
                # the first statement keeps the text of its character literal
                val = self.r2.choice(['"p;q"', "'a!b'", '"xyz"', "'it''s; ok'"])
                L.append(f"  character(len=9), parameter :: {a} = {val}; real :: {b} {self.r2.choice(['!!', '!<'])} {doc}")
                first = (a, "character", "(len=9)", {"parameter"}, val)
            else:
                L.append(f"  integer :: {a}; real :: {b} {self.r2.choice(['!!', '!<'])} {doc}")
                first = (a, "integer", "", set(), None)
            for n, t, sel, at, vl, dc in (first + (None,), (b, "real", "", set(), None, doc)):
                self.decls.append({"name": n, "type": t, "selector": sel, "attrs": at, "dim": None, "value": vl, "doc": dc,
                                   "doc2": None, "line": len(L) - 1})
        L.append("contains")
        L.append("  integer function fx(i, j)")
        L.append("    integer, intent(in) :: i, j")
        L.append("    fx = i + j")
        L.append("  end function fx")
        for _ in range(self.r.randint(1, 3)):
            self.procedure("gt")
        if self.r2.random() < 0.6:
            # a binding whose target's name is part of the keyword before it (FUNCTION f, SUBROUTINE sub)
            fun = self.r2.random() < 0.5
            tgt = self.r2.choice(["F", "U", "T", "C", "FUN", "f"] if fun else ["S", "U", "B", "SUB", "E", "s"])
            bnd = self.nm("bind")
            extra = [self.nm("a") for _ in range(self.r2.randint(0, 2))]
            ins = L.index("  end type gt")
            L.insert(ins, "  contains")
            L.insert(ins + 1, f"    procedure :: {bnd} => {tgt}")
            for rec in self.decls + self.procs:
                if rec["line"] >= ins:
                    rec["line"] += 2
            kwd = self.kw("function" if fun else "subroutine")
            L.append(f"  {kwd} {tgt}({', '.join(['self'] + extra)})" + (f" {self.kw('result')}(tr)" if fun else ""))
            L.append("    class(gt), intent(in) :: self")
            for x in extra:
                L.append(f"    integer, intent(in) :: {x}")
            if fun:
                L.append("    integer :: tr")
                L.append("    tr = 1")
            L.append(f"  {self.kw('end')} {kwd} {tgt}")
            self.bound.append({"name": bnd, "line": ins + 1,
                               "head": ("function" if fun else "subroutine") + bnd + "(" + ",".join(extra) + ")" + ("result(tr)" if fun else "")})
        L.append("  subroutine caller()")
        L.append("    integer :: q(5), w(3, 3), n1")
        for p in self.procs:
            for _ in range(2):
                self.call_site(p)
        L.append("  end subroutine caller")
        L.append("end module gmod")
        return "\n".join(L) + "\n"


ATTR_WORDS = ["parameter", "save", "target", "allocatable", "pointer", "protected", "volatile", "optional", "value", "contiguous",
              "intent(in)", "intent(out)", "intent(inout)"]


def parse_hover_decl(text: str):
    """'TYPE(sel), ATTR, DIMENSION(..) :: name = value' -> dict (normalised)"""
    m = re.match(r"\s*(.*?)\s*::\s*(\w+)\s*(?:=\s*(.*))?$", text)
    if not m:
        return None
    left, name, val = m.group(1), m.group(2), m.group(3)
    # split left at top-level commas
    parts, depth, cur = [], 0, ""
    for ch in left:
        if ch in "([":
            depth += 1
        elif ch in ")]":
            depth -= 1
        if ch == "," and depth == 0:
            parts.append(cur)
            cur = ""
        else:
            cur += ch
    parts.append(cur)
    tpart = norm(parts[0])
    mt = re.match(r"(doubleprecision|integer|real|logical|complex|character|type|class)(.*)$", tpart)
    if not mt:
        return None
    tword, sel = mt.group(1), mt.group(2)
    if tword in ("type", "class"):
        sel = sel.strip("()")
    attrs, dim = set(), None
    for a in parts[1:]:
        a = norm(a)
        if a.startswith("dimension"):
            if dim is not None:
                attrs.add("dimension-given-twice")
            dim = a[len("dimension"):]
        elif a:
            if a in attrs:
                attrs.add(a + "-given-twice")
            attrs.add(a)
    return {"name": name.lower(), "type": tword, "selector": sel, "attrs": attrs, "dim": dim, "value": val}


def check(text, g: Gen):
    from replay.harness import Workspace, session
    ws = Workspace({"g.f90": text})
    try:
        uri = ws.uri("g.f90")
        lines = text.split("\n")
        msgs = [{"jsonrpc": "2.0", "method": "textDocument/didOpen", "params": {"textDocument": {"uri": uri}}}]
        rid = 100
        hov, phov, sig = {}, {}, {}
        for d in g.decls:
            ln = lines[d["line"]]
            m = re.search(r"::.*?\b(%s)\b" % re.escape(d["name"]), ln)
            col = m.start(1) + 1
            rid += 1
            hov[rid] = d
            msgs.append({"jsonrpc": "2.0", "id": rid, "method": "textDocument/hover",
                         "params": {"textDocument": {"uri": uri}, "position": {"line": d["line"], "character": col}}})
        for p in g.procs:
            col = lines[p["line"]].index(p["name"]) + 1
            rid += 1
            phov[rid] = p
            msgs.append({"jsonrpc": "2.0", "id": rid, "method": "textDocument/hover",
                         "params": {"textDocument": {"uri": uri}, "position": {"line": p["line"], "character": col}}})
        bhov = {}
        for b in g.bound:
            rid += 1
            bhov[rid] = b
            msgs.append({"jsonrpc": "2.0", "id": rid, "method": "textDocument/hover",
                         "params": {"textDocument": {"uri": uri}, "position": {"line": b["line"], "character": lines[b["line"]].index(b["name"]) + 1}}})
        for c in g.calls:
            for ch, e in c["positions"]:
                rid += 1
                sig[rid] = (c, ch, e)
                msgs.append({"jsonrpc": "2.0", "id": rid, "method": "textDocument/signatureHelp",
                             "params": {"textDocument": {"uri": uri}, "position": {"line": c["line"], "character": ch}}})
        srv, out = session(ws, msgs)
        by = {m["id"]: m for m in out if "id" in m}
        all_docs = set(g.nondocs) | {d["doc"] for d in g.decls if d["doc"]} | {p["doc"] for p in g.procs if p["doc"]} | {d["doc2"] for d in g.decls if d.get("doc2")}
        for k, d in hov.items():
            r = by.get(k, {})
            res = r.get("result")
            src = lines[d["line"]]
            if "error" in r or not res:
                return {"problem": "no hover for a declared entity", "entity": d["name"], "source": src, "response": r.get("error")}
            val = res["contents"]["value"]
            body = val.split("```")[1].split("\n", 1)[1].strip() if "```" in val else val
            got = parse_hover_decl(body.split("\n")[0])
            if got is None:
                return {"problem": "hover is not a declaration", "entity": d["name"], "source": src, "hover": val}
            want_attrs = set(d["attrs"])
            why = None
            if got["name"] != d["name"].lower():
                why = "name"
            elif got["type"] != d["type"]:
                why = "type"
            elif got["selector"] != d["selector"]:
                why = "kind/length selector"
            elif got["attrs"] != want_attrs:
                why = "attribute set"
            elif (got["dim"] or None) != (d["dim"] or None):
                why = "dimension"
            elif d["value"] is not None and norm(got["value"] or "") != norm(d["value"]):
                why = "PARAMETER value"
            if why:
                return {"problem": f"hover differs from the source declaration in its {why}", "entity": d["name"], "source": src.strip(),
                        "hover_declaration": body.split("\n")[0], "expected": {k2: (sorted(v) if isinstance(v, set) else v) for k2, v in d.items() if k2 not in ("line",)}}
            docs_in = {x for x in all_docs if x in val}
            want_docs = ({d["doc"]} if d["doc"] else set()) | ({d["doc2"]} if d.get("doc2") else set())
            if docs_in != want_docs:
                return {"problem": "documentation shown for the entity is not exactly its own block", "entity": d["name"],
                        "source_line": src.strip(), "context": lines[max(0, d["line"] - 2): d["line"] + 3],
                        "expected_doc": d["doc"], "docs_found_in_hover": sorted(docs_in)}
        for k, p in phov.items():
            r = by.get(k, {})
            res = r.get("result")
            if "error" in r or not res:
                return {"problem": "no hover for a procedure", "procedure": p["name"], "response": r.get("error")}
            val = res["contents"]["value"]
            code = val.split("```")[1].split("\n", 1)[1] if "```" in val else val
            cl = [x for x in code.split("\n") if x.strip()]
            head = norm(cl[0])
            arg_list = re.search(r"\((.*?)\)", cl[0]).group(1) if "(" in cl[0] else ""
            got_args = [a.split("=")[0].strip().lower() for a in arg_list.split(",") if a.strip()]
            if got_args != [a.lower() for a in p["args"]] or p["name"].lower() not in head:
                return {"problem": "procedure hover does not list the dummy arguments in declared order", "procedure": p["name"],
                        "expected_arguments": p["args"], "hover": val}
            docs_in = {x for x in all_docs if x in val}
            allowed = {p["arg_decls"][a]["doc"] for a in p["args"] if p["arg_decls"][a]["doc"]} | \
                {p["arg_decls"][a].get("doc2") for a in p["args"] if p["arg_decls"][a].get("doc2")}
            if (p["doc"] and p["doc"] not in docs_in) or (docs_in - allowed - {p["doc"]}):
                return {"problem": "documentation shown for the procedure is not its own block (plus its arguments')",
                        "procedure": p["name"], "expected_doc": p["doc"], "docs_found_in_hover": sorted(docs_in),
                        "context": lines[max(0, p["line"] - 2): p["line"] + 2]}
            decl_lines = [parse_hover_decl(x) for x in cl[1:]]
            decl_lines = [x for x in decl_lines if x]
            for i, a in enumerate(p["args"]):
                if i >= len(decl_lines) or decl_lines[i]["name"] != a.lower():
                    return {"problem": "procedure hover does not give each dummy argument its own declaration in order",
                            "procedure": p["name"], "argument": a, "hover": val}
                d = p["arg_decls"][a]
                g_ = decl_lines[i]
                if (g_["type"], g_["selector"], g_["attrs"], g_["dim"] or None) != (d["type"], d["selector"], set(d["attrs"]), d["dim"] or None):
                    return {"problem": "declaration of a dummy argument inside the procedure hover differs from its source",
                            "procedure": p["name"], "argument": a, "hover_line": cl[1 + i],
                            "expected": {k2: (sorted(v) if isinstance(v, set) else v) for k2, v in d.items() if k2 != "line"}}
        for k, b in bhov.items():
            r = by.get(k, {})
            res = r.get("result")
            val = res["contents"]["value"] if res else ""
            code = val.split("```")[1].split("\n", 1)[1] if "```" in val else val
            cl = [x for x in code.split("\n") if x.strip()]
            if "error" in r or not cl or norm(cl[0]) != b["head"]:
                return {"problem": "hover of a type-bound procedure is not the target's interface under the binding's name "
                                   "without the passed-object argument", "binding": lines[b["line"]].strip(),
                        "expected_first_line": b["head"], "hover": val, "response": r.get("error")}
        for k, (c, ch, e) in sig.items():
            r = by.get(k, {})
            res = r.get("result")
            ln = lines[c["line"]]
            if "error" in r or not res or not res.get("signatures"):
                return {"problem": "no signature help inside a call", "line": ln, "cursor": ln[:ch] + "|" + ln[ch:], "response": r.get("error") or res}
            params = res["signatures"][0]["parameters"]
            labels = [p_["label"].split("=")[0].strip().lower() for p_ in params]
            if labels != [a.lower() for a in c["proc"]["args"]]:
                return {"problem": "signature does not list the dummy arguments in order", "line": ln, "labels": labels,
                        "expected": c["proc"]["args"]}
            if res.get("activeParameter") != e:
                return {"problem": "wrong active parameter", "cursor": ln[:ch] + "|" + ln[ch:], "expected_index": e,
                        "expected_parameter": c["proc"]["args"][e], "activeParameter": res.get("activeParameter")}
        return None
    finally:
        ws.close()


def run(tier: str, seed: int):
    n = nd = ns = 0
    for k in range(150 if tier == "thorough" else 60):
        g = Gen(random.Random(seed * 6007 + k))
        text = g.generate()
        n += 1
        nd += len(g.decls) + len(g.procs)
        ns += sum(len(c["positions"]) for c in g.calls)
        w = check(text, g)
        if w:
            w["program"] = text
            w["generator_seed"] = seed * 6007 + k
            return w, n, nd, ns
    return None, n, nd, ns
