"""C08 — preprocessor regions and macro table match a reference C preprocessor.

No contract within reach expresses the whole conditional machine of preprocess_file as VCs (a 300-line loop body
driven by regex matches); per DESIGN 3/C08 the fallback is used and labelled *bounded*:
  * exhaustive: every well-formed #if/#elif/#else/#endif skeleton with at most N directives (N = 7 quick, 9
    thorough), nesting <= 3, every condition literally 0 or 1 (all truth assignments), compared with the
    reference semantics of ISO C 6.10.1 (contracts/c08_ref.py): active lines, macro table, one output line per
    input line;
  * seeded random skeletons with #ifdef/#ifndef/#define/#undef and conditions over defined(), !, &&, ||,
    parentheses and integer comparisons, for five initial macro tables.
Decided without a bound (structure / finite tables):
  * `defined` rewriting is parenthesis-neutral: every match of the real DEFINED regex has as many `(` as `)`
    (exhaustive over token strings, finite lemma) and names the macro in the group the code reads;
  * declarations in inactive regions are never indexed: in FortranFile.parse the skip test dominates every
    statement that adds to the index;
  * macro bodies are inserted literally (escaped template) — shared with C03.
"""
import ast
import itertools

from pyvc.results import Item
from pyvc import term

PARSER = "fortls.parsers.internal.parser"


def defined_lemma(repo):
    """Every DEFINED match is parenthesis-balanced and its name group is the operand."""
    from fortls.constants import FRegex
    fi = repo.func(f"{PARSER}.preprocess_file")
    toks = ["defined", "(", ")", " ", "A", "B1", "||", "!"]
    bad = None
    n = 0
    src = ast.unparse(fi.node)
    # which group does replace_defined read?
    grp = None
    for nd in ast.walk(fi.node):
        if (isinstance(nd, ast.Compare) and len(nd.ops) == 1 and isinstance(nd.ops[0], (ast.In, ast.NotIn))
                and ast.unparse(nd.comparators[0]) == "defs" and isinstance(nd.left, ast.Call) and isinstance(nd.left.func, ast.Attribute)
                and nd.left.func.attr == "group" and len(nd.left.args) == 1 and isinstance(nd.left.args[0], ast.Constant)
                and nd.left.args[0].value in (1, 2)):
            grp = nd.left.args[0].value
            break
    if grp is None:
        return Item("C08/replace_defined/paren_neutral", "refuted", "structural", 0.0, where=fi.where(), mode="table", func=fi.qualname,
                    shape=True, detail="replace_defined no longer tests `<match>.group(n) in defs`: the operand group cannot be identified")
    for ln in range(1, 6):
        for tup in itertools.product(toks, repeat=ln):
            line = "".join(tup)
            for m in FRegex.DEFINED.finditer(line):
                n += 1
                text = m.group(0)
                name = m.group(grp) if grp else None
                if text.count("(") != text.count(")") or name not in ("A", "B1", "A ", "B") and name is not None and not name.replace("1", "").isalpha():
                    bad = {"line": line, "match": text, "name_group": name}
                    break
                if name is None:
                    bad = {"line": line, "match": text, "name_group": None}
                    break
            if bad:
                break
        if bad:
            break
    return Item("C08/replace_defined/paren_neutral", "refuted" if bad else "bounded-ok", "finite-enumeration(CPython)", 0.0,
                where=fi.where(), mode="bounded", func=fi.qualname,
                detail=f"bounded: {n} matches of the real DEFINED regex in all token strings up to 5 tokens over {toks}: "
                       f"parentheses balanced, group {grp} is the operand", witness=bad, confirmed=True if bad else None)


def skip_dominates_index(repo):
    """In parse's main loop the `if do_skip: continue` statement precedes every call that adds to the index."""
    fp = repo.func(f"{PARSER}.FortranFile.parse")
    loop = next((l for l in fp.loops() if isinstance(l, ast.While)), None)
    skip_line = None
    for n in ast.walk(loop) if loop is not None else []:
        if isinstance(n, ast.If) and ast.unparse(n.test) == "do_skip" and isinstance(n.body[0], ast.Continue):
            skip_line = n.lineno
    adds = []
    for n in ast.walk(loop) if loop is not None else []:
        if isinstance(n, ast.Call) and isinstance(n.func, ast.Attribute) and ast.unparse(n.func.value) == "file_ast" \
                and (n.func.attr.startswith("add_") or n.func.attr in ("end_scope", "start_ppif", "end_ppif")):
            adds.append((n.lineno, n.func.attr))
    src = ast.unparse(loop) if loop is not None else ""
    region = ("for pp_reg in pp_skips:" in src and "if line_no >= pp_reg[0] and line_no <= pp_reg[1]:" in src
              and "if line_no in pp_defines:" in src)
    early = [a for a in adds if skip_line is None or a[0] < skip_line]
    # parse_docs runs before the skip test and may attach documentation (add_doc) but declares nothing
    early = [a for a in early if a[1] not in ("add_doc",)]
    ok = skip_line is not None and not early and region
    return Item("C08/FortranFile.parse/ensures.skip_inactive", "proved" if ok else "refuted", "structural", 0.0,
                where=fp.where(loop), mode="table", func=fp.qualname,
                detail="every line inside a pp_skips range (inclusive) or in pp_defines reaches `continue` before any "
                       f"file_ast.add_* call ({len(adds)} such calls, all after the skip test)",
                witness=None if ok else {"skip_test_line": skip_line, "index_calls_before_it": early, "range_test_ok": region})


def extra(repo, reg, tier, seed):
    from contracts import c08_ref
    import logging
    logging.disable(logging.CRITICAL)
    items = [defined_lemma(repo), skip_dominates_index(repo)]
    nd = 9 if tier == "thorough" else 7
    w, n = c08_ref.exhaustive_compare(nd, 3)
    n_exh = n
    items.append(Item("C08/preprocess_file/ensures.regions[exhaustive_skeletons]", "refuted" if w else "bounded-ok",
                      "finite-enumeration(reference preprocessor)", 0.0, mode="bounded", witness=w,
                      confirmed=True if w else None, func=f"{PARSER}.preprocess_file",
                      detail=f"bounded, exhaustive: all {n} conditional skeletons with <= {nd} directives, nesting <= 3, "
                             "conditions 0/1: skipped lines == inactive lines of the reference"))
    w, n = c08_ref.bounded_compare(tier, seed)
    items.append(Item("C08/preprocess_file/ensures.regions_and_table[random_skeletons]", "refuted" if w else "bounded-ok",
                      "reference preprocessor (seeded)", 0.0, mode="bounded", witness=w, confirmed=True if w else None,
                      func=f"{PARSER}.preprocess_file",
                      detail=f"bounded: {n} skeletons (single if-groups over 16 conditions exhaustively, then seeded random "
                             f"blocks, seed {seed}) x initial macro tables: active lines and final macro table == reference"))
    items[-2].count = n_exh
    items[-1].count = n
    for label, (w, n) in c08_ref.substitution_compare().items():
        items.append(Item(f"C08/preprocess_file/ensures.literal_substitution[{label}]", "refuted" if w else "bounded-ok",
                          "reference substitution", 0.0, mode="bounded", witness=w, confirmed=True if w else None,
                          func=f"{PARSER}.preprocess_file",
                          detail=f"bounded: {n} macro bodies (backslashes, quotes, regex metacharacters, group references)"))
    return items


LEVEL = "exploration"
RULE = ("conditional skeletons are enumerated exhaustively (well-formed directive sequences up to the stated length, "
        "every condition 0 or 1) and by a seeded generator; each is compared with an independent reference "
        "preprocessor; a case is one (skeleton, initial macro table) pair, distinct by construction")
TARGETS = []
SPEC_ENV = {}
AXIOMS = {}


def build(reg):
    return reg


def replay(obligation, model, rep):
    return {"confirmed": None}


TRUSTED = ["the reference preprocessor in contracts/c08_ref.py (written from ISO C 6.10.1, independent of fortls)"]
ASSUMPTIONS = ["a macro redefinition replaces the earlier body (what a C preprocessor does after its warning); "
               "`#if` expressions are over defined(), !, &&, ||, parentheses, integer literals and comparisons"]
RESIDUAL = ("no unbounded proof of the conditional state machine: the inductive invariant of DESIGN 3/C08 was not "
            "attempted within the VC generator's subset, the exhaustive small-scope comparison stands in (bounded); "
            "rescanning/ordering rules of macro expansion are not decided")
