"""C20 — cyclic and self-referential program structure never causes unbounded recursion (mode T).

All recursion cycles (SCCs of the call graph) are enumerated from the current source.  Each needs a measure:

  descent(fields)     every recursive call goes one step along one of the heap fields; terminates if the
                      relation is acyclic, which every *writer* of a guarded field must establish
                      (assign None / in a constructor / under the links_back cycle check)
  visited(param,key)  the call passes param + [key] and returns early when key is already in param
  version(field)      early return when self.<field> equals the version argument, field set before recursing
  shrink(regexes)     the string argument strictly shrinks (regex minimum-width facts)
  subterm(param)      recursion on sub-nodes of a finite tree argument
  exempt(reason)      cycle is an artefact of resolving method calls by name (receiver can never be of the
                      class that would close it) or outside the property; recorded as an assumption
"""
import ast
import re

from pyvc.effects import Effects
from pyvc.results import Item
from pyvc import term

P = "fortls.parsers.internal."
LS = "fortls.langserver.LangServer"

GUARDED = ("link_obj", "inherit_var", "ancestor_obj")  # fields assigned from name lookups
TREE_WRITERS = {  # fields that are trees by construction: reviewed list of writer functions
    "parent": {P + "base.FortranObj.__init__", P + "base.FortranObj.set_parent", P + "scope.Scope.__init__",
               P + "scope.Scope.set_parent", P + "method.Method.set_parent", P + "intrinsics.Intrinsic.__init__",
               P + "scope.Scope.copy_from"},
    "children": {P + "scope.Scope.__init__", P + "scope.Scope.add_child", P + "variable.Variable.__init__",
                 P + "submodule.Submodule.resolve_link", P + "intrinsics.Intrinsic.__init__",
                 P + "intrinsics.Intrinsic.add_child", P + "scope.Scope.copy_from",
                 P + "ast.FortranAST.resolve_includes"},
    "in_children": {P + "type.Type.__init__", P + "type.Type._resolve_inherit_parent", P + "type.Type.resolve_inherit",
                    P + "subroutine.Subroutine.__init__", P + "subroutine.Subroutine.resolve_arg_link",
                    P + "function.Function.__init__", P + "function.Function.copy_interface",
                    P + "subroutine.Subroutine.copy_interface", P + "scope.Scope.copy_from"},
    "arg_objs": {P + "subroutine.Subroutine.__init__", P + "function.Function.__init__", P + "subroutine.Subroutine.resolve_arg_link",
                 P + "subroutine.Subroutine.copy_interface", P + "function.Function.copy_interface",
                 P + "scope.Scope.copy_from"},
}

REVIEWED_WRITERS = {
    (P + "submodule.Submodule.resolve_link", "interface.link_obj = child"):
        "receiver is a procedure prototype (a Scope); Scope getters do not follow link_obj, and child is a scope of "
        "this submodule, so no Variable/Method link chain passes through it",
}

# key: any member of the cycle -> measure
MEASURES = [
    dict(members=["method.Method.get_type", "variable.Variable.get_type"], kind="descent", fields=("link_obj",)),
    dict(members=["variable.Variable.get_desc"], kind="descent", fields=("link_obj",)),
    dict(members=["variable.Variable.get_type_obj"], kind="descent", fields=("link_obj",)),
    dict(members=["method.Method.get_snippet", "variable.Variable.get_snippet"], kind="descent", fields=("link_obj",)),
    dict(members=["method.Method.get_documentation"], kind="descent", fields=("link_obj",)),
    dict(members=["method.Method.get_signature"], kind="descent", fields=("link_obj",)),
    dict(members=["method.Method.get_interface"], kind="descent", fields=("link_obj",)),
    dict(members=["function.Function.get_hover", "method.Method.get_hover", "subroutine.Subroutine.get_docs_full",
                  "subroutine.Subroutine.get_hover"], kind="descent", fields=("link_obj", "arg_objs", "result_obj"),
         same_object=[("get_hover", "get_docs_full")],
         assume="link_obj U arg_objs U result_obj is acyclic: argument/result objects are variables local to the "
                "procedure; a type-bound Method is never an argument object"),
    dict(members=["scope.Scope.update_fqsn", "variable.Variable.update_fqsn"], kind="descent", fields=("children",)),
    dict(members=["base.FortranObj.get_implicit"], kind="descent", fields=("parent",)),
    dict(members=["utilities.find_in_scope.check_scope"], kind="descent", fields=("children", "in_children"),
         via=("get_children",)),
    dict(members=["LS.serve_autocomplete.get_candidates.child_candidates"], kind="descent",
         fields=("children", "in_children"), via=("get_children",)),
    dict(members=["utilities.find_in_scope"], kind="descent", fields=("parent", "ancestor_obj"),
         via=("get_ancestors",),
         assume="parent U ancestor_obj is acyclic: ancestors are top-level (sub)modules, whose parent is None"),
    dict(members=["submodule.Submodule.get_ancestors"], kind="descent", fields=("ancestor_obj",)),
    dict(members=["type.Type.get_overridden"], kind="descent", fields=("inherit_var",)),
    dict(members=["type.Type._resolve_inherit_parent", "type.Type.resolve_inherit"], kind="version",
         field="inherit_version", arg="inherit_version"),
    dict(members=["utilities.get_use_tree"], kind="visited", param="curr_path", key="scope.FQSN"),
    dict(members=["parser.preprocess_file"], kind="visited", param="include_stack", key="include_path"),
    dict(members=["parser.read_fun_def", "parser.read_var_def"], kind="shrink"),
    dict(members=["parser.eval_pp_expr.ev"], kind="subterm", param="node"),
    dict(members=["intrinsics.load_intrinsics.add_children"], kind="subterm", param="json_obj"),
    # artefacts of by-name method resolution / outside the property
    dict(members=["submodule.Submodule.resolve_link"], kind="exempt",
         reason="`interface.resolve_link(...)`: interface ranges over SUBROUTINE/FUNCTION prototypes of the "
                "ancestor's interface blocks, never a Submodule"),
    dict(members=["ast.FortranAST.add_doc"], kind="exempt", reason="self.last_obj is a FortranObj, never a FortranAST"),
    dict(members=["ast.FortranAST.add_use"], kind="exempt", reason="self.current_scope is a Scope, never a FortranAST"),
    dict(members=["ast.FortranAST.add_scope", "ast.FortranAST.create_none_scope"], kind="exempt",
         reason="create_none_scope raises if none_scope is already set, add_scope calls it only while "
                "current_scope is None: depth 2 (parse-time helper, not driven by program cycles)"),
    dict(members=["LS.get_diagnostics", "ast.FortranAST.check_file", "parser.FortranFile.check_file"], kind="exempt",
         reason="scope.get_diagnostics() is resolved by name to LangServer.get_diagnostics; scopes are never servers"),
    dict(members=["jsonrpc.ReadWriter.read", "jsonrpc.TCPReadWriter.read"], kind="exempt",
         reason="self.reader is a binary stream, not a ReadWriter"),
    dict(members=["jsonrpc.ReadWriter.readline", "jsonrpc.TCPReadWriter.readline"], kind="exempt",
         reason="self.reader is a binary stream, not a ReadWriter"),
    dict(members=["jsonrpc.ReadWriter.write", "jsonrpc.TCPReadWriter.write"], kind="exempt",
         reason="self.writer is a binary stream, not a ReadWriter"),
    dict(members=["debug.print_children"], kind="exempt", reason="debug command-line tooling, not the server"),
]


def full(name: str) -> str:
    if name.startswith("LS."):
        return LS + name[2:]
    if name.startswith(("jsonrpc.", "debug.")):
        return "fortls." + name
    return P + name


def short(q: str) -> str:
    return q.replace(P, "").replace("fortls.langserver.", "").replace("fortls.", "")


# ------------------------------------------------------------------ writer obligations
def writer_items(eff: Effects):
    items = []
    for field in GUARDED:
        sites = eff.writers_of(field)
        for q, recv, node, cls in sites:
            if field == "*" or recv is None:
                continue
            fe = eff.funcs[q]
            name = f"C20/{short(q)}/shape.acyclic[{field}]"
            where = fe.info.where(node)
            if not isinstance(node, (ast.Assign, ast.AnnAssign, ast.AugAssign)):
                continue
            if any(isinstance(t, ast.Attribute) and t.attr == field for t in getattr(node, "targets", [getattr(node, "target", None)])) is False:
                continue
            val = node.value
            fn = fe.info.node
            if fn.name == "__init__":
                items.append(term.item(name, True, f"{recv}.{field} set in a constructor (fresh object)", where, func=q))
                continue
            if isinstance(val, ast.Constant) and val.value is None:
                items.append(term.item(name + "#none", True, f"{recv}.{field} = None", where, func=q))
                continue
            if (q, ast.unparse(node)) in REVIEWED_WRITERS:
                items.append(term.item(name, True, "reviewed: " + REVIEWED_WRITERS[(q, ast.unparse(node))], where, func=q))
                continue
            ok, how = guarded_by_links_back(fn, node, recv, field)
            items.append(term.item(name, ok, how, where, func=q,
                                   witness={"writer": q, "statement": ast.unparse(node), "where": where,
                                            "reason": "assignment of a looked-up object to a link field without the "
                                                      "links_back cycle check"}))
    # setattr-style writers (Scope.copy_from) copy every attribute from another object of the same kind
    for field, allowed in TREE_WRITERS.items():
        def empties(node):
            # `x.field = []` / `= None` removes edges only: it cannot close a cycle
            return isinstance(node, ast.Assign) and (isinstance(node.value, ast.List) and not node.value.elts
                                                     or isinstance(node.value, ast.Constant) and node.value.value is None)
        writers = {q for q, recv, node, cls in eff.writers_of(field) if not q.startswith("fortls.debug")
                   and q.startswith(P) and not (empties(node) and q not in allowed)}
        extra = set(writers - allowed)
        # a private helper that only reviewed writers call is part of them (a block moved into a method)
        callers = {}
        for q2, fe2 in eff.funcs.items():
            for callee, _node in fe2.calls:
                callers.setdefault(callee, set()).add(q2)
        changed = True
        accepted = set()
        while changed:
            changed = False
            for w in sorted(extra - accepted):
                cs = callers.get(w, set()) - {w}
                if cs and w.rsplit(".", 1)[-1].startswith("_") and cs <= (allowed | accepted):
                    accepted.add(w)
                    changed = True
        extra = sorted(extra - accepted)
        items.append(term.item(f"C20/heap/shape.tree_writers[{field}]", not extra,
                               f"writers of .{field}: {sorted(short(w) for w in writers)} are the reviewed tree builders"
                               + (f" (helpers called only by them: {sorted(short(w) for w in accepted)})" if accepted else ""),
                               witness={"field": field, "unreviewed_writers": extra}, shape=True))
    return items


def guarded_by_links_back(fn, assign, recv, field):
    """`if ... and not <recv>.links_back(v[, field]): <recv>.field = v`   or
       `<recv>.field = v` directly followed by `if <recv>.links_back(<recv>.field, field): <recv>.field = None`."""
    want_field = field

    def is_check(call, value_txt):
        if not (isinstance(call, ast.Call) and isinstance(call.func, ast.Attribute) and call.func.attr == "links_back"):
            return False
        if ast.unparse(call.func.value) != recv or not call.args or ast.unparse(call.args[0]) != value_txt:
            return False
        f = "link_obj"
        if len(call.args) > 1 and isinstance(call.args[1], ast.Constant):
            f = call.args[1].value
        for kw in call.keywords:
            if kw.arg == "field" and isinstance(kw.value, ast.Constant):
                f = kw.value.value
        return f == want_field

    val_txt = ast.unparse(assign.value)
    # enclosing ifs
    parents = {}
    for n in ast.walk(fn):
        for ch in ast.iter_child_nodes(n):
            parents[id(ch)] = n
    cur = assign
    while id(cur) in parents:
        par = parents[id(cur)]
        if isinstance(par, ast.If) and any(cur is s for s in par.body):
            for sub in ast.walk(par.test):
                if isinstance(sub, ast.UnaryOp) and isinstance(sub.op, ast.Not) and is_check(sub.operand, val_txt):
                    conj = isinstance(par.test, ast.BoolOp) and isinstance(par.test.op, ast.And) or par.test is sub
                    if conj:
                        return True, f"guarded: if ... not {recv}.links_back({val_txt}, {field!r})"
        cur = par
    # assignment followed by reset
    for n in ast.walk(fn):
        body = getattr(n, "body", None)
        if isinstance(body, list):
            for blk in (body, getattr(n, "orelse", []) or []):
                for i, s in enumerate(blk):
                    if s is assign:
                        for nxt in blk[i + 1:i + 3]:
                            if isinstance(nxt, ast.If) and is_check(nxt.test, f"{recv}.{field}") and len(nxt.body) == 1 \
                                    and ast.unparse(nxt.body[0]) == f"{recv}.{field} = None":
                                return True, f"reset: if {recv}.links_back({recv}.{field}, {field!r}): {recv}.{field} = None"
    return False, f"{recv}.{field} = {val_txt} is not under a links_back check"


# ------------------------------------------------------------------ per-cycle obligations
def cycle_items(eff: Effects, repo):
    items = []
    comps = term.sccs(eff)
    used = set()
    for comp in comps:
        label = "+".join(short(q).split(".")[-2] + "." + short(q).split(".")[-1] if "." in short(q) else short(q)
                         for q in comp)[:90]
        meas = None
        for k, m in enumerate(MEASURES):
            if set(full(x) for x in m["members"]) & set(comp):
                meas = m
                used.add(k)
                break
        if meas is None:
            items.append(Item(f"C20/cycle[{label}]/decreases", "unknown", "structural(termination)", 0.0, mode="T",
                              detail=f"new recursion cycle without a measure: {comp}", func=comp[0]))
            continue
        members = set(full(x) for x in meas["members"])
        calls = term.intra_calls(eff, comp)
        grown = sorted(set(comp) - members)
        if meas["kind"] == "exempt":
            ok = not grown
            items.append(Item(f"C20/cycle[{label}]/exempt", "proved" if ok else "unknown", "structural(termination)",
                              0.0, mode="T", func=comp[0],
                              detail=("assumed: " + meas["reason"]) if ok else f"exempted cycle grew by {grown}"))
            continue
        if meas["kind"] == "descent":
            for caller, callee, node in calls:
                same = any(caller.endswith("." + a) and callee.endswith("." + b) for a, b in meas.get("same_object", []))
                ok = same or term.descends_along(eff, caller, node, meas["fields"], meas.get("via", ()))
                items.append(term.item(
                    f"C20/{short(caller)}/decreases.descends[{'|'.join(meas['fields'])}]->{short(callee).split('.')[-1]}",
                    ok, f"recursive call `{ast.unparse(node)[:70]}` goes one step along {meas['fields']}"
                    + (" (same-object helper call, counted with its callee)" if same else ""),
                    eff.funcs[caller].info.where(node), func=caller,
                    witness={"call": ast.unparse(node)[:120], "in": caller,
                             "reason": f"receiver is not one step along {meas['fields']}"}))
        elif meas["kind"] == "visited":
            for caller, callee, node in calls:
                fn = eff.funcs[caller].info.node
                param, key = meas["param"], meas["key"]

                def pred(test, key=key, param=param):
                    return implied_membership(test, key, param)
                guard = term.dominating_guard(fn, node, pred) or guarded_inline(fn, node, key, param)
                passed = None
                for kw in node.keywords:
                    if kw.arg == param:
                        passed = kw.value
                sig = [a.arg for a in fn.args.args]
                if passed is None and param in sig and sig.index(param) < len(node.args):
                    passed = node.args[sig.index(param)]
                grows = passed is not None and grows_by(fn, passed, param, key)
                items.append(term.item(f"C20/{short(caller)}/decreases.visited[{param}]", bool(guard and grows),
                                       f"returns/skips when {key} in {param}: {bool(guard)}; recursive call passes "
                                       f"{param} + [{key}]: {bool(grows)}", eff.funcs[caller].info.where(node),
                                       func=caller, witness={"call": ast.unparse(node)[:160], "guard_found": bool(guard),
                                                             "path_grows": bool(grows)}))
        elif meas["kind"] == "version":
            fi = repo.func(full("type.Type.resolve_inherit"))
            body = [s for s in fi.node.body if not isinstance(s, ast.Expr) or not isinstance(s.value, ast.Constant)]
            # named conditions (`already = self.v == v` before the test) are read through
            named = {}
            while body and isinstance(body[0], (ast.Assign, ast.AnnAssign)) and not isinstance(body[0].value, (ast.Call, ast.Await)) \
                    and isinstance(body[0].targets[0] if isinstance(body[0], ast.Assign) else body[0].target, ast.Name) \
                    and not any(isinstance(x, ast.Call) for x in ast.walk(body[0].value)):
                tg = body[0].targets[0] if isinstance(body[0], ast.Assign) else body[0].target
                named[tg.id] = ast.unparse(body[0].value)
                body = body[1:]
            g = body[0] if body else None
            test_txt = ""
            if isinstance(g, ast.If):
                import copy as _copy
                tcopy = _copy.deepcopy(g.test)
                for x in ast.walk(tcopy):
                    if isinstance(x, ast.Name) and x.id in named:
                        x.id = "(" + named[x.id] + ")"
                test_txt = ast.unparse(tcopy)
            guard_ok = (isinstance(g, ast.If) and isinstance(g.body[-1], ast.Return) and isinstance(g.test, (ast.BoolOp, ast.Compare, ast.Name))
                        and not (isinstance(g.test, ast.BoolOp) and isinstance(g.test.op, ast.And))
                        and f"self.{meas['field']} == {meas['arg']}" in test_txt)
            set_ok = len(body) > 1 and ast.unparse(body[1]) == f"self.{meas['field']} = {meas['arg']}"
            items.append(term.item("C20/type.Type.resolve_inherit/decreases.version_guard", guard_ok and set_ok,
                                   f"first statements: early return when self.{meas['field']} == {meas['arg']}, then the "
                                   "field is set before anything else runs (each type is entered once per version)",
                                   fi.where(), func=fi.qualname, shape=True,
                                   witness={"first_statements": [ast.unparse(s)[:100] for s in body[:2]]}))
            for caller, callee, node in calls:
                same_version = any(ast.unparse(a) == meas["arg"] for a in node.args)
                items.append(term.item(f"C20/{short(caller)}/decreases.same_version->{short(callee).split('.')[-1]}",
                                       same_version, f"`{ast.unparse(node)[:70]}` passes the same version on",
                                       eff.funcs[caller].info.where(node), func=caller))
        elif meas["kind"] == "shrink":
            items += shrink_items(eff, repo, calls)
        elif meas["kind"] == "subterm":
            for caller, callee, node in calls:
                fn = eff.funcs[caller].info.node
                param = meas["param"]

                def sub_of(e, depth=0):
                    if depth > 3:
                        return False
                    if isinstance(e, ast.Call) and isinstance(e.func, ast.Name) and e.func.id in term.WRAPPERS and e.args:
                        return all(sub_of(a, depth + 1) for a in e.args)
                    if isinstance(e, ast.Call) and isinstance(e.func, ast.Attribute) and e.func.attr == "get" \
                            and isinstance(e.func.value, ast.Name) and e.func.value.id == param:
                        return True
                    if isinstance(e, (ast.Attribute, ast.Subscript)):
                        return sub_of(e.value, depth + 1) or (isinstance(e.value, ast.Name) and e.value.id == param)
                    if isinstance(e, ast.Name):
                        if e.id == param:
                            return False
                        srcs = term.local_sources(fn, e.id)
                        return bool(srcs) and all(sub_of(v, depth + 1) or
                                                  (isinstance(v, ast.Name) and v.id == param and k == "for")
                                                  for k, v in srcs)
                    return False
                ok = bool(node.args) and sub_of(node.args[0])
                items.append(term.item(f"C20/{short(caller)}/decreases.subterm[{param}]", ok,
                                       f"`{ast.unparse(node)[:60]}` recurses on a proper sub-node of {param}",
                                       eff.funcs[caller].info.where(node), func=caller))
        if grown:
            items.append(Item(f"C20/cycle[{label}]/members", "unknown", "structural(termination)", 0.0, mode="T",
                              detail=f"cycle now also contains {grown}; its calls were checked against the same measure",
                              func=comp[0], counts=False))
    return items, comps


def implied_membership(test, key, param):
    """`key in param` makes the test true: the test is that comparison or a disjunction with it as a disjunct (a
    conjunction such as `key in param and not only_list` is weaker than the guard the measure needs)"""
    if isinstance(test, ast.Compare):
        return (len(test.ops) == 1 and isinstance(test.ops[0], ast.In) and ast.unparse(test.left) == key
                and ast.unparse(test.comparators[0]) == param)
    if isinstance(test, ast.BoolOp) and isinstance(test.op, ast.Or):
        return any(implied_membership(v, key, param) for v in test.values)
    return False


def guarded_inline(fn, call, key, param):
    """`if key in param: ...skip... elif ...: <call>`: the call sits in the orelse of the membership test."""
    for n in ast.walk(fn):
        if isinstance(n, ast.If):
            t = n.test
            hit = implied_membership(t, key, param)
            if not hit and isinstance(t, ast.BoolOp) and isinstance(t.op, ast.And) \
                    and any(implied_membership(v, key, param) for v in t.values):
                # `if A and key in param: skip  elif A [and ...]: <call>`: in the second branch A holds, so the first test
                # failed because the key is not in the path
                others = {ast.unparse(v) for v in t.values if not implied_membership(v, key, param)}
                nxt = n.orelse[0] if len(n.orelse) == 1 and isinstance(n.orelse[0], ast.If) else None
                if nxt is not None and any(c is call for s in nxt.body for c in ast.walk(s)):
                    conj = {ast.unparse(v) for v in nxt.test.values} if isinstance(nxt.test, ast.BoolOp) and isinstance(nxt.test.op, ast.And) \
                        else {ast.unparse(nxt.test)}
                    if others <= conj:
                        return True
            if hit and any(c is call for s in n.orelse for c in ast.walk(s)):
                return True
    return False


def grows_by(fn, passed, param, key):
    txt = ast.unparse(passed)
    if txt == f"{param} + [{key}]":
        return True
    if isinstance(passed, ast.Name):
        srcs = term.local_sources(fn, passed.id)
        # single definition `new = param + [key]` or `param = param + [<abs of key>]` before the call
        return bool(srcs) and all(isinstance(v, ast.BinOp) and isinstance(v.op, ast.Add)
                                  and ast.unparse(v.left) == param and isinstance(v.right, ast.List)
                                  for _, v in srcs if _ == "assign" and not (isinstance(v, ast.List) and not v.elts)
                                  and not (isinstance(v, ast.Constant)))
    return False


def shrink_items(eff, repo, calls):
    """read_fun_def <-> read_var_def: the line argument strictly shrinks around the cycle."""
    import subprocess
    items = []
    # regex facts from the real constants (evaluated with the interpreter that runs the code)
    code = ("import sys; sys.path.insert(0, %r); import re._parser as sp, json\n"
            "from fortls.regex_patterns import FortranRegularExpressions as F\n"
            "print(json.dumps({n: list(sp.parse(getattr(F, n).pattern, getattr(F, n).flags).getwidth()) for n in ('VAR','SUB_MOD')}))"
            % repo.root)
    out = subprocess.run(["/venv/bin/python", "-c", code], capture_output=True, text=True)
    try:
        import json
        widths = json.loads(out.stdout.strip().splitlines()[-1])
    except Exception:
        widths = {}
    rv = repo.func(P + "parser.read_var_def")
    rf = repo.func(P + "parser.read_fun_def")
    src_v, src_f = ast.unparse(rv.node), ast.unparse(rf.node)
    facts = [
        ("regex.VAR.minwidth>=1", widths.get("VAR", [0])[0] >= 1),
        ("regex.SUB_MOD.minwidth>=1", widths.get("SUB_MOD", [0])[0] >= 1),
        ("read_var_def passes a suffix after the VAR match",
         "trailing_line = line[type_match.end(0):]" in src_v and "read_fun_def(trailing_line" in src_v),
        ("read_var_def re-enters only when it matched VAR itself (var_type is None)",
         "if var_type is None:" in src_v and "type_match = FRegex.VAR.match(line)" in src_v),
        ("read_fun_def re-enters only after removing at least one modifier",
         "keywords = re.findall(FRegex.SUB_MOD, line)" in src_f and "line = re.sub(FRegex.SUB_MOD, '', line)" in src_f
         and "if keywords:\n        tmp_var = read_var_def(line, fun_only=True)" in src_f),
    ]
    for name, ok in facts:
        items.append(term.item(f"C20/parser.read_fun_def+read_var_def/decreases.shrink[{name}]", bool(ok),
                               "len(line) strictly decreases: " + name, rf.where(), func=rf.qualname))
    # every intra call is one of the two known ones
    known = {("read_var_def", "read_fun_def"), ("read_fun_def", "read_var_def")}
    for caller, callee, node in calls:
        pair = (caller.split(".")[-1], callee.split(".")[-1])
        if pair not in known:
            items.append(term.item(f"C20/{short(caller)}/decreases.shrink.unknown_call", False,
                                   f"unexpected recursive call {ast.unparse(node)[:80]}", func=caller))
    return items


# ------------------------------------------------------------------ native cycle catalogue (bounded)
def cycle_catalogue():
    """Programs with cyclic structure, lengths 1..4; every positional request at every identifier, under a
    lowered recursion limit.  Returns a witness dict or None."""
    import re as _re
    import sys
    from replay.harness import Workspace, session, SessionTimeout
    progs = {}
    for n in (1, 2, 3, 4):
        names = [f"m{i}" for i in range(n)]
        progs[f"use_cycle_{n}"] = {"a.f90": "".join(
            f"module {names[i]}\n  use {names[(i + 1) % n]}\n  integer :: v{i}\nend module {names[i]}\n" for i in range(n))
            + "program p\n  use m0\n  v0 = 1\nend program p\n"}
        # the cycle entered through an ONLY list, with the USE statements inside it permuting names (a rename that is
        # rewritten on every lap must not keep the walk going)
        for tag, ren in (("swap", "p => q, q => p"), ("rot3", "p => q, q => r, r => p"), ("only_swap", "only: p => q, q => p")):
            progs[f"use_cycle_{n}_only_entry_{tag}"] = {"a.f90": "".join(
                f"module {names[i]}\n  use {names[(i + 1) % n]}, {ren}\n  integer :: v{i}\nend module {names[i]}\n" for i in range(n))
                + "program p\n  use m0, only: p, q\n  integer :: loc\n  loc = p + q\nend program p\n"}
        progs[f"extends_cycle_{n}"] = {"a.f90": "module m\n" + "".join(
            f"  type, extends(t{(i + 1) % n}) :: t{i}\n    integer :: c{i}\n  contains\n    procedure :: f => f{i}\n  end type t{i}\n"
            for i in range(n)) + "  type(t0) :: obj\ncontains\n" + "".join(
            f"  subroutine f{i}(self)\n    class(t{i}) :: self\n  end subroutine f{i}\n" for i in range(n))
            + "  subroutine use_it()\n    call obj%f()\n    obj%c0 = 1\n  end subroutine use_it\nend module m\n"}
        if n >= 2:
            # the same cycle with every type in a module (and file) of its own
            def mod_text(i):
                return (f"module mm{i}\n  use mm{(i + 1) % n}\n  implicit none\n  type, extends(t{(i + 1) % n}) :: t{i}\n    integer :: c{i}\n"
                        f"  contains\n    procedure :: show => show{i}\n  end type t{i}\n  type(t{i}) :: obj{i}\ncontains\n"
                        f"  subroutine show{i}(self)\n    class(t{i}), intent(in) :: self\n    print *, self%c{i}\n    call obj{i}%show()\n"
                        f"  end subroutine show{i}\nend module mm{i}\n")
            xm = {f"mm{i}.f90": mod_text(i) for i in range(1, n)}
            xm["a.f90"] = mod_text(0)
            progs[f"extends_cycle_across_modules_{n}"] = xm
        progs[f"pointer_cycle_{n}"] = {"a.f90": "program p\n" + "".join(
            f"  integer, pointer :: x{i} => x{(i + 1) % n}\n" for i in range(n)) + "  x0 = 1\nend program p\n"}
        progs[f"submodule_cycle_{n}"] = {"a.f90": "".join(
            f"submodule (s{(i + 1) % n}) s{i}\n  integer :: w{i}\ncontains\n  subroutine q{i}()\n    w{i} = 1\n  end subroutine q{i}\nend submodule s{i}\n"
            for i in range(n))}
        progs[f"binding_cycle_{n}"] = {"a.f90": "module m\n  type :: t\n  contains\n" + "".join(
            f"    procedure :: b{i} => b{(i + 1) % n}\n" for i in range(n)) + "  end type t\n  type(t) :: o\ncontains\n"
            "  subroutine s()\n    call o%b0()\n  end subroutine s\nend module m\n"}
        progs[f"associate_cycle_{n}"] = {"a.f90": "program p\n  integer :: z\n  associate (" + ", ".join(
            f"a{i} => a{(i + 1) % n}" for i in range(n)) + ")\n    z = a0\n  end associate\nend program p\n"}
        inc = {f"h{i}.h": f"#include \"h{(i + 1) % n}.h\"\n#include \"h{(i + 1) % n}.h\"\n#define H{i} 1\n" for i in range(n)}
        inc["a.F90"] = "#include \"h0.h\"\nprogram p\n  integer :: k\n  k = 1\nend program p\n"
        progs[f"include_cycle_{n}"] = inc
    progs["fortran_include_self"] = {"a.f90": "integer :: top\ninclude 'a.f90'\n"}
    progs["fortran_include_pair"] = {"a.f90": "integer :: ta\ninclude 'b.f90'\n", "b.f90": "integer :: tb\ninclude 'a.f90'\n"}
    for n in (2, 3):
        progs[f"fortran_include_blocks_{n}"] = {
            f"a{i}.f90" if i else "a.f90": f"integer :: x{i}\nassociate (u{i} => x{i})\ninclude '{'a.f90' if (i + 1) % n == 0 else f'a{(i + 1) % n}.f90'}'\nend associate\n"
            for i in range(n)}
    progs["procedure_arg_self"] = {"a.f90": "subroutine s(p)\n  procedure(s) :: p\n  call p(p)\nend subroutine s\n"}
    old = sys.getrecursionlimit()
    methods = ["hover", "definition", "implementation", "references", "documentHighlight", "rename",
               "signatureHelp", "completion"]
    try:
        for pname, files in progs.items():
            ws = Workspace(files)
            try:
                main = "a.F90" if "a.F90" in files else "a.f90"
                text = files[main]
                uri = ws.uri(main)
                msgs = [{"jsonrpc": "2.0", "method": "textDocument/didOpen", "params": {"textDocument": {"uri": uri}}}]
                rid = 1
                for ln, line in enumerate(text.split("\n")):
                    for m in _re.finditer(r"[A-Za-z_]\w*", line):
                        for meth in methods:
                            params = {"textDocument": {"uri": uri}, "position": {"line": ln, "character": m.start() + 1}}
                            if meth == "rename":
                                params["newName"] = "zz"
                            if meth == "references":
                                params["context"] = {"includeDeclaration": True}
                            msgs.append({"jsonrpc": "2.0", "id": rid, "method": "textDocument/" + meth, "params": params})
                            rid += 1
                try:
                    srv, out = session(ws, msgs, argv=["--recursion_limit", "400"], timeout=20)
                except RecursionError as e:
                    return {"program": pname, "files": files, "problem": f"server loop died: {e!r}"}
                except SessionTimeout:
                    return {"program": pname, "files": files, "problem": "server did not finish within 20 s (hang)"}
                for m in out:
                    if "error" in m and "recursion" in str(m["error"].get("message", "")).lower():
                        req = next((r for r in msgs if r.get("id") == m.get("id")), None)
                        return {"program": pname, "files": files, "request": req,
                                "error": {"code": m["error"].get("code"), "message": str(m["error"].get("message"))[:200]}}
                    if m.get("method") == "window/showMessage" and m["params"].get("type") == 1 \
                            and "recursion" in m["params"]["message"].lower():
                        return {"program": pname, "files": files, "message": m["params"]["message"][:300]}
            finally:
                ws.close()
    finally:
        sys.setrecursionlimit(old)
    return None


def include_order_catalogue(tier="quick"):
    """Fortran INCLUDE cycles inside block scopes plus one file outside the cycle that includes a member of it:
    every order of opening the files one at a time, and every enumeration order at start-up; the sync handlers are
    called directly so that an exception is not swallowed by the notification path."""
    import itertools
    import os
    from replay.harness import Workspace, make_server, parse_out
    from fortls.jsonrpc import path_to_uri
    from fortls.langserver import LangServer
    n_run = 0
    for n in ((2, 3, 4) if tier == "thorough" else (2, 3)):
        files = {f"f{i}.f90": f"integer :: v{i}\nblock\n  include 'f{(i + 1) % n}.f90'\nend block\n" for i in range(n)}
        files["main.f90"] = "program p\ninclude 'f0.f90'\nend program p\n"
        for perm in itertools.permutations(sorted(files)):
            for mode in ("open", "init"):
                n_run += 1
                ws = Workspace({})
                try:
                    srv, rw = make_server(["--recursion_limit", "400"])
                    srv.nthreads = 1
                    if mode == "open":
                        os.makedirs(os.path.join(ws.root, "empty"))
                        root = os.path.join(ws.root, "empty")
                    else:
                        root = ws.root
                        for name in perm:
                            ws.write(name, files[name])
                        real = LangServer._get_source_files
                        srv._get_source_files = (lambda self, real=real, perm=perm: sorted(
                            real(self), key=lambda p_: perm.index(os.path.basename(p_)))).__get__(srv, LangServer)
                    try:
                        res = srv.serve_initialize({"jsonrpc": "2.0", "id": 0, "method": "initialize",
                                                    "params": {"rootUri": path_to_uri(root), "rootPath": root}})
                        if mode == "open":
                            for name in perm:
                                ws.write(name, files[name])
                                srv.serve_onOpen({"jsonrpc": "2.0", "method": "textDocument/didOpen",
                                                  "params": {"textDocument": {"uri": ws.uri(name)}}})
                        for name in perm:
                            srv.serve_hover({"jsonrpc": "2.0", "id": 1, "method": "textDocument/hover",
                                             "params": {"textDocument": {"uri": ws.uri(name)}, "position": {"line": 0, "character": 12}}})
                    except RecursionError as e:
                        return {"files": files, "mode": "opened one at a time" if mode == "open" else "enumerated at start-up",
                                "order": list(perm), "problem": f"RecursionError: {str(e)[:80]}"}, n_run
                    msgs = [m for m in parse_out(rw.out) if m.get("method") == "window/showMessage" and "recursion" in str(m).lower()]
                    if msgs:
                        return {"files": files, "mode": mode, "order": list(perm), "message": str(msgs[0])[:300]}, n_run
                finally:
                    ws.close()
    return None, n_run


def extra(repo, reg, tier, seed):
    eff = Effects(repo)
    items, comps = cycle_items(eff, repo)
    items += writer_items(eff)
    items.append(Item("C20/package/cycles.enumerated", "proved" if len(comps) >= 10 else "error",
                      "structural(termination)", 0.0, mode="T",
                      detail=f"{len(comps)} recursion cycles found in the call graph of the current source"))
    # loops that grow the list they walk: resolve_includes adds the included scope's children to the including
    # scope, which is the same list when a file includes itself
    fi = repo.func(P + "ast.FortranAST.resolve_includes")
    ok = True
    detail = []
    for loop in fi.loops():
        if isinstance(loop, ast.For) and any(isinstance(n, ast.Call) and isinstance(n.func, ast.Attribute)
                                             and n.func.attr in ("add_child", "append") for n in ast.walk(loop)):
            it = ast.unparse(loop.iter)
            if ".children" in it and not it.startswith(("list(", "tuple(", "copy.copy(")):
                ok = False
            detail.append(it)
    items.append(term.item("C20/ast.FortranAST.resolve_includes/loop.iterates_copy", ok,
                           f"loops that add children iterate over a copy of the children list: {detail}", fi.where(),
                           func=fi.qualname, witness={"iterables": detail,
                                                      "reason": "a loop appends to a children list while iterating a children list (same list for a self-including file)"}))
    # re-parenting: add_child/set_parent on objects that are not freshly constructed must not close a parent cycle.
    # The only such site is resolve_includes (children of an included file's scope are adopted by the including scope).
    ok = False
    for n in ast.walk(fi.node):
        if isinstance(n, ast.If) and "links_back(parent_scope, 'parent')" in ast.unparse(n.test) \
                and n.body and isinstance(n.body[-1], ast.Continue):
            # the guard must come before the add_child call in the same loop body
            loop = next((l for l in fi.loops() if any(x is n for x in ast.walk(l))), None)
            if loop is not None:
                adds = [c for c in ast.walk(loop) if isinstance(c, ast.Call) and isinstance(c.func, ast.Attribute)
                        and c.func.attr == "add_child"]
                ok = bool(adds) and all(a.lineno > n.lineno for a in adds)
    items.append(term.item("C20/ast.FortranAST.resolve_includes/shape.acyclic[parent]", ok,
                           "adopting the children of an included scope is guarded by `child.links_back(parent_scope, "
                           "'parent')` (a scope never becomes its own ancestor)", fi.where(), func=fi.qualname,
                           witness={"reason": "parent_scope.add_child(child) on an existing object without the "
                                              "links_back(..., 'parent') guard: mutually including files make two "
                                              "scopes each other's parent"}))
    adopters = []
    for q, fe in eff.funcs.items():
        if not q.startswith(P) or q.startswith(P + "parser.") or q.endswith(".__init__"):
            continue
        for name, node in fe.externals + [(c, n) for c, n in fe.calls]:
            if isinstance(node.func, ast.Attribute) and node.func.attr in ("add_child", "set_parent"):
                adopters.append(q)
    reviewed = {P + "ast.FortranAST.resolve_includes", P + "ast.FortranAST.add_scope", P + "ast.FortranAST.add_variable",
                P + "ast.FortranAST.add_int_member", P + "scope.Scope.add_child", P + "intrinsics.load_intrinsics.add_children",
                P + "intrinsics.Intrinsic.add_child", P + "intrinsics.create_object", P + "intrinsics.load_intrinsics.create_object",
                P + "intrinsics.load_intrinsics.create_int_object", P + "intrinsics.get_intrinsic_keywords"}
    extra_ad = sorted(set(adopters) - reviewed)
    items.append(term.item("C20/heap/shape.adopters[parent|children]", not extra_ad,
                           f"functions (outside the parser, which only links freshly created objects) that call "
                           f"add_child/set_parent: {sorted(set(short(a) for a in adopters))}",
                           witness={"unreviewed": extra_ad}))
    w = cycle_catalogue()
    w2, n2 = include_order_catalogue(tier)
    items.append(Item("C20/session/native_include_orders", "refuted" if w2 else "bounded-ok", "native-run(bounded)", 0.0,
                      mode="bounded", witness=w2, confirmed=True if w2 else None, func="fortls.parsers.internal.ast.FortranAST.resolve_includes",
                      detail=f"bounded: {n2} schedules: INCLUDE cycles of 2-{'4' if tier == 'thorough' else '3'} files inside block scopes "
                             "plus an outside includer, every opening order and every start-up enumeration order, handlers called directly"))
    items[-1].count = n2
    items.append(Item("C20/session/native_cycle_catalogue", "refuted" if w else "bounded-ok", "native-run(bounded)",
                      0.0, mode="bounded", witness=w, confirmed=True if w else None,
                      detail="bounded: USE/EXTENDS/pointer/submodule/binding/ASSOCIATE/INCLUDE cycles of length 1..4, "
                             "8 positional methods at every identifier, recursion limit 400"))
    return items


TARGETS = []
SPEC_ENV = {}
AXIOMS = {}


def build(reg):
    return reg


def replay(obligation, model, rep):
    w = cycle_catalogue()
    return {"confirmed": bool(w), "witness": w}


def search(func, tier, seed, obligation=""):
    """bounded native search behind every shape / termination obligation: the catalogue of cyclic programs and of
    include orders, with every positional request at every identifier"""
    w = cycle_catalogue()
    if w:
        return w
    w = include_order_catalogue(tier)
    return w[0] if isinstance(w, tuple) else w


TRUSTED = [
    "graph lemma: assigning o.f := v when following f from v never reaches o keeps the f-graph acyclic (so the "
    "links_back check at every writer establishes acyclic(f))",
    "parent/children/in_children/arg_objs are trees by construction; their writers are the reviewed builder list",
    "exempted cycles are artefacts of by-name call resolution (reason recorded per cycle)",
]
ASSUMPTIONS = ["termination is decided, running time is not (no wall-clock bound)"]
RESIDUAL = ("the body of links_back itself (a bounded walk with a visited set) is checked natively only; "
            "union-acyclicity assumptions for find_in_scope and the hover family are stated, not proved")
