"""C09 — every positional request is total; every returned range lies in its document.

Mode S (class-flow safety obligations, pyvc/safety.py) over the position-based handlers and the helpers they
call: every attribute access on a value whose possible classes are known is defined for each of them, and no
possibly-None value is dereferenced without a dominating check.  Call results come from the signatures below;
`get_definition`'s signature is itself checked against its return statements.  Coordinates: add_error (clamping)
and _create_ref_link are proved as VCs (mode F).  The native sweep (contracts/c09_sweep.py) is the bounded
stand-in: every position class of every sample document x 9 methods, error responses and out-of-document ranges.
"""
import ast

from pyvc import smt
from pyvc.smt import And, Or, Not, Implies, Ite, Eq, IntVal, StrVal, Len, Le, Lt, Ge
from pyvc.types import *
from pyvc.contract import Contract, LoopSpec, Raises, FrameCall
from pyvc.results import Item
from pyvc.safety import ClassTable, Safety, ANY, NONE

LS = "fortls.langserver.LangServer"
AST = "fortls.parsers.internal.ast.FortranAST"

# assumed invariants the class-flow analysis cannot see (each is listed in the evidence)
HINTS = {
    ("FortranFile", "ast"): ({"FortranAST"}, "files are put into the workspace only after their `ast` is set "
                                             "(update_workspace_file / workspace_init assign it first)"),
}


def sp_len(eng, st, s):
    return V(INT, Len(s.t))


SPEC_ENV = {}
AXIOMS = {}


def build(reg):
    # ---- add_error: the reported range is inside the line it is reported on
    def m_get_line(eng, st, node, args, kwargs):
        return st.env["phys_line"]

    def m_record(eng, st, node, args, kwargs):
        st.env["recorded"] = args[0]
        return NoneV()

    reg.add(Contract(
        f"{AST}.add_error", prop="C09", receiver_cls="FortranAST",
        params={"msg": STR, "sev": INT, "ln": INT, "sch": INT, "ech": TOpt(INT), "phys_line": TOpt(STR)},
        fields={"self.file": TObj("FortranFile")},
        ensures=[("start_in_line", "implies(phys_line is not None, 0 <= recorded['range']['start']['character'] "
                                   "and recorded['range']['start']['character'] <= len(phys_line))"),
                 ("end_in_line", "implies(phys_line is not None and old(ech) is not None, "
                                 "recorded['range']['start']['character'] <= recorded['range']['end']['character'] "
                                 "and recorded['range']['end']['character'] <= len(phys_line))"),
                 ("line", "recorded['range']['start']['line'] == ln - 1")],
        calls={"self.file.get_line": m_get_line, "self.parse_errors.append": m_record,
               "diagnostic_json": "inline:fortls.json_templates.diagnostic_json",
               "range_json": "inline:fortls.json_templates.range_json"},
        short="FortranAST.add_error"))
    # ---- _create_ref_link: a link never has a negative column
    def m_find_word(eng, st, node, args, kwargs):
        d = eng.decls
        ln, a, b = d.fresh("fw_line", smt.INT), d.fresh("fw_start", smt.INT), d.fresh("fw_end", smt.INT)
        # find_word_in_code_line: (line, Range(-1, -1 + len)) when not found, else an occurrence *in the text it
        # searched*: the buffer (contents_split) by default, the macro-expanded text with pp_content=True
        pp = kwargs.get("pp_content")
        searched_pp = pp is not None and not (isinstance(pp, V) and pp.t.s == "false")
        length = d.fun("pp_line_len" if searched_pp else "raw_line_len", [smt.INT], smt.INT)(ln)
        st.assume(Or(Lt(a, IntVal(0)), And(Le(IntVal(0), a), Le(a, b), Le(b, length))))
        st.assume(Ge(ln, IntVal(0)))
        st.assume(Ge(length, IntVal(0)))
        return TupV([V(INT, ln), TupV([V(INT, a), V(INT, b)])])

    def sp_raw_line_len(eng, st, ln):
        f = eng.decls.fun("raw_line_len", [smt.INT], smt.INT)(ln.t)
        eng.decls.ground_axiom("raw_len.nonneg", Ge(f, IntVal(0))) if "q_" not in f.s else None
        return V(INT, f)

    SPEC_ENV["raw_line_len"] = sp_raw_line_len

    reg.add(Contract(
        f"{LS}._create_ref_link", prop="C09", receiver_cls="LangServer", params={"obj": TObj("FortranObj")},
        fields={"obj.file_ast": TObj("FortranAST"), "obj.file_ast.file": TObj("FortranFile"),
                "obj.file_ast.file.path": STR, "obj.sline": INT, "obj.name": STR},
        ensures=[("nonneg", "result['range']['start']['character'] >= 0 and result['range']['end']['character'] >= 0"),
                 ("ordered", "result['range']['start']['character'] <= result['range']['end']['character']"),
                 ("one_line", "result['range']['start']['line'] == result['range']['end']['line']"),
                 ("in_document_line", "result['range']['end']['character'] <= raw_line_len(result['range']['end']['line'])")],
        calls={"obj_file.find_word_in_code_line": m_find_word, "path_to_uri": FrameCall(result=STR),
               "uri_json": "inline:fortls.json_templates.uri_json", "range_json": "inline:fortls.json_templates.range_json"},
        short="LangServer._create_ref_link"))
    # ---- Diagnostic.build: the columns found by the word search belong to the line it reports
    DIAGQ = "fortls.parsers.internal.diagnostics.Diagnostic.build"
    reg.add(Contract(
        DIAGQ, prop="C09", receiver_cls="Diagnostic", params={"file_obj": TObj("FortranFile")},
        fields={"self.sline": INT, "self.find_word": TOpt(STR), "self.message": STR, "self.severity": INT,
                "self.has_related": BOOL, "self.related_path": TOpt(STR), "self.related_line": TOpt(INT),
                "self.related_message": TOpt(STR)},
        requires=[("line_known", "self.sline >= 0")], ghost={"tuple_fields": {"start": 0, "end": 1}},
        ensures=[("nonneg", "result['range']['start']['character'] >= 0 and result['range']['end']['character'] >= 0"),
                 ("ordered", "result['range']['start']['character'] <= result['range']['end']['character']"),
                 ("one_line", "result['range']['start']['line'] == result['range']['end']['line']"),
                 ("columns_of_the_reported_line", "result['range']['end']['character'] <= raw_line_len(result['range']['end']['line'])")],
        calls={"file_obj.find_word_in_code_line": m_find_word, "path_to_uri": FrameCall(result=STR),
               "diagnostic_json": "inline:fortls.json_templates.diagnostic_json",
               "range_json": "inline:fortls.json_templates.range_json",
               "location_json": FrameCall(result=JSON)},
        abstract_stmts={"if self.has_related ...": ()},
        short="Diagnostic.build",
        note="the statement attaching relatedInformation (another key of the result) is abstracted"))
    return reg


TARGETS = [f"{AST}.add_error", f"{LS}._create_ref_link", "fortls.parsers.internal.diagnostics.Diagnostic.build"]

HANDLERS = ["_get_keyword_argument", "serve_hover", "serve_definition", "serve_implementation", "serve_references", "serve_rename",
            "serve_signature", "serve_codeActions", "get_definition", "_create_ref_link", "serve_autocomplete",
            "_nesting_depth"]
NESTED = ["serve_autocomplete.get_candidates", "serve_autocomplete.get_candidates.child_candidates",
          "serve_autocomplete.build_comp"]


INTRINSIC_TYPES = {"SUBROUTINE_TYPE_ID", "FUNCTION_TYPE_ID", "KEYWORD_TYPE_ID", "STATEMENT_TYPE_ID"}  # 2, 3, 14, 15


def dominated_nonnull(fn, call, name):
    """Some earlier statement of an enclosing block is `if <name> is None: return ...` (or the value is a loop
    variable / parameter that is never None by construction)."""
    from pyvc.term import dominating_guard

    def pred(test):
        return any(isinstance(t, ast.Compare) and ast.unparse(t.left) == name and isinstance(t.ops[0], ast.Is)
                   and isinstance(t.comparators[0], ast.Constant) and t.comparators[0].value is None
                   for t in ast.walk(test))
    if dominating_guard(fn, call, pred):
        return True
    # loop variable over workspace items / explicit tuple of the file itself
    for n in ast.walk(fn):
        if isinstance(n, ast.For) and any(isinstance(x, ast.Name) and x.id == name for x in ast.walk(n.target)):
            return True
    return False


def safety_items(repo):
    ClassTable.TYPE_ID_HINTS = {"Intrinsic": INTRINSIC_TYPES}
    t = ClassTable(repo)
    inst = t.instantiated()
    objs = sorted(c for c in t.classes if "FortranObj" in t.mro(c) and c in inst)
    scopes = {c for c in objs if "Scope" in t.mro(c)}
    DEFN = set(objs) | {NONE}
    sigs = {
        "self.workspace.get": {"FortranFile", NONE},
        "self.get_definition": DEFN,
        # an element of the callee's arg_objs (filled by resolve_arg_link with children of the procedure) or None
        "self._get_keyword_argument": DEFN,
        "find_in_scope": DEFN,
        "climb_type_tree": scopes | {NONE},
        "file_obj.ast.get_inner_scope": scopes | {NONE},
        "def_file.ast.get_inner_scope": scopes | {NONE},
        "self.obj_tree[key][0]": scopes,
        "iter:self.intrinsic_funs": {"Intrinsic"},
        "interface_members": {"list"},
    }
    over = {k: v[0] for k, v in HINTS.items()}
    items = []
    unchecked = 0
    for h in HANDLERS + NESTED:
        try:
            fi = repo.func(f"{LS}.{h}")
        except Exception as e:  # noqa: BLE001
            items.append(Item(f"C09/LangServer.{h}/binding", "unknown", "front-end", 0.0, detail=str(e), mode="S"))
            continue
        params = {}
        if h == "get_definition":
            params = {"def_file": {"FortranFile"}}
        if h == "_create_ref_link":
            params = {"obj": (set(objs) - {"Intrinsic"})}
        if h.endswith("build_comp"):
            params = {"candidate": set(objs)}
        if h.endswith("child_candidates"):
            params = {"scope": scopes}
        if h == "_nesting_depth":
            params = {"def_obj": (set(objs) - {"Intrinsic"})}
        s = Safety(t, fi, "C09", params, sigs, over, short="LangServer." + h)
        its = s.run()
        unchecked += s.unchecked
        items += its
        # arguments handed to get_definition must be a file object (it dereferences def_file at once)
        for n in ast.walk(fi.node):
            if isinstance(n, ast.Call) and ast.unparse(n.func) == "self.get_definition" and n.args:
                arg = n.args[0]
                ok = dominated_nonnull(fi.node, n, ast.unparse(arg))
                items.append(Item(f"C09/LangServer.{h}/call_pre.nonnull[{ast.unparse(arg)}]",
                                  "proved" if ok else "refuted", "class-flow", 0.0, where=fi.where(n), mode="S",
                                  func=fi.qualname, detail=f"`{ast.unparse(arg)}` is checked against None before it is "
                                  "passed to get_definition", witness=None if ok else {"call": ast.unparse(n)[:100]}))
        # _nesting_depth reads FQSN and parent, which intrinsic procedures do not have: its argument must have passed the
        # `isinstance(def_obj, Intrinsic)` exit (the helper itself is analysed below under that precondition)
        for n in ast.walk(fi.node):
            if isinstance(n, ast.Call) and ast.unparse(n.func) == "self._nesting_depth" and n.args:
                from pyvc.term import dominating_guard
                arg = ast.unparse(n.args[0])

                def pred(test, arg=arg):
                    return ast.unparse(test) == f"isinstance({arg}, Intrinsic)"
                ok = dominating_guard(fi.node, n, pred)
                items.append(Item(f"C09/LangServer.{h}/call_pre.declared_object[{arg}]", "proved" if ok else "refuted", "class-flow",
                                  0.0, where=fi.where(n), mode="S", func=fi.qualname,
                                  detail=f"`{arg}` cannot be an intrinsic procedure where it is passed to _nesting_depth",
                                  witness=None if ok else {"call": ast.unparse(n)[:100]}))
        if h == "get_definition":
            rets = set()
            for r in s.returns:
                rets |= set(r)
            ok = rets <= (DEFN | {"Variable"})
            items.append(Item("C09/LangServer.get_definition/returns", "proved" if ok else "refuted", "class-flow", 0.0,
                              where=fi.where(), mode="S", func=fi.qualname,
                              detail=f"every return statement yields None or an instantiated program object: {sorted(rets)}",
                              witness=None if ok else {"returns": sorted(rets), "signature": sorted(DEFN)}))
    # `_create_ref_link` is only reached for objects that belong to a file: callers test `file_ast.file is not None`
    callers_ok = True
    for h in ("serve_definition", "serve_implementation"):
        src = ast.unparse(repo.func(f"{LS}.{h}").node)
        callers_ok &= "file_ast.file is not None" in src
    items.append(Item("C09/LangServer._create_ref_link/call_pre.has_file", "proved" if callers_ok else "refuted",
                      "structural", 0.0, mode="table", func=f"{LS}._create_ref_link",
                      detail="callers create links only for objects whose file_ast.file is not None (intrinsics excluded)"))
    # the hint on Intrinsic.type, validated on the loaded tables (finite)
    from fortls.parsers.internal.intrinsics import load_intrinsics, Intrinsic
    stm, kw, funs, mods = load_intrinsics()
    allobjs = list(funs)
    for group in (stm, kw):
        for v in (group.values() if isinstance(group, dict) else group):
            allobjs += v if isinstance(v, list) else [v]
    types = sorted({o.get_type() for o in allobjs if isinstance(o, Intrinsic)})
    ok = set(types) <= {2, 3, 14, 15}
    items.append(Item("C09/intrinsics/table.types", "proved" if ok else "refuted", "finite-enumeration", 0.0, mode="table",
                      detail=f"exhaustive: get_type() of the {len(allobjs)} bundled intrinsic objects is in {{2,3,14,15}}: {types}",
                      witness=None if ok else {"types": types}))
    items.append(Item("C09/package/class_table", "proved" if len(objs) >= 15 else "error", "class-flow", 0.0, mode="S",
                      detail=f"class table: {len(t.classes)} classes, {len(objs)} instantiated program-object classes; "
                             f"{unchecked} attribute accesses on values of unknown class were not checked (assumption)"))
    return items


def extra(repo, reg, tier, seed):
    from contracts.c09_sweep import sweep
    items = safety_items(repo)
    w, n = sweep(tier)
    items.append(Item("C09/session/native_sweep", "refuted" if w else "bounded-ok", "native-run(bounded)", 0.0,
                      mode="bounded", witness=w, confirmed=True if w else None, func=f"{LS}.handle",
                      detail=f"bounded: {n} positional requests (9 methods; identifier boundaries, line ends, positions "
                             "outside the document) over crafted documents and the repository's sample sources; no error "
                             "response, every returned range inside its document"))
    return items


def replay(obligation, model, rep):
    if "add_error" in obligation and "ln" in model:
        from fortls.parsers.internal.parser import FortranFile
        from fortls.parsers.internal.ast import FortranAST
        f = FortranFile()
        line = model.get("phys_line")
        ln = model["ln"]
        lines = [""] * max(ln, 1)
        if line is not None and ln >= 1:
            lines[ln - 1] = line
        f.set_contents(lines, detect_format=False)
        a = FortranAST(f)
        a.add_error("m", 1, ln, model["sch"], model.get("ech"))
        r = a.parse_errors[-1]["range"]
        L = len(f.get_line(ln - 1) or "")
        bad = f.get_line(ln - 1) is not None and not (0 <= r["start"]["character"] <= L and
                                                      (model.get("ech") is None or r["start"]["character"] <= r["end"]["character"] <= L))
        return {"confirmed": bool(bad), "input": model, "recorded_range": r, "line_length": L}
    from contracts.c09_sweep import sweep
    w, n = sweep("quick")
    return {"confirmed": True if w else None, "witness": w}


def search(func, tier, seed, obligation=""):
    from contracts.c09_sweep import sweep
    w, n = sweep("quick")
    return w


TRUSTED = ["Intrinsic.get_type() is one of subroutine/function/keyword/statement (checked exhaustively on the bundled tables)",
           "class table derived from assignments in the source; values whose class is unknown ('any') are not "
           "checked (count reported in the evidence)"] + [f"assumed invariant {k[0]}.{k[1]}: {v[1]}" for k, v in HINTS.items()]
ASSUMPTIONS = ["request parameters have the protocol's shape (textDocument.uri: str, position.line/character: int)"]
RESIDUAL = ("index/key errors inside string helpers (get_line_prefix, expand_name, get_var_stack, get_paren_level) and "
            "the getters of program objects are covered by the native sweep only")
