"""C16 — wire framing is byte-exact in both directions.

Byte streams are modelled as SMT strings in which every character is one byte; utf8_decode turns such a
byte string into text, blen(s) is the UTF-8 byte length of a text.  The frame grammar is the LSP base
protocol: (field CRLF)+ CRLF body, exactly one field `Content-Length: <byte length of body>`, fields in any
order (any number of other fields before and after it).
"""
from pyvc import smt
from pyvc.smt import And, Or, Not, Implies, Ite, Eq, IntVal, StrVal, Len, Add, Sub, Lt, Le, Ge, Gt, Concat, Extract, At, Unit
from pyvc.types import *
from pyvc.contract import Contract, LoopSpec, Raises, FrameCall
from pyvc.results import Item

RPC = "fortls.jsonrpc"
CL = "Content-Length: "
SEQS = smt.SeqS(smt.STR)


# ------------------------------------------------------------------ spec functions
def _blen(eng):
    return eng.decls.fun("blen", [smt.STR], smt.INT)


def _ascii(eng):
    return eng.decls.fun("is_ascii", [smt.STR], smt.BOOL)


def blen_of(eng, t):
    d = eng.decls
    b = _blen(eng)(t)
    d.ground_axiom("blen.ge_len", Ge(b, Len(t)))
    d.ground_axiom("blen.ascii", Implies(_ascii(eng)(t), Eq(b, Len(t))))
    return b


def sp_blen(eng, st, s):
    return V(INT, blen_of(eng, s.t))


def sp_is_ascii(eng, st, s):
    return V(BOOL, _ascii(eng)(s.t))


def sp_dumps(eng, st, j):
    return V(STR, eng.decls.fun("json_dumps", [j.t.sort], smt.STR)(j.t))


def sp_loads(eng, st, s):
    return V(JSON, eng.decls.fun("json_loads", [smt.STR], sort_of(JSON, eng.decls))(s.t))


def sp_decode(eng, st, s):
    return V(STR, eng.decls.fun("utf8_decode", [smt.STR], smt.STR)(s.t))


def sp_delta(eng, st, new, old):
    return V(STR, Extract(new.t, Len(old.t), Sub(Len(new.t), Len(old.t))))


def sp_startswith(eng, st, s, p):
    return V(BOOL, smt.PrefixOf(p.t, s.t))


def sp_endswith(eng, st, s, p):
    return V(BOOL, smt.SuffixOf(p.t, s.t))


def sp_contains(eng, st, s, p):
    return V(BOOL, smt.Contains(s.t, p.t))


def cl_line_term(eng, n):
    """`Content-Length: <n>\\r\\n` together with the library facts the parser of that line relies on."""
    d = eng.decls
    digits = smt.app(smt.STR, "str.from_int", n)
    tail = Concat(digits, StrVal("\r\n"))
    line = Concat(StrVal(CL), tail)
    split = d.fun("py_split", [smt.STR, smt.STR], SEQS)
    strip = d.fun("py_strip", [smt.STR], smt.STR)
    int_ok = d.fun("py_int_ok", [smt.STR], smt.BOOL)
    int_of = d.fun("py_int_of", [smt.STR], smt.INT)
    nn = Ge(n, IntVal(0))
    d.ground_axiom("split.cl", Implies(nn, Eq(split(line, StrVal(CL)), smt.SeqLit(smt.STR, [StrVal(""), tail]))))
    d.ground_axiom("strip.cl", Implies(nn, Eq(strip(tail), digits)))
    # the same facts for the value after the colon (" <n>\r\n") and for the field name
    d.ground_axiom("strip.cl_value", Implies(nn, Eq(strip(Concat(StrVal(" "), tail)), digits)))
    d.ground_axiom("strip.cl_name", Eq(strip(StrVal("Content-Length")), StrVal("Content-Length")))
    d.ground_axiom("lower.cl_name", Eq(d.fun("py_lower", [smt.STR], smt.STR)(StrVal("Content-Length")), StrVal("content-length")))
    d.ground_axiom("int.cl", Implies(nn, And(int_ok(digits), Eq(int_of(digits), n))))
    return line


def sp_cl_line(eng, st, n):
    return V(STR, cl_line_term(eng, n.t))


def header_key_term(d, t):
    """lower(strip(text before the first colon)) — the case-insensitive name of a header field line"""
    i = smt.IndexOf(t, StrVal(":"), IntVal(0))
    name = Ite(Ge(i, IntVal(0)), smt.Extract(t, IntVal(0), i), t)
    return d.fun("py_lower", [smt.STR], smt.STR)(d.fun("py_strip", [smt.STR], smt.STR)(name))


def is_hline_term(t, d=None):
    n = Len(t)
    other = Not(smt.PrefixOf(StrVal(CL), t)) if d is None else Not(Eq(header_key_term(d, t), StrVal("content-length")))
    return And(Gt(n, IntVal(2)), smt.SuffixOf(StrVal("\r\n"), t),
               Eq(smt.IndexOf(t, StrVal("\n"), IntVal(0)), Sub(n, IntVal(1))), other)


def sp_is_hline(eng, st, s):
    """A header field line other than Content-Length: `name: value\\r\\n`."""
    return V(BOOL, is_hline_term(s.t, eng.decls))


def sp_all_hlines(eng, st, S):
    """Every element of S is a header field line (a universally quantified fact used through its instances,
    which hdr_facts adds at the indices the proof looks at)."""
    return V(BOOL, eng.decls.fun("all_hlines", [SEQS], smt.BOOL)(S.t))


def sp_hjoin(eng, st, H, j):
    """Concatenation of the header lines H[j:] (defining equations instantiated at j)."""
    d = eng.decls
    f = d.fun("hjoin", [SEQS, smt.INT], smt.STR)
    cur = f(H.t, j.t)
    if "q_" not in j.t.s:
        d.ground_axiom("hjoin.end", Eq(f(H.t, Len(H.t)), StrVal("")))
        d.ground_axiom("hjoin.step", Implies(And(Le(IntVal(0), j.t), Lt(j.t, Len(H.t))),
                                             Eq(cur, Concat(At(H.t, j.t), f(H.t, Add(j.t, IntVal(1)))))))
    return V(STR, cur)


def sp_headers(eng, st, pre, n, post):
    """All lines of the header section: pre ++ [Content-Length line] ++ post ++ [CRLF]."""
    cl = cl_line_term(eng, n.t)
    return V(TSeq(STR), Concat(Concat(Concat(pre.t, Unit(cl)), post.t), Unit(StrVal("\r\n"))))


def sp_hdr_facts(eng, st, pre, n, post, i):
    """Valid consequences of H = pre ++ [cl] ++ post ++ [CRLF] at index i (sequence-theory facts handed to the
    solver as ground lemmas; they hold for every value of i)."""
    d = eng.decls
    H = sp_headers(eng, st, pre, n, post).t
    cl = cl_line_term(eng, n.t)
    lp, lq, one = Len(pre.t), Len(post.t), IntVal(1)
    it = i.t
    if "q_" not in it.s:
        d.ground_axiom("hdr.len", Eq(Len(H), Add(Add(lp, lq), IntVal(2))))
        d.ground_axiom("hdr.pre", Implies(And(Le(IntVal(0), it), Lt(it, lp)), Eq(At(H, it), At(pre.t, it))))
        d.ground_axiom("hdr.cl", Implies(Eq(it, lp), Eq(At(H, it), cl)))
        d.ground_axiom("hdr.post", Implies(And(Lt(lp, it), Le(it, Add(lp, lq))),
                                           Eq(At(H, it), At(post.t, Sub(Sub(it, lp), one)))))
        d.ground_axiom("hdr.end", Implies(Eq(it, Add(Add(lp, lq), one)), Eq(At(H, it), StrVal("\r\n"))))
        allh = d.fun("all_hlines", [SEQS], smt.BOOL)
        pj = Sub(Sub(it, lp), one)
        d.ground_axiom("hlines.pre", Implies(And(allh(pre.t), Le(IntVal(0), it), Lt(it, lp)),
                                             is_hline_term(At(pre.t, it), d)))
        d.ground_axiom("hlines.post", Implies(And(allh(post.t), Le(IntVal(0), pj), Lt(pj, lq)),
                                              is_hline_term(At(post.t, pj), d)))
    return V(BOOL, smt.TRUE)


def sp_parse_cl(eng, st, line):
    d = eng.decls
    return V(TOpt(INT), d.fun("parse_cl", [smt.STR], d.option(smt.INT))(line.t))


SPEC_ENV = {"blen": sp_blen, "is_ascii": sp_is_ascii, "dumps": sp_dumps, "loads": sp_loads, "decode": sp_decode,
            "delta": sp_delta, "startswith": sp_startswith, "endswith": sp_endswith, "contains": sp_contains,
            "cl_line": sp_cl_line, "is_hline": sp_is_hline, "hjoin": sp_hjoin, "headers": sp_headers,
            "parse_cl": sp_parse_cl, "hdr_facts": sp_hdr_facts, "all_hlines": sp_all_hlines}
AXIOMS = {}


# ------------------------------------------------------------------ library models
def m_json_dumps(eng, st, node, args, kwargs):
    """json.dumps(v, ...): text of v; ASCII-only unless ensure_ascii=False is passed (keywords read from the AST)."""
    import ast
    d = eng.decls
    j = pyops_to_json(eng, args[0])
    res = d.fun("json_dumps", [j.t.sort], smt.STR)(j.t)
    ascii_on = True
    for kw in node.keywords:
        if kw.arg == "ensure_ascii":
            ascii_on = isinstance(kw.value, ast.Constant) and bool(kw.value.value)
    if ascii_on:
        st.assume(_ascii(eng)(res))
    return V(STR, res)


def pyops_to_json(eng, v):
    from pyvc.pyops import to_json
    return to_json(eng, v)


def m_json_loads(eng, st, node, args, kwargs):
    d = eng.decls
    s = args[0]
    ok = d.fun("json_valid", [smt.STR], smt.BOOL)(s.t)
    eng.may_raise(st, ok, "ValueError", "json.loads(body)")
    return V(JSON, d.fun("json_loads", [smt.STR], sort_of(JSON, d))(s.t))


def m_conn_write(eng, st, node, args, kwargs):
    cur = eng.heap_get(st, ("self", "conn", "out"))
    eng.heap_set(st, ("self", "conn", "out"), V(STR, Concat(cur.t, args[0].t)))
    return NoneV()


m_conn_write.modifies = ["self.conn.out"]


def m_conn_readline(eng, st, node, args, kwargs):
    """ReadWriter.readline() at line level: the header section of the current frame is a queue of lines
    (each ends in its only LF, so BufferedReader.readline returns exactly one of them per call); once the
    queue is empty, bytes come from the rest of the stream up to and including the next LF.  Header bytes are
    ASCII by the frame grammar, where decoding is the identity."""
    lines = eng.heap_get(st, ("self", "conn", "lines"))
    rest = eng.heap_get(st, ("self", "conn", "inp")).t
    has = Gt(Len(lines.t), IntVal(0))
    i = smt.IndexOf(rest, StrVal("\n"), IntVal(0))
    k = Ite(Lt(i, IntVal(0)), Len(rest), Add(i, IntVal(1)))
    line = Ite(has, At(lines.t, IntVal(0)), Extract(rest, IntVal(0), k))
    out = eng.name_value(st, "line_read", V(STR, line))
    eng.heap_set(st, ("self", "conn", "lines"),
                 V(TSeq(STR), Ite(has, Extract(lines.t, IntVal(1), Sub(Len(lines.t), IntVal(1))), lines.t)))
    eng.heap_set(st, ("self", "conn", "inp"), V(STR, Ite(has, rest, Extract(rest, k, Sub(Len(rest), k)))))
    return out


m_conn_readline.modifies = ["self.conn.inp", "self.conn.lines"]


def m_conn_read(eng, st, node, args, kwargs):
    """ReadWriter.read(n): exactly n bytes (fewer only at end of stream), then decoded; read(None): everything.
    Only meaningful once the header queue is empty (obligation)."""
    d = eng.decls
    lines = eng.heap_get(st, ("self", "conn", "lines"))
    eng.oblige(f"C16/{eng.c.short}/call[self.conn.read].requires.headers_consumed", st,
               Eq(Len(lines.t), IntVal(0)), kind="call_pre")
    inp = eng.heap_get(st, ("self", "conn", "inp")).t
    a = args[0]
    if isinstance(a, NoneV):
        n = Len(inp)
    elif isinstance(a.ty, TOpt):
        n = Ite(d.is_some(a.t), d.opt_val(a.t), Len(inp))
    else:
        n = a.t
    n = Ite(Lt(n, IntVal(0)), Len(inp), smt.Min(n, Len(inp)))
    data = Extract(inp, IntVal(0), n)
    eng.heap_set(st, ("self", "conn", "inp"), V(STR, Extract(inp, n, Sub(Len(inp), n))))
    return V(STR, d.fun("utf8_decode", [smt.STR], smt.STR)(data))


m_conn_read.modifies = ["self.conn.inp"]


def build(reg):
    CONN = {"self.conn.out": STR, "self.conn.inp": STR, "self.conn.lines": TSeq(STR),
            "self.conn": TObj("ReadWriter")}
    reg.add(Contract(
        f"{RPC}.JSONRPC2Connection._send", prop="C16", receiver_cls="JSONRPC2Connection", params={"body": JSON},
        fields=CONN, modifies=["self.conn.out"],
        ensures=[
            ("appends", "startswith(self.conn.out, old(self.conn.out))"),
            ("length_is_bytes", "startswith(delta(self.conn.out, old(self.conn.out)), "
                                "'Content-Length: ' + str(blen(dumps(body))) + '\\r\\n')"),
            ("frame_grammar", "endswith(delta(self.conn.out, old(self.conn.out)), '\\r\\n\\r\\n' + dumps(body))"),
            ("one_blank_line", "not contains(delta(self.conn.out, old(self.conn.out))[:len(delta(self.conn.out, "
                               "old(self.conn.out))) - len(dumps(body)) - 2], '\\r\\n\\r\\n')"),
        ],
        calls={"json.dumps": m_json_dumps, "self.conn.write": m_conn_write},
        short="JSONRPC2Connection._send"))
    reg.add(Contract(
        f"{RPC}.JSONRPC2Connection._read_header_content_length", prop="C16", receiver_cls="JSONRPC2Connection",
        params={"line": STR, "n": INT, "is_cl": BOOL}, result=TOpt(INT),
        requires=[("cl", "implies(is_cl, n >= 0 and line == cl_line(n))"),
                  ("other", "implies(not is_cl, is_hline(line) or line == '\\r\\n')")],
        ensures=[("value", "implies(is_cl, result == n)"), ("none", "implies(not is_cl, result is None)")],
        short="JSONRPC2Connection._read_header_content_length",
        ghost={"exc_fields": {"JSONRPC2ProtocolError": ["message"]}}))
    H = "headers(pre, n, post)"
    reg.add(Contract(
        f"{RPC}.JSONRPC2Connection._receive", prop="C16", receiver_cls="JSONRPC2Connection",
        params={"pre": TSeq(STR), "post": TSeq(STR), "n": INT, "payload": STR, "rest": STR, "at_eof": BOOL},
        fields=CONN, result=JSON, modifies=["self.conn.inp", "self.conn.lines"],
        locals_={"length": TOpt(INT), "value": TOpt(INT)},
        requires=[
            ("eof", "implies(at_eof, self.conn.inp == '' and len(self.conn.lines) == 0)"),
            ("frame", f"implies(not at_eof, self.conn.lines == {H} and self.conn.inp == payload + rest)"),
            ("n", "n >= 0 and len(payload) == n and hdr_facts(pre, n, post, 0)"),
            ("pre_lines", "all_hlines(pre)"),
            ("post_lines", "all_hlines(post)"),
            ("valid_json", "json_valid(decode(payload))"),
        ],
        ensures=[("message", "result == loads(decode(payload))"),
                 ("consumes_one_frame", "self.conn.inp == rest and len(self.conn.lines) == 0")],
        raises=[Raises("EOFError", when="at_eof")],
        calls={"self.conn.readline": m_conn_readline, "self.conn.read": m_conn_read, "json.loads": m_json_loads,
               "self._read_header_content_length": (f"{RPC}.JSONRPC2Connection._read_header_content_length",
                                                    {"n": "n", "is_cl": "line == cl_line(n)"})},
        loops={0: LoopSpec("while line != '\\r\\n'", ghost={"c": (INT, "1", "c + 1")}, variant=f"len({H}) - c", invariants=[
            ("count", f"1 <= c and c <= len({H}) and hdr_facts(pre, n, post, c - 1) and hdr_facts(pre, n, post, c)"),
            ("line", f"line == {H}[c - 1]"),
            ("stream", f"self.conn.lines == {H}[c:] and self.conn.inp == payload + rest"),
            ("length", "ite(c - 1 >= len(pre), length == n, length is None)"),
        ])},
        short="JSONRPC2Connection._receive"))
    return reg


def sp_json_valid(eng, st, s):
    return V(BOOL, eng.decls.fun("json_valid", [smt.STR], smt.BOOL)(s.t))


SPEC_ENV["json_valid"] = sp_json_valid

TARGETS = [
    f"{RPC}.JSONRPC2Connection._send",
    f"{RPC}.JSONRPC2Connection._read_header_content_length",
    f"{RPC}.JSONRPC2Connection._receive",
]

TRUSTED = [
    "json.dumps(v) is ASCII-only unless ensure_ascii=False (keyword read from the AST); json.loads raises ValueError "
    "or returns the value; io.BufferedReader.read(n) returns exactly n bytes unless the stream ends, whatever the "
    "chunking of the pipe; readline returns through the next LF",
    "str.partition/strip/lower/int on the Content-Length line `Content-Length: <digits>\\r\\n` (ground library facts, "
    "validated natively for sampled n); other spellings of the field name and spacing are covered by the native frame round trip",
    "blen(s) >= len(s) and is_ascii(s) => blen(s) == len(s) (UTF-8)",
]
ASSUMPTIONS = ["header bytes are ASCII (LSP base protocol); the input stream is a sequence of grammatical frames"]
RESIDUAL = "json/io/urllib internals; behaviour on ungrammatical streams beyond 'EOF or protocol error, no hang'"


# ------------------------------------------------------------------ native replay / search
def _frames_roundtrip():
    """Native check of both directions on payloads with non-ASCII text, both header orders, back-to-back frames."""
    import io
    import json
    from fortls.jsonrpc import JSONRPC2Connection, ReadWriter
    # the long texts put a multi-byte character across every power-of-two byte offset up to 64 KiB (a reader that
    # decodes the body piecewise would split one), with 1-, 2-, 3- and 4-byte characters
    payloads = [{"a": 1}, {"t": "é中\U0001F600", "p": "/tmp/ü x%#?"}, [], "x", {"n": None},
                {"text": "aé" * 30000}, {"text": "中" * 25000 + "x" + "中" * 25000}, {"text": "ab\U0001F600" * 20000}]
    # writer side
    for p in payloads:
        out = io.BytesIO()
        conn = JSONRPC2Connection(ReadWriter(io.BytesIO(b""), out))
        conn.write_response(7, p)
        raw = out.getvalue()
        head, sep, body = raw.partition(b"\r\n\r\n")
        fields = dict(l.split(b": ", 1) for l in head.split(b"\r\n") if l)
        if not sep or int(fields.get(b"Content-Length", b"-1")) != len(body) or b"\r\n\r\n" in head:
            return {"direction": "write", "payload": p, "raw": raw.decode("utf-8", "replace"),
                    "declared": fields.get(b"Content-Length", b"").decode(), "actual_bytes": len(body)}
        if json.loads(body.decode("utf-8")) != {"jsonrpc": "2.0", "id": 7, "result": p}:
            return {"direction": "write", "payload": p, "problem": "body does not decode to the message"}
    # the library facts the header contract assumes about str methods
    for k in (0, 7, 10, 123456):
        if (" " + str(k) + "\r\n").strip() != str(k) or "Content-Length".strip().lower() != "content-length" \
                or ("Content-Length: %d\r\n" % k).partition(":") != ("Content-Length", ":", " %d\r\n" % k):
            return {"direction": "library facts", "n": k}
    # reader side
    def fr(msg, order):
        b = json.dumps(msg, ensure_ascii=False).encode("utf-8")
        cl = b"Content-Length: " + str(len(b)).encode() + b"\r\n"
        ct = b"Content-Type: application/vscode-jsonrpc; charset=utf-8\r\n"
        n = str(len(b)).encode()
        hdr = {"cl": cl, "cl_ct": cl + ct, "ct_cl": ct + cl, "ct_cl_x": ct + cl + b"X-Other: 1\r\n",
               # header field names are case insensitive, white space around the value is optional
               "lower": b"content-length: " + n + b"\r\n", "nospace": b"Content-Length:" + n + b"\r\n" + ct,
               "upper_spaces": ct + b"CONTENT-LENGTH:   " + n + b"  \r\n"}[order]
        return hdr + b"\r\n" + b
    for order in ("cl", "cl_ct", "ct_cl", "ct_cl_x", "lower", "nospace", "upper_spaces"):
        msgs = [{"jsonrpc": "2.0", "id": i, "method": "m", "params": p} for i, p in enumerate(payloads)]
        data = b"".join(fr(m, order) for m in msgs)
        conn = JSONRPC2Connection(ReadWriter(io.BytesIO(data), io.BytesIO()))
        got = []
        try:
            for _ in msgs:
                got.append(conn._receive())
            try:
                conn._receive()
                extra = "no EOFError at end of stream"
            except EOFError:
                extra = None
        except Exception as e:  # noqa: BLE001
            return {"direction": "read", "header_order": order, "stream": data.decode("utf-8", "replace")[:300],
                    "decoded_so_far": got, "exception": repr(e)}
        if got != msgs or extra:
            return {"direction": "read", "header_order": order, "expected": msgs, "decoded": got, "problem": extra}
    return None


def replay(obligation, model, rep):
    w = _frames_roundtrip()
    return {"confirmed": True if w else None, "witness": w,
            "detail": "counter-models of the framing contracts are replayed by the native frame round trip"}


def _chunked_process():
    """Start the real server process (fortls.main, as the console script does) and deliver one correctly framed request
    whose body arrives in two pipe writes: a conforming peer may split a frame anywhere (bounded: one cut, one delay)."""
    import json, os, subprocess, sys, threading, time, queue
    import fortls
    from replay.harness import Workspace
    ws = Workspace({"m.f90": "module m\n  integer :: alpha\nend module m\n"})
    env = dict(os.environ)
    env["PYTHONPATH"] = os.path.dirname(os.path.dirname(os.path.abspath(fortls.__file__))) + os.pathsep + env.get("PYTHONPATH", "")
    child = "import sys; sys.argv = ['fortls', '--incremental_sync']; import fortls; fortls.main()"
    proc = subprocess.Popen([sys.executable, "-c", child], stdin=subprocess.PIPE, stdout=subprocess.PIPE,
                            stderr=subprocess.DEVNULL, cwd=ws.root, bufsize=0, env=env)
    out = queue.Queue()

    def frame(msg):
        body = json.dumps(msg).encode("utf-8")
        return b"Content-Length: %d\r\n\r\n" % len(body) + body

    def reader(stream):
        try:
            while True:
                length = None
                while True:
                    line = stream.readline()
                    if not line:
                        out.put(None)
                        return
                    if line == b"\r\n":
                        break
                    name, _, value = line.partition(b":")
                    if name.strip().lower() == b"content-length":
                        length = int(value.strip())
                body = b""
                while len(body) < length:
                    chunk = stream.read(length - len(body))
                    if not chunk:
                        out.put(None)
                        return
                    body += chunk
                out.put(json.loads(body.decode("utf-8")))
        except Exception:
            out.put(None)

    def wait_for(rid, timeout):
        end = time.time() + timeout
        seen = []
        while time.time() < end:
            try:
                msg = out.get(timeout=max(0.05, end - time.time()))
            except queue.Empty:
                break
            if msg is None:
                return None, seen + ["<server closed its output>"]
            if msg.get("id") == rid:
                return msg, seen
            seen.append(msg)
        return None, seen + ["<timeout>"]

    threading.Thread(target=reader, args=(proc.stdout,), daemon=True).start()
    try:
        proc.stdin.write(frame({"jsonrpc": "2.0", "id": 1, "method": "initialize", "params": {"rootPath": ws.root}}))
        resp, seen = wait_for(1, 120)
        if resp is None:
            # the process could not be started or initialised here: nothing is decided about chunking
            return None
        data = frame({"jsonrpc": "2.0", "id": 2, "method": "workspace/symbol", "params": {"query": "alpha"}})
        cut = len(data) - 20
        proc.stdin.write(data[:cut])
        time.sleep(0.5)
        try:
            proc.stdin.write(data[cut:])
        except (BrokenPipeError, OSError):
            pass
        resp, seen = wait_for(2, 60)
        if resp is None or "result" not in resp:
            return {"scenario": "one request whose body is delivered in two pipe writes 0.5 s apart to the real process",
                    "frame": data.decode("utf-8"), "first_chunk_bytes": cut, "response": resp,
                    "other_messages": [str(m)[:200] for m in seen]}
        return None
    finally:
        try:
            proc.kill()
        except Exception:
            pass
        proc.wait()
        ws.close()


def search(func, tier, seed, obligation=""):
    return _frames_roundtrip()


def extra(repo, reg, tier, seed):
    import ast as _ast
    items = []
    # ReadWriter: bytes are counted before decoding; writes are encoded and flushed (structural obligations)
    want = {
        "read": "data = self.reader.read(*args)\nreturn data.decode('utf-8')",
        "readline": "data = self.reader.readline(*args)\nreturn data.decode('utf-8')",
        "write": "self.writer.write(out.encode())\nself.writer.flush()",
    }
    for m, body in want.items():
        fi = repo.func(f"{RPC}.ReadWriter.{m}")
        got = "\n".join(_ast.unparse(s) for s in fi.node.body)
        ok = got == body
        items.append(Item(f"C16/ReadWriter.{m}/ensures.counts_bytes", "proved" if ok else "refuted", "structural",
                          0.0, where=fi.where(), mode="table", func=fi.qualname,
                          detail=f"body is `{body}`" if ok else f"body is now `{got}`",
                          witness=None if ok else {"expected_shape": body, "found": got}))
    fi = repo.func("fortls.main")
    src = _ast.unparse(fi.node)
    from pyvc import shape
    # whatever the two locals are called: they are bound to the binary streams and handed to ReadWriter in that order
    env = {}
    ok = shape.has(shape.normalise(fi.node), "stdin, stdout = sys.stdin.buffer, sys.stdout.buffer", shape.Free({"stdin", "stdout"}), env)
    ok = ok and shape.has(shape.normalise(fi.node), f"ReadWriter({env.get('stdin', 'stdin')}, {env.get('stdout', 'stdout')})")
    wch = _chunked_process()
    items.append(Item("C16/main/effects.binary_streams", "proved" if ok else "refuted", "structural", 0.0,
                      where=fi.where(), mode="table", func=fi.qualname,
                      detail="the server is connected to sys.stdin.buffer / sys.stdout.buffer",
                      witness=None if ok else (wch or {"found": src[:400]}), confirmed=True if (wch and not ok) else None))
    items.append(Item("C16/main/native_chunked_stdin", "refuted" if wch else "bounded-ok", "native-run(bounded)", 0.0,
                      mode="bounded", func="fortls.main", witness=wch, confirmed=True if wch else None,
                      detail="bounded: the real server process (fortls.main over OS pipes) is sent one request whose body "
                             "arrives in two writes 0.5 s apart and must answer it (reads of the body may not be short)"))
    # URI round trip: bounded, exhaustive over short paths from an alphabet with the characters that matter
    import itertools
    from fortls.jsonrpc import path_from_uri, path_to_uri
    alphabet = ["a", " ", "%", "#", "?", "é", "中", "+", "&", "~", "2", "F", "."]
    bound = 3
    bad = None
    n = 0
    for ln in range(1, bound + 1):
        for tup in itertools.product(alphabet, repeat=ln):
            name = "".join(tup)
            if name in (".", "..") or name.startswith("..") and len(name) == 2:
                continue
            p = "/pyvc_nonexistent_root/" + name
            n += 1
            if path_from_uri(path_to_uri(p)) != p:
                bad = p
                break
        if bad:
            break
    fi = repo.func(f"{RPC}.path_from_uri")
    d = f"bounded: {n} absolute normalised paths, names over {len(alphabet)} characters up to length {bound}"
    if bad:
        items.append(Item("C16/path_uri/lemma.round_trip", "refuted", "finite-enumeration(CPython)", 0.0,
                          where=fi.where(), mode="bounded", func=fi.qualname, detail=d,
                          witness={"path": bad, "uri": path_to_uri(bad), "back": path_from_uri(path_to_uri(bad))},
                          confirmed=True))
    else:
        items.append(Item("C16/path_uri/lemma.round_trip", "bounded-ok", "finite-enumeration(CPython)", 0.0,
                          where=fi.where(), mode="bounded", func=fi.qualname, detail=d))
    # library facts behind cl_line(): validated natively for sampled n
    ok = all(("Content-Length: %d\r\n" % k).split("Content-Length: ") == ["", "%d\r\n" % k]
             and ("%d\r\n" % k).strip() == str(k) and int(str(k)) == k for k in list(range(0, 2000)) + [10 ** 9, 10 ** 15])
    items.append(Item("C16/cl_line/library_facts", "bounded-ok" if ok else "error", "finite-enumeration(CPython)", 0.0,
                      mode="bounded", detail="split/strip/int facts on the Content-Length line for n in 0..1999, 1e9, 1e15"))
    w = _frames_roundtrip()
    items.append(Item("C16/frames/native_round_trip", "bounded-ok" if w is None else "refuted", "native-run(bounded)",
                      0.0, mode="bounded", detail="bounded: 5 payloads x 4 header orders, back-to-back frames, both directions",
                      witness=w, confirmed=True if w else None))
    return items
