"""C15 — the start-up index does not depend on workers, enumeration order or hash seed (narrow layer, DESIGN 3/C15).

Obligations generated from the current source:
  * workers share no state (mode E): file_init is a static method (no server object), the functions reachable from it
    write no module-level variable except the keyword-ordering flag (set to the same configured value by every
    worker) and mutate none of their pp_defs / include_dirs arguments in place;
  * merge order == file-list order whatever the completion order (structure of workspace_init): results are
    requested in a loop over file_list, the pool is closed and joined before any result is read, the merge loop
    iterates the results in insertion order and is the only writer of workspace/obj_tree in workspace_init;
  * two-phase linking: includes of every file are resolved, then link_version is bumped once, then links of every
    file are resolved — no link is resolved before every file is in the index;
  * order-independent resolution of what is linked: Type.resolve_inherit resolves the parent first (shared contract
    of C05/C10/C12), references are collected to a fixed point of the linked-object set (structure).
Equality of every answer across schedules and with the open-one-at-a-time path is decided only on the bounded
schedule exploration (worker counts, permuted enumeration, hash seeds in a separate interpreter, opening orders).
"""
import ast

from pyvc.effects import Effects
from pyvc.results import Item
from contracts import inherit

LS = "fortls.langserver.LangServer"

TARGETS = [f"{inherit.TYPE}._resolve_inherit_parent"]
SPEC_ENV = dict(inherit.SPEC_ENV)
AXIOMS = {}


def build(reg):
    inherit.add(reg, "C15")
    return reg


def structure_items(repo):
    """Facts about the shape of workspace_init, matched on the syntax tree with the local names bound by the match
    (renaming a local or reordering independent statements does not change the verdict)."""
    items = []
    from pyvc import shape
    fw = repo.func(f"{LS}.workspace_init")
    # statement-level calls of helper methods of the server are followed once (the call stays, its body follows it)
    prefix = f"{LS}."
    methods = {q[len(prefix):]: f.node for q, f in repo.all_functions() if q.startswith(prefix) and "." not in q[len(prefix):]}
    expanded = shape.expand_helpers(fw.node, methods)
    body = expanded.body

    def call_name(n):
        return ast.unparse(n.func) if isinstance(n, ast.Call) else None

    pool_var = files_var = results_var = None
    i_pool = i_req = i_close = i_join = i_merge = i_inc = i_bump = i_link = None
    index_writes = []
    for i, st_ in enumerate(body):
        if isinstance(st_, ast.Assign) and len(st_.targets) == 1 and isinstance(st_.targets[0], ast.Name):
            tgt, val = st_.targets[0].id, st_.value
            if call_name(val) == "Pool":
                pool_var, i_pool = tgt, i
            elif call_name(val) == "self._get_source_files":
                files_var = tgt
        if isinstance(st_, ast.For) and isinstance(st_.iter, ast.Name) and st_.iter.id == files_var and isinstance(st_.target, ast.Name):
            for n in ast.walk(st_):
                if isinstance(n, ast.Assign) and isinstance(n.targets[0], ast.Subscript) and isinstance(n.targets[0].value, ast.Name) \
                        and ast.unparse(n.targets[0].slice) == st_.target.id and call_name(n.value) == f"{pool_var}.apply_async" \
                        and n.value.args and ast.unparse(n.value.args[0]) == "self.file_init":
                    results_var, i_req = n.targets[0].value.id, i
        if isinstance(st_, ast.Expr) and call_name(st_.value) == f"{pool_var}.close":
            i_close = i
        if isinstance(st_, ast.Expr) and call_name(st_.value) == f"{pool_var}.join":
            i_join = i
        if isinstance(st_, ast.For) and call_name(st_.iter) == f"{results_var}.items":
            i_merge = i
        if isinstance(st_, ast.For) and call_name(st_.iter) == "self.workspace.items":
            calls = [ast.unparse(n.func).split(".")[-1] for n in ast.walk(st_) if isinstance(n, ast.Call)]
            if "resolve_includes" in calls and "resolve_links" not in calls and i_inc is None:
                i_inc = i
            if "resolve_links" in calls and "resolve_includes" not in calls and i_link is None:
                i_link = i
            if "resolve_links" in calls and "resolve_includes" in calls:
                i_inc = i_link = i  # fused passes
        if isinstance(st_, ast.Assign) and ast.unparse(st_.targets[0]) == "self.link_version":
            i_bump = i
        for n in ast.walk(st_):
            if isinstance(n, (ast.Assign, ast.AugAssign)):
                for t in (n.targets if isinstance(n, ast.Assign) else [n.target]):
                    tt = ast.unparse(t)
                    if tt.startswith("self.workspace[") or tt.startswith("self.obj_tree["):
                        index_writes.append(i)
            if isinstance(n, ast.Call) and ast.unparse(n.func) in ("self.workspace.update", "self.obj_tree.update", "self.workspace.setdefault",
                                                                   "self.obj_tree.setdefault"):
                index_writes.append(i)
    order = [i_pool, i_req, i_close, i_join, i_merge]
    ok = all(i is not None for i in order) and order == sorted(order) and len(set(order)) == len(order)
    items.append(Item("C15/LangServer.workspace_init/ensures.merge_in_file_list_order", "proved" if ok else "refuted",
                      "structural", 0.0, where=fw.where(), mode="table", func=fw.qualname, shape=True,
                      detail="results are requested in a loop over the file list, the pool is closed and joined, then the results are "
                             "merged in insertion (= file-list) order: the completion order of the workers is not observable",
                      witness=None if ok else {"statement_positions(pool, request loop, close, join, merge loop)": order}))
    ok = bool(index_writes) and set(index_writes) == {i_merge}
    items.append(Item("C15/LangServer.workspace_init/modifies.index_written_by_merge_loop_only", "proved" if ok else "refuted",
                      "structural", 0.0, where=fw.where(), mode="table", func=fw.qualname, shape=True,
                      detail="self.workspace and self.obj_tree are written by the merge loop only (main process, after join)",
                      witness=None if ok else {"writer_statements": index_writes, "merge_loop": i_merge}))
    txt = ast.unparse(expanded)
    two_phase = all(i is not None for i in (i_merge, i_inc, i_bump, i_link)) and i_merge < i_inc < i_bump < i_link \
        and txt.count("resolve_links(") == 1 and txt.count("resolve_includes(") == 1
    items.append(Item("C15/LangServer.workspace_init/ensures.links_after_complete_index", "proved" if two_phase else "refuted",
                      "structural", 0.0, where=fw.where(), mode="table", func=fw.qualname, shape=True,
                      detail="includes, then one link_version bump, then links, each over every file and only after the last file "
                             "was merged: no link is resolved against a partial index",
                      witness=None if two_phase else {"positions(merge, includes, bump, links)": [i_merge, i_inc, i_bump, i_link]}))
    fi = repo.func(f"{LS}.file_init")
    decs = [ast.unparse(d) for d in fi.node.decorator_list]
    args = [a.arg for a in fi.node.args.args]
    ok = decs == ["staticmethod"] and "self" not in args
    items.append(Item("C15/LangServer.file_init/frame.no_server_object", "proved" if ok else "refuted", "structural", 0.0,
                      where=fi.where(), mode="table", func=fi.qualname,
                      detail="file_init is a static method: a worker receives the path and copies of the settings, never the server",
                      witness=None if ok else {"decorators": decs, "parameters": args}))
    fr = repo.func(f"{LS}.get_all_references")
    rf_ = shape.of(repo, f"{LS}.get_all_references")
    ok = any(isinstance(n, ast.For) and ast.unparse(n.iter) == "range(2)" and shape.has(n, "if len(override_cache) == n_linked:\n    break")
             for n in ast.walk(rf_))
    items.append(Item("C15/LangServer.get_all_references/ensures.linked_objects_fixed_point", "proved" if ok else "refuted",
                      "structural", 0.0, where=fr.where(), mode="table", func=fr.qualname, shape=True,
                      detail="the scan is repeated when it discovered objects linked to the request, so that the answer does not "
                             "depend on the order of the files"))
    return items


def effect_items(repo):
    eff = Effects(repo)
    items = []
    root = f"{LS}.file_init"
    reach = eff.reachable([root]) if root in eff.funcs else []
    gw, pm = [], []
    for q in reach:
        fe = eff.funcs[q]
        for name, node in fe.global_writes:
            if name != "sort_keywords":
                gw.append({"function": q, "global": name, "where": fe.info.where(node)})
        for param, how, node in fe.param_mutations:
            if param in ("pp_defs", "include_dirs", "pp_suffixes"):
                pm.append({"function": q, "parameter": param, "mutation": how, "where": fe.info.where(node)})
    items.append(Item("C15/LangServer.file_init/modifies.no_shared_state", "refuted" if gw or pm else "proved", "frame-analysis",
                      0.0, mode="E", func=root,
                      detail=f"{len(reach)} functions reachable from file_init: no module-level variable is written except the "
                             "keyword-ordering flag, no settings argument is mutated in place",
                      witness=(gw + pm)[:3] or None))
    return items


def extra(repo, reg, tier, seed):
    from contracts import c15_sched
    items = structure_items(repo) + effect_items(repo)
    w, n = c15_sched.run(tier, seed)
    it = Item("C15/session/schedule_exploration", "refuted" if w else "bounded-ok", "native-run(bounded)", 0.0, mode="bounded",
              witness=w, confirmed=True if w else None, func=f"{LS}.workspace_init",
              detail=f"bounded: {n} schedules of one generated multi-file workspace (USE, EXTENDS, INCLUDE, submodule links): worker "
                     "counts 1-16, permuted enumeration orders, hash seeds in a separate interpreter, and starting on an empty "
                     "directory and opening the files in several orders: identical dump of every symbol/definition/hover/"
                     "completion/references answer and of the diagnostics")
    it.count = n
    items.append(it)
    w, n_hs = c15_sched.include_search_order(tier)
    items.append(Item("C15/session/include_search_order_hash_seeds", "refuted" if w else "bounded-ok", "native-run(bounded)", 0.0,
                      mode="bounded", witness=w, confirmed=True if w else None, func="fortls.parsers.internal.parser.preprocess_file",
                      detail=f"bounded: {n_hs} hash seeds (one interpreter each): a header present next to the including file and in "
                             "two include directories is always taken from the same place"))
    for case in c15_sched.KNOWN_CASES:
        w, n = c15_sched.run_case(case)
        it = Item(f"C15/session/schedule_exploration[{case}]", "refuted" if w else "bounded-ok", "native-run(bounded)", 0.0,
                  mode="bounded", witness=w, confirmed=True if w else None, func=f"{LS}.workspace_init",
                  detail=f"bounded: every enumeration order and every opening order of the {len(c15_sched.KNOWN_CASES[case])}-file "
                         f"workspace '{case}' ({n} schedules)")
        it.count = n
        items.append(it)
    return items


def replay(obligation, model, rep):
    return {"confirmed": None}


def search(func, tier, seed, obligation=""):
    if func.endswith("_resolve_inherit_parent"):
        return inherit.native_search()
    from contracts import c15_sched
    return c15_sched.run(tier, seed)[0]


TRUSTED = ["multiprocessing.Pool: apply_async/close/join/get semantics; pickling returns an equal FortranFile"]
ASSUMPTIONS = ["top-level unit names are unique (property quantifier); sources without shared preprocessor macros"]
RESIDUAL = ("confluence of link resolution over all link kinds (that resolving files in any order yields the same links) is "
            "proved only for type inheritance; for the other links and for the equality of the pooled and the open path it is "
            "observed on the bounded schedule exploration")
