"""Native sweep behind C09 (bounded stand-in): positional requests at many positions of many documents against
the real server, checking that no request is answered with an error and that every returned coordinate addresses
an existing place."""
from __future__ import annotations

import os
import re

METHODS = ["hover", "definition", "implementation", "references", "documentHighlight", "rename", "signatureHelp",
           "completion", "codeAction"]

CRAFTED = {
    "top.f90": "module topm\n  implicit none\n  integer :: tv\ncontains\n  subroutine ts(a)\n    integer :: a\n    a = sin(1.0) + tv\n  end subroutine ts\nend module topm\nprogram main\n  use topm\n  call ts(tv)\nend program main\n",
    "chain.f90": "module cm\n  type :: t\n    type(t), pointer :: x => null()\n    integer :: v\n  end type t\n  type(t) :: a\ncontains\n  subroutine s()\n    a%" + "x%" * 34 + "v = 1\n  end subroutine s\nend module cm\n",
    "outside.f90": "implicit &\n none\ncontains\npublic\ninteger :: lone\nprocedure(foo) :: bar\n",
    "generic.f90": "module gm\n  interface gen\n    module procedure g1\n  end interface gen\n  type :: tt\n  contains\n    procedure :: b1\n    generic :: gb => b1\n  end type tt\n  procedure(gen), pointer :: pp\ncontains\n  subroutine g1(x)\n    integer :: x\n  end subroutine g1\n  subroutine b1(self)\n    class(tt) :: self\n  end subroutine b1\n  subroutine u()\n    type(tt) :: o\n    call o%gb()\n    call pp(1)\n    call gen(2)\n  end subroutine u\nend module gm\n",
    "intr.f90": "program pi\n  use iso_fortran_env\n  use iso_c_binding, only: c_int\n  integer(int32) :: k\n  integer(c_int) :: c\n  real :: r\n  r = abs(r) + sqrt(r) + real(k)\n  print *, size([1,2]), len_trim('a'), merge(1,2,.true.)\n  allocate(character(len=3) :: s)\n  open(unit=10, file='x', status='old')\nend program pi\n",
    "empty.f90": "",
    "mac.F90": "#define DP_REAL real(kind=selected_real_kind(15, 307))\n#define ELEM pure elemental\nmodule mm\n  DP_REAL :: tol\ncontains\n  ELEM real function f(x)\n    real, intent(in) :: x\n    f = x + tol\n  end function f\n  subroutine s()\n    tol = f(1.0)\n  end subroutine s\nend module mm\n",
    "small.f90": "integer :: only_line\n",
    "incl2.f90": "program pi2\n  implicit none\n  integer :: a1\n  integer :: a2\n  integer :: a3\n  include 'small.f90'\nend program pi2\n",
    "incl.f90": "program pinc\n  include 'top.f90'\n  include \"nosuch.f90\"\nend program pinc\n",
    # diagnostics whose word sits on a continuation line, further right than the first line is long
    "contdiag.f90": "module cdm\n  implicit none\n  integer :: a\n  integer &\n    :: bbbbbbbbbbbbbbbbbbbbbbbbbbbbbbbbbbbbbbbb, a\n"
                    "contains\n  subroutine s()\n    use &\n                         no_such_module_here\n    integer &\n"
                    "       :: cccccccccccccccccccccccccc, a\n  end subroutine s\nend module cdm\n",
    "lone_keyword.f90": "integer, p",
    "mask_intrinsic.f90": "module mi\n  use iso_fortran_env\ncontains\n  subroutine s()\n    integer :: int32\n  end subroutine s\nend module mi\n",
    "dotted_i.f90": "program pdi\n  character(2) :: s = \"\u0130\u0130\u0130\u0130\", zz\n  zz = s\nend program pdi\n",
    # one character whose lower-case form is longer, in front of an identifier that ends its line
    "dotted_i2.f90": "program report\n  implicit none\n  integer :: total\n  total = 3\n  print *, \"\u0130stanbul:\", total\n"
                     "  print *, '\u0130', total, \"\u0130\u0130\", total\nend program report\n",
    # a deferred binding whose interface has an undeclared dummy argument (code action on the extending type)
    "deferred_undeclared.f90": "module du\n  implicit none\n  type, abstract :: base\n  contains\n    procedure(iface), deferred :: run\n  end type base\n"
                               "  abstract interface\n    subroutine iface(self, n)\n      import base\n      class(base), intent(inout) :: self\n"
                               "    end subroutine iface\n  end interface\n  type, extends(base) :: child\n  end type child\nend module du\n",
    # ASSOCIATE names bound to a procedure and to a type name
    "assoc_proc.f90": "module ap\n  type :: tq\n  end type tq\ncontains\n  subroutine s1()\n  end subroutine s1\n  subroutine u()\n    associate (q => s1, w => tq)\n"
                      "      print *, q, w\n    end associate\n  end subroutine u\nend module ap\n",
    # an included entity that clashes with a declaration of the including scope: the diagnostic belongs to a line of the includer
    "long_inc.f90": "! c\n" * 20 + "integer :: dup\ntype(nosuch_t) :: bad\n",
    "incl_dup.f90": "subroutine sdup()\n  integer :: dup\n  include 'long_inc.f90'\nend subroutine sdup\n",
    # argument keywords in a call of a procedure one of whose dummy arguments has no declaration (implicit typing)
    "kw_undeclared.f90": "subroutine skw(a, b, c)\n  integer, optional :: b\n  if (present(b)) a = b\nend subroutine skw\n\nprogram pkw\n"
                         "  call skw(1.0, b=2)\n  call skw(c=1, a=2.0)\n  call nosuch(b=1)\nend program pkw\n",
    # components that reach a derived type through INCLUDE (the outline of the including file)
    "comps_inc.f90": "! c\n" * 10 + "integer :: ncomp\n",
    "type_inc.f90": "module mti\n  type tinc\n    include 'comps_inc.f90'\n  end type tinc\nend module mti\n",
    # parenthesis levels that begin with `%`: the legacy %VAL/%REF/%LOC built-ins as first actual argument, stray `%`
    "pct.f90": "subroutine spct(n, buf)\n  integer :: n, buf(3)\n  call c_send(%val(n), buf)\n  call c_send(%ref(buf(1)), %loc(n))\n"
               "  n = buf(%val(1))\n  buf = [%val(n), 1, 2]\n%n = 1\n  % n\n  call (%n)\nend subroutine spct\n",
    # an INTENT entity of an included file that is no argument; an undeclared argument of a scope that includes a short file
    "decl_inc.f90": "\n" * 8 + "integer, intent(in) :: ai\ninteger, intent(in) :: bi\n",
    "incl_intent.f90": "subroutine fooi(ai)\n  include 'decl_inc.f90'\nend subroutine fooi\n",
    "decl_short.f90": "integer, intent(in) :: aj\n",
    "incl_undecl.f90": "\n" * 10 + "subroutine fooj(aj, cj)\n  implicit none\n  include 'decl_short.f90'\nend subroutine fooj\n",
    "odd.f90": "subroutine &\n  & s(a, &\n  b)\n  character(len=*) :: a, b ! tail\n  a = 'it''s' // \"q\" ; b = a\n  if (a == b) then ; end if\nend subroutine s\n!> doc\n\n",
}


def collect_documents(tier: str):
    docs = dict(CRAFTED)
    root = os.path.join(os.environ.get("PYVC_REPO", "/repo"), "test", "test_source")
    picked = []
    for dp, dn, fns in os.walk(root):
        for fn in sorted(fns):
            if re.search(r"\.(f|f90|f95|f03|f08|for|F90|F|h)$", fn):
                picked.append(os.path.join(dp, fn))
    picked.sort()
    if tier != "thorough":
        picked = picked[::4]
    for p in picked:
        rel = "ts/" + os.path.relpath(p, root)
        try:
            with open(p, encoding="utf-8", errors="replace") as f:
                docs[rel] = f.read()
        except OSError:
            pass
    return docs


def positions(text: str, tier: str):
    lines = text.split("\n")
    out = []
    for ln, line in enumerate(lines):
        cols = {0, len(line), len(line) + 1}
        for m in re.finditer(r"[A-Za-z_][\w$]*|%|\(|'|\"|&", line):
            cols.add(m.start())
            cols.add(m.start() + 1)
            cols.add(m.end())
        if tier == "thorough":
            cols |= set(range(0, len(line) + 2))
        for c in sorted(cols):
            out.append((ln, c))
    out += [(len(lines), 0), (len(lines) + 5, 3), (-1, 0), (0, -1), (0, 10 ** 6)]
    return out


def check_ranges(msg, files):
    """Yield problems for every range found in a response / notification payload."""
    def walk(node, uri):
        if isinstance(node, dict):
            u = node.get("uri", uri)
            if "range" in node and isinstance(node["range"], dict):
                r = node["range"]
                yield from one(r, u)
            for k, v in node.items():
                if k == "changes" and isinstance(v, dict):
                    for cu, edits in v.items():
                        yield from walk(edits, cu)
                else:
                    yield from walk(v, u)
        elif isinstance(node, list):
            for x in node:
                yield from walk(x, uri)

    def one(r, uri):
        lines = files.get(uri)
        s, e = r.get("start", {}), r.get("end", {})
        if lines is None:
            return
        for tag, p in (("start", s), ("end", e)):
            ln, ch = p.get("line"), p.get("character")
            if not isinstance(ln, int) or not isinstance(ch, int) or not (0 <= ln < max(len(lines), 1)) \
                    or not (0 <= ch <= (len(lines[ln]) if ln < len(lines) else 0)):
                yield {"uri": uri, "range": r, "problem": f"{tag} outside the document",
                       "line_count": len(lines), "line_length": len(lines[ln]) if isinstance(ln, int) and 0 <= ln < len(lines) else None}
                return
        if (s.get("line"), s.get("character")) > (e.get("line"), e.get("character")):
            yield {"uri": uri, "range": r, "problem": "start after end"}

    yield from walk(msg.get("result"), None)
    if msg.get("method") == "textDocument/publishDiagnostics":
        yield from walk(msg["params"].get("diagnostics"), msg["params"].get("uri"))


def sweep(tier: str = "quick", only=None, methods=None, collect=None):
    """Returns (witness dict or None, number of requests).  With collect=[] every distinct problem is appended
    there instead of stopping at the first one."""
    from replay.harness import Workspace, make_server, parse_out
    from fortls.jsonrpc import path_to_uri
    docs = collect_documents(tier)
    if only:
        docs = {k: v for k, v in docs.items() if k in only}
    ws = Workspace(docs)
    n_req = 0
    try:
        srv, rw = make_server(["--enable_code_actions"])
        srv.nthreads = 1
        srv.handle({"jsonrpc": "2.0", "id": 0, "method": "initialize",
                    "params": {"rootUri": path_to_uri(ws.root), "rootPath": ws.root}})
        files = {}
        for name, text in docs.items():
            uri = ws.uri(name)
            files[uri] = text.split("\n") if not text.endswith("\n") else text.split("\n")
            srv.handle({"jsonrpc": "2.0", "method": "textDocument/didOpen", "params": {"textDocument": {"uri": uri}}})
        init_out = parse_out(rw.out)
        rw.out.clear()
        # buffers as the server holds them (client and server agree by C02)
        for path, fobj in srv.workspace.items():
            files[path_to_uri(path)] = list(fobj.contents_split)
        seen = set()

        def found(w):
            sig = (w.get("error") or w.get("problem"), tuple(w.get("traceback_tail") or ())[-2:], w.get("method"))
            if collect is None:
                return True
            if sig not in seen:
                seen.add(sig)
                collect.append(w)
            return False

        for m in init_out:
            if "error" in m:
                if found({"phase": "initialize/didOpen", "error": str(m["error"].get("message"))[:300]}):
                    return collect is None and {"phase": "initialize/didOpen", "error": str(m["error"].get("message"))[:300]}, n_req
            for prob in check_ranges(m, files):
                if found(dict(prob, phase="diagnostics on open")):
                    return dict(prob, phase="diagnostics on open"), n_req
        rid = 1
        for name, text in docs.items():
            uri = ws.uri(name)
            for (ln, ch) in positions(text, tier):
                for meth in (methods or METHODS):
                    params = {"textDocument": {"uri": uri}, "position": {"line": ln, "character": ch}}
                    if meth == "rename":
                        params["newName"] = "zz_new"
                    elif meth == "references":
                        params["context"] = {"includeDeclaration": True}
                    elif meth == "codeAction":
                        params["range"] = {"start": {"line": ln, "character": ch}, "end": {"line": ln, "character": ch}}
                        params["context"] = {"diagnostics": []}
                    req = {"jsonrpc": "2.0", "id": rid, "method": "textDocument/" + meth, "params": params}
                    rid += 1
                    n_req += 1
                    srv.handle(req)
                    out = parse_out(rw.out)
                    rw.out.clear()
                    for m in out:
                        if "error" in m:
                            tb = (m["error"].get("data") or {}).get("traceback", "")
                            last = [l for l in tb.strip().split("\n") if l.strip()][-3:]
                            w = {"document": name, "method": meth, "position": [ln, ch],
                                 "line_text": (text.split("\n") + [""])[ln] if 0 <= ln < len(text.split("\n")) else None,
                                 "error": str(m["error"].get("message"))[:200], "traceback_tail": last,
                                 "source": text if len(text) < 1500 else None}
                            if found(w):
                                return w, n_req
                        for prob in check_ranges(m, files):
                            w = dict(prob, document=name, method=meth, position=[ln, ch])
                            if found(w):
                                return w, n_req
        # the locations of the outline and of workspace symbols address existing places too
        sym_reqs = [("textDocument/documentSymbol", {"textDocument": {"uri": ws.uri(name)}}, name) for name in docs] + \
                   [("workspace/symbol", {"query": q}, f"(query {q!r})") for q in ("", "a", "s", "t", "dup", "n")]
        for meth, params, label in (sym_reqs if not methods else []):
            n_req += 1
            srv.handle({"jsonrpc": "2.0", "id": rid, "method": meth, "params": params})
            rid += 1
            out = parse_out(rw.out)
            rw.out.clear()
            for m in out:
                if "error" in m:
                    tb = (m["error"].get("data") or {}).get("traceback", "")
                    w = {"document": label, "method": meth, "error": str(m["error"].get("message"))[:200],
                         "traceback_tail": [l for l in tb.strip().split("\n") if l.strip()][-3:]}
                    if found(w):
                        return w, n_req
                for prob in check_ranges(m, files):
                    w = dict(prob, document=label, method=meth)
                    if found(w):
                        return w, n_req
        # a document the server has never seen
        for meth in (methods or METHODS):
            params = {"textDocument": {"uri": ws.uri("never_opened.f90")}, "position": {"line": 0, "character": 0}}
            if meth == "rename":
                params["newName"] = "zz_new"
            elif meth == "references":
                params["context"] = {"includeDeclaration": True}
            elif meth == "codeAction":
                params["range"] = {"start": {"line": 0, "character": 0}, "end": {"line": 0, "character": 0}}
            n_req += 1
            srv.handle({"jsonrpc": "2.0", "id": rid, "method": "textDocument/" + meth, "params": params})
            rid += 1
            for m in parse_out(rw.out):
                if "error" in m:
                    tb = (m["error"].get("data") or {}).get("traceback", "")
                    w = {"document": "(never opened)", "method": meth, "error": str(m["error"].get("message"))[:200],
                         "traceback_tail": [l for l in tb.strip().split("\n") if l.strip()][-3:]}
                    if found(w):
                        return w, n_req
            rw.out.clear()
        return None, n_req
    finally:
        ws.close()
