"""C03 — indexing is total and terminates on every document text.

  * mode S (class-flow safety) over FortranFile.parse and its scope helpers and over the FortranAST builders:
    no possibly-None scope is dereferenced; the helpers that assume an open scope are only called under the
    `end_scope_regex is not None` guard, which implies an open scope by the representation invariant of FortranAST
    (current_scope is None <=> end_scope_regex is None, stacks of equal length), proved as VCs (mode F) on
    add_scope / end_scope;
  * mode T (structural): the main loop of parse makes progress (line_no_end strictly increases whenever the
    statement stack is empty; parse_docs/get_docstring never move backwards: VC), get_code_line's loops;
  * literal macro substitution: the replacement handed to re.subn is an escaped template (structure);
  * bounded stand-ins: every line- and character-prefix of the sample sources, deletions, and seeded random
    mutations (both as .f90 and .F90), each parse + diagnostics under a 5 s alarm.
"""
import ast
import os
import re

from pyvc import smt
from pyvc.smt import And, Or, Not, Implies, Ite, Eq, IntVal, StrVal, Len, Le, Lt, Ge, Gt, Add, Sub
from pyvc.types import *
from pyvc.contract import Contract, LoopSpec, Raises, FrameCall
from pyvc.results import Item
from pyvc.safety import ClassTable, Safety, NONE
from pyvc import term

PARSER = "fortls.parsers.internal.parser"
FAST = "fortls.parsers.internal.ast.FortranAST"

SPEC_ENV = {}
AXIOMS = {}


def sp_ri(eng, st, cur, rx, sstack, estack, none_scope):
    """Representation invariant of FortranAST's open-scope state: a scope is open iff an END regex is registered,
    the two stacks have the same height, and the implicit top-level scope, once created, stays at the bottom of
    the open scopes until the file is closed."""
    d = eng.decls
    ns = d.opt_val(none_scope.t)
    bottom = Or(And(Eq(cur.t, none_scope.t), Eq(Len(sstack.t), IntVal(0))),
                And(Ge(Len(sstack.t), IntVal(1)), Eq(smt.At(sstack.t, IntVal(0)), ns)))
    basic = And(Eq(d.is_some(cur.t), d.is_some(rx.t)), Eq(Len(sstack.t), Len(estack.t)),
                Implies(Not(d.is_some(cur.t)), Eq(Len(sstack.t), IntVal(0))))
    return V(BOOL, basic), V(BOOL, Implies(d.is_some(none_scope.t), bottom))


def sp_ri_basic(eng, st, *a):
    return sp_ri(eng, st, *a)[0]


def sp_ri_none(eng, st, *a):
    return sp_ri(eng, st, *a)[1]


SPEC_ENV["ri"] = sp_ri_basic
SPEC_ENV["ri_none"] = sp_ri_none


def build(reg):
    """Scopes and regexes are modelled by integer identities; method calls on the current scope only need it to exist."""
    fields = {"self.current_scope": TOpt(INT), "self.end_scope_regex": TOpt(INT), "self.scope_stack": TSeq(INT),
              "self.end_stack": TSeq(INT), "self.none_scope": TOpt(INT)}
    RI = "ri(self.current_scope, self.end_scope_regex, self.scope_stack, self.end_stack, self.none_scope)"
    RIN = "ri_none(self.current_scope, self.end_scope_regex, self.scope_stack, self.end_stack, self.none_scope)"

    def on_current(eng, st, node, args, kwargs):
        cur = eng.heap_get(st, ("self", "current_scope"))
        eng.may_raise(st, eng.decls.is_some(cur.t), "AttributeError", ast.unparse(node.func))
        return NoneV()

    def m_true(eng, st, node, args, kwargs):
        return V(BOOL, eng.decls.fresh("flag", smt.BOOL))

    def m_create_none_scope(eng, st, node, args, kwargs):
        # create_none_scope(): requires no open scope; afterwards the none scope is the current one
        d = eng.decls
        old_ns = eng.heap_get(st, ("self", "none_scope"))
        eng.may_raise(st, Not(d.is_some(old_ns.t)), "ValueError", "self.create_none_scope()")
        ns = d.fresh("none_scope_id", smt.INT)
        rx = d.fresh("none_scope_regex", smt.INT)
        eng.heap_set(st, ("self", "none_scope"), V(TOpt(INT), d.some(ns)))
        eng.heap_set(st, ("self", "current_scope"), V(TOpt(INT), d.some(ns)))
        eng.heap_set(st, ("self", "end_scope_regex"), V(TOpt(INT), d.some(rx)))
        return NoneV()
    m_create_none_scope.modifies = ["self.none_scope", "self.current_scope", "self.end_scope_regex"]

    reg.add(Contract(
        f"{FAST}.add_scope", prop="C03", receiver_cls="FortranAST",
        params={"new_scope": INT, "end_scope_regex": TOpt(INT), "exportable": BOOL, "req_container": BOOL},
        fields=fields,
        requires=[("ri", RI), ("ri_none", RIN), ("regex_given", "end_scope_regex is not None"),
                  ("fresh_scope", "self.none_scope is None or self.none_scope != new_scope")],
        ensures=[("ri", RI), ("ri_none", RIN), ("opens", "self.current_scope == new_scope")],
        modifies=["self.current_scope", "self.end_scope_regex", "self.scope_stack", "self.end_stack", "self.none_scope"],
        calls={"self.scope_list.append": FrameCall(), "new_scope.require_inherit": m_true,
               "new_scope.require_link": m_true, "self.inherit_objs.append": FrameCall(),
               "self.linkable_objs.append": FrameCall(), "self.create_none_scope": m_create_none_scope,
               "self.current_scope.add_child": on_current, "self.get_enc_scope_name": FrameCall(result=JSON),
               "self.last_obj.add_doc": FrameCall(), "new_scope.name.lower": FrameCall(result=STR)},
        abstract_stmts={"new_scope.FQSN = f'{self.none_scope.FQSN}::{new_scope.name.lower()}'": (),
                        "self.global_dict[new_scope.FQSN] = new_scope": (),
                        "self.enc_scope_name = self.get_enc_scope_name()": (),
                        "self.last_obj = new_scope": (),
                        "if self.pending_doc is not None:\n    self.last_obj.add_doc(self.pending_doc)\n    self.pending_doc = None": ()},
        short="FortranAST.add_scope"))
    reg.add(Contract(
        f"{FAST}.end_scope", prop="C03", receiver_cls="FortranAST", params={"line_number": INT, "check": BOOL},
        fields=fields, requires=[("ri", RI), ("ri_none", RIN), ("open_or_checked", "check or self.current_scope is not None")],
        # close_file ends the implicit top-level scope too (check=False); during parsing it stays at the bottom
        ensures=[("ri", RI), ("ri_none", f"implies(check, {RIN})")],
        modifies=["self.current_scope", "self.end_scope_regex", "self.scope_stack", "self.end_stack"],
        calls={"self.current_scope.end": on_current, "self.end_errors.append": FrameCall(),
               "self.get_enc_scope_name": FrameCall(result=JSON)},
        abstract_stmts={"self.enc_scope_name = self.get_enc_scope_name()": ()},
        short="FortranAST.end_scope"))
    reg.add(Contract(
        f"{PARSER}.FortranFile.get_line", prop="C03", receiver_cls="FortranFile",
        params={"line_no": INT, "pp_content": BOOL},
        fields={"self.contents_split": TSeq(STR), "self.contents_pp": TSeq(STR)}, result=TOpt(STR),
        ensures=[("in_range", "implies(0 <= line_no and line_no < len(self.contents_split) and not pp_content, "
                              "result == self.contents_split[line_no])"),
                 ("out_of_range", "implies((line_no >= len(self.contents_split) or line_no < -len(self.contents_split)) "
                                  "and not pp_content, result is None)")],
        short="FortranFile.get_line"))
    return reg


TARGETS = [f"{FAST}.add_scope", f"{FAST}.end_scope", f"{PARSER}.FortranFile.get_line"]


# ------------------------------------------------------------------ mode S
def safety_items(repo):
    t = ClassTable(repo)
    inst = t.instantiated()
    scopes = {c for c in t.classes if "Scope" in t.mro(c) and c in inst}
    items = []
    sigs = {}
    # (function, params, overrides) -- helpers reached only with an open scope get current_scope non-None
    open_scope = {("FortranAST", "current_scope"): scopes, ("FortranAST", "end_scope_regex"): {"any"}}
    maybe = {("FortranAST", "current_scope"): scopes | {NONE}}
    plan = [
        (f"{PARSER}.FortranFile.parse", {}, maybe),
        (f"{PARSER}.FortranFile.parse_end_scope_word", {"file_ast": {"FortranAST"}}, open_scope),
        (f"{PARSER}.FortranFile.parse_do_fixed_format", {"file_ast": {"FortranAST"}}, open_scope),
        (f"{PARSER}.FortranFile.parse_implicit", {"file_ast": {"FortranAST"}}, maybe),
        (f"{PARSER}.FortranFile.parse_contains", {"file_ast": {"FortranAST"}}, maybe),
        (f"{PARSER}.FortranFile.parse_docs", {"file_ast": {"FortranAST"}}, maybe),
        (f"{FAST}.add_variable", {"self": {"FortranAST"}}, maybe),
        (f"{FAST}.add_use", {"self": {"FortranAST"}}, maybe),
        (f"{FAST}.add_doc", {"self": {"FortranAST"}}, maybe),
        (f"{FAST}.close_file", {"self": {"FortranAST"}}, maybe),
        (f"{FAST}.get_enc_scope_name", {"self": {"FortranAST"}}, maybe),
    ]
    for q, params, over in plan:
        fi = repo.func(q)
        sg = dict(sigs)
        if q.endswith("add_variable") or q.endswith("add_use"):
            # `if self.current_scope is None: self.create_none_scope()` re-establishes an open scope
            sg["self.create_none_scope#sets"] = {"self.current_scope": scopes, "self.none_scope": {"Program"}}
        s = Safety(t, fi, "C03", params, sg, over, short=fi.short)
        its = s.run()
        items += its
    # is_type_region exists only on Select scopes: the access is guarded by get_type() == SELECT_TYPE_ID
    # call sites of the open-scope helpers in parse are under `file_ast.end_scope_regex is not None`
    fp = repo.func(f"{PARSER}.FortranFile.parse")
    for helper in ("parse_end_scope_word", "parse_do_fixed_format"):
        ok = False
        for n in ast.walk(fp.node):
            if isinstance(n, ast.If) and ast.unparse(n.test) == "file_ast.end_scope_regex is not None":
                if any(isinstance(c, ast.Call) and ast.unparse(c.func) == f"self.{helper}" for c in ast.walk(n)):
                    ok = True
        others = [c for c in ast.walk(fp.node) if isinstance(c, ast.Call) and ast.unparse(c.func) == f"self.{helper}"]
        ok = ok and len(others) == 1
        items.append(Item(f"C03/FortranFile.parse/call_pre.open_scope[{helper}]", "proved" if ok else "refuted",
                          "structural", 0.0, where=fp.where(), mode="table", func=fp.qualname,
                          detail=f"the only call of {helper} is under `file_ast.end_scope_regex is not None` "
                                 "(=> an open scope, by the representation invariant)",
                          witness=None if ok else {"calls": len(others)}))
    return items


# ------------------------------------------------------------------ mode T (structural) and substitution
def structure_items(repo):
    items = []
    fp = repo.func(f"{PARSER}.FortranFile.parse")
    loop = next((l for l in fp.loops() if isinstance(l, ast.While)), None)
    ok_head = loop is not None and ast.unparse(loop.test) == "line_no_end < self.nLines or multi_lines"
    items.append(term.item("C03/FortranFile.parse/variant.loop_head", ok_head,
                           "main loop runs while line_no_end < nLines or statements are stacked", fp.where(), func=fp.qualname))
    if loop is not None:
        from pyvc import shape
        nloop = shape.normalise(loop)
        # either branch order: `if not multi_lines: <advance> else: <pop>` or `if multi_lines: <pop> else: <advance>`
        first = next((s_ for s_ in nloop.body[:3] if isinstance(s_, ast.If) and ast.unparse(s_.test) in ("not multi_lines", "multi_lines")), None)
        prog = False
        if first is not None:
            adv, pop = (first.body, first.orelse) if ast.unparse(first.test) == "not multi_lines" else (first.orelse, first.body)
            advm, popm = ast.Module(body=adv, type_ignores=[]), ast.Module(body=pop, type_ignores=[])
            prog = (shape.has(advm, "line_no = line_no_end if line_no_end > line_no else line_no", fixed=("line_no", "line_no_end"))
                    and shape.has(advm, "line_no += 1", fixed=("line_no",)) and shape.has(advm, "line_no_end = line_no", fixed=("line_no", "line_no_end"))
                    and shape.before(advm, "line_no += 1", "line_no_end = line_no", fixed=("line_no", "line_no_end"))
                    and bool(pop) and shape.has(ast.Module(body=pop[:1], type_ignores=[]), "line = multi_lines.pop()", fixed=("multi_lines",)))
        items.append(term.item("C03/FortranFile.parse/variant.progress", prog,
                               "with an empty statement stack line_no_end becomes max(line_no_end, line_no) + 1; "
                               "otherwise one stacked statement is popped", fp.where(loop), func=fp.qualname, shape=True))
        # every other write to line_no_end / push onto multi_lines
        writes = []
        for n in ast.walk(loop):
            if isinstance(n, (ast.Assign, ast.AugAssign)):
                for tg in (n.targets if isinstance(n, ast.Assign) else [n.target]):
                    if isinstance(tg, ast.Name) and tg.id == "line_no_end":
                        writes.append(ast.unparse(n))
        allowed = {"line_no_end = line_no", "line_no_end += len(post_lines)"}
        items.append(term.item("C03/FortranFile.parse/variant.writers[line_no_end]", set(writes) <= allowed,
                               f"line_no_end is only set to line_no (after `line_no = idx`, idx >= line_no) or increased: {sorted(set(writes))}",
                               fp.where(loop), func=fp.qualname, witness={"writes": sorted(set(writes))}))
        pushes = [ast.unparse(n) for n in ast.walk(loop) if isinstance(n, ast.Call) and isinstance(n.func, ast.Attribute)
                  and ast.unparse(n.func.value) == "multi_lines" and n.func.attr in ("extendleft", "append", "appendleft", "extend")]
        # two accepted forms: the pieces of the line with blanked literals, or the slices of the statement text cut at
        # the same places.  Either way every piece is strictly shorter than the line that was split (a `;` is removed), so
        # the multiset of stacked lengths decreases whenever a popped piece is split again
        guards = [n for n in ast.walk(loop) if isinstance(n, ast.If) and ast.unparse(n.test) == "line_stripped.find(';') >= 0"]
        okp = guard = False
        if pushes == ["multi_lines.extendleft(line_stripped.split(';'))"]:
            okp = True
            guard = any(isinstance(c, ast.Call) and ast.unparse(c) == pushes[0] for g_ in guards for c in ast.walk(g_))
        elif len(pushes) == 1 and len(guards) == 1:
            gm = ast.Module(body=guards[0].body, type_ignores=[])
            okp = guard = shape.has(gm, "statements, start = [], 0\n"
                                        "for part in line_stripped.split(';'):\n"
                                        "    statements.append(line_no_comment[start:start + len(part)])\n"
                                        "    start += len(part) + 1\n"
                                        "multi_lines.extendleft(statements)",
                                    fixed=("multi_lines", "line_stripped", "line_no_comment"))
        items.append(term.item("C03/FortranFile.parse/variant.stack_pushes", okp and guard,
                               "statements are stacked only by splitting a line that contains `;` outside character literals; every "
                               "piece is shorter than the line it was cut from", fp.where(loop), func=fp.qualname,
                               witness={"pushes": pushes}, shape=True))
    # parse_docs / get_docstring never move backwards
    gd = repo.func(f"{PARSER}.FortranFile.get_docstring")
    src = ast.unparse(gd.node)
    assigns = [ast.unparse(n) for n in ast.walk(gd.node) if isinstance(n, ast.Assign)
               and any(isinstance(t, ast.Name) and t.id == "ln" for t in n.targets)]
    # ln is only ever set to an index of range(ln, nLines) or, when the block runs to the end of the file, to nLines
    # (the function returns early when ln >= nLines, so both are >= the argument)
    ok = any(isinstance(n, ast.For) and ast.unparse(n.iter) == "range(ln, self.nLines)" for n in ast.walk(gd.node)) \
        and set(assigns) <= {"ln = i", "ln = self.nLines"} and "ln = i" in assigns \
        and "if ln >= self.nLines:\n        return (ln, docstring, predocmark)" in src and "return (ln, docstring, predocmark)" in src
    items.append(term.item("C03/FortranFile.get_docstring/ensures.monotone", ok,
                           "the returned line number is the argument or an index of range(ln, nLines)", gd.where(), func=gd.qualname))
    pd = repo.func(f"{PARSER}.FortranFile.parse_docs")
    from pyvc.effects import _walk_own
    rets = [ast.unparse(n.value) for n in _walk_own(pd.node) if isinstance(n, ast.Return) and n.value is not None]
    ok = set(rets) <= {"False", "ln"} and "ln, docs[:], predocmark = self.get_docstring(ln, line, doc_match, docs)" in ast.unparse(pd.node)
    items.append(term.item("C03/FortranFile.parse_docs/ensures.false_or_forward", ok,
                           "returns False or the line number produced by get_docstring", pd.where(), func=pd.qualname,
                           witness={"returns": rets}))
    # macro bodies are inserted literally
    from pyvc import shape
    pf = repo.func(f"{PARSER}.preprocess_file")
    psrc = ast.unparse(pf.node)
    pfn = shape.of(repo, f"{PARSER}.preprocess_file")
    lit = (shape.has(pfn, "template = str(value).replace('\\\\', '\\\\\\\\')\nline_new, nsubs = def_regex.subn(template, line)")
           and shape.has(pfn, "expansion = arg_regex.sub(lambda m: arg_map[m.group(0)], body)") and psrc.count(".subn(") == 1
           and psrc.count(".sub(lambda") == 1)
    items.append(Item("C03/preprocess_file/template.subn", "proved" if lit else "refuted", "structural", 0.0,
                      where=pf.where(), mode="table", func=pf.qualname, shape=True,
                      detail="the replacement passed to re.subn is the macro body with its backslashes escaped (object-like macros); "
                             "function-like macros insert arguments through a callable replacement, which re takes literally",
                      witness=None if lit else {"reason": "macro body used as a regex replacement template unescaped"}))
    esc = shape.has(pfn, "re.compile(f'\\\\b{re.escape(def_tmp)}\\\\b')") and shape.has(pfn, "re.escape(def_name)")
    items.append(Item("C03/preprocess_file/regex.escape_macro_name", "proved" if esc else "refuted", "structural", 0.0,
                      where=pf.where(), mode="table", func=pf.qualname, shape=True,
                      detail="macro names (also those configured through pp_defs) are escaped before being compiled",
                      witness=None if esc else {"reason": "macro name interpolated into a regex unescaped"}))
    cont = shape.has(pfn, "is_multiline = not line.strip().endswith('\\\\')")
    items.append(Item("C03/preprocess_file/index.strip_last", "proved" if cont else "refuted", "structural", 0.0,
                      where=pf.where(), mode="table", func=pf.qualname, shape=True,
                      detail="continuation test of a multi-line macro does not index an empty line",
                      witness=None if cont else {"reason": "line.strip()[-1] on a possibly blank line"}))
    return items


# ------------------------------------------------------------------ native sweeps (bounded)
CRAFTED = ["#define X 1 \\\n\n", "#define X a\\qb\ncall X\n", "procedure(foo) :: bar\n", "#if\n", "#elif 1\n",
           "#else\n#endif\n#endif\n", "end\n", "contains\n", "#define F(a,b) a+b \\\n  +1\nx = F(1,2)\n", "#define X(\nX\n",
           "type, extends( :: t\n", "integer, dimension( :: x\n", "use, intrinsic\n", "#include\n",
           "10 continue\n      do 10 i=1,2\n", "interface\nend\n", "module procedure\n", "#define A B\n#define B A\nA\n",
           "select type(\n", "where (\n", "enum, bind(c\n", "character(len=*, kind=\n", "function f( result(\n",
           "program p\nassociate(,x=>y)\nend associate\nend program p\n", "#define F(x) x\n#if F(1)\ninteger :: q\n#endif\n",
           "integer :: a\nend\ninteger :: b\n", "integer :: a\nend\ndo i = 1, 2\nend do\n", "use m\nend\ntype t\nend type\n",
           "#ifdef\n#ifndef\n", "&\n&\n", "!> doc\ninteger :: x\n", "!! d1\n!! d2\nsubroutine s\nend subroutine s\n",
           "integer :: y !< trailing doc\n!< more\n!> next\n", ";;;\n", "implicit\n", "import\n", "generic ::\n", "x = 'abc\n", "!$omp &\n",
           "subroutine s(this)\n  import, only: a\n  import\nend subroutine s\n",
           "interface\n subroutine s(t)\n  import, only: a\n  import, only: b\n  integer :: t\n end subroutine\nend interface\n"]


def sample_files():
    root = os.path.join(os.environ.get("PYVC_REPO", "/repo"), "test", "test_source")
    out = []
    for dp, dn, fns in os.walk(root):
        for fn in sorted(fns):
            if re.search(r"\.(f|f90|f95|f03|f08|for|F90|F|h)$", fn):
                out.append(os.path.join(dp, fn))
    return sorted(out)


def parse_sweep(tier, seed):
    """Returns (witness or None, number of texts)."""
    import random
    import signal
    import traceback
    import logging
    logging.disable(logging.CRITICAL)
    from fortls.parsers.internal.parser import FortranFile

    class Timeout(BaseException):
        pass

    def alarm(sig, frm):
        raise Timeout()

    old = signal.signal(signal.SIGALRM, alarm)

    def run(text, path):
        f = FortranFile(path)
        f.set_contents(text.split("\n"))
        signal.alarm(5)
        try:
            a = f.parse(pp_defs={"CONF": "1", "A+B": "x"}, include_dirs=set())
            f.ast = a
            f.check_file({}, 80, 80)
        finally:
            signal.alarm(0)

    texts = [(c, "/x/a.F90") for c in CRAFTED] + [(c, "/x/a.f90") for c in CRAFTED]
    files = sample_files()
    if tier != "thorough":
        files = files[::3]
    rnd = random.Random(seed)
    nasty = list("()&!'\";#%=,:*[]<>/\\ \t$@~") + ["::", "=>", "end", "contains", "if", "then", "(/", "#define ", "#if ", "\\\n",
                                                    "&\n", "type", "procedure", "interface", "module ", "use ", "only:", "result(",
                                                    "do ", "10 ", "select ", "case(", "class(", "dimension(", "character(", "import",
                                                    "len=", ".true.", "1.0e3_dp"]
    for p in files:
        try:
            t = open(p, encoding="utf-8", errors="replace").read()
        except OSError:
            continue
        lines = t.split("\n")
        for k in range(0, len(lines) + 1):
            texts.append(("\n".join(lines[:k]), p))
        for k in range(0, min(len(t), 300 if tier == "thorough" else 120)):
            texts.append((t[:k], p))
        for k in range(0, len(lines), 3):
            texts.append(("\n".join(lines[:k] + lines[k + 1:]), p))
        for _ in range(60 if tier == "thorough" else 12):
            s = t
            for _ in range(rnd.randint(1, 4)):
                op = rnd.random()
                i = rnd.randrange(len(s) + 1) if s else 0
                if op < 0.35:
                    s = s[:i] + s[min(len(s), i + rnd.randint(1, 12)):]
                elif op < 0.75:
                    s = s[:i] + rnd.choice(nasty) + s[i:]
                else:
                    ls = s.split("\n")
                    a, b = rnd.randrange(len(ls)), rnd.randrange(len(ls))
                    ls[a], ls[b] = ls[b], ls[a]
                    s = "\n".join(ls)
            texts.append((s, p))
            texts.append((s, re.sub(r"\.\w+$", ".F90", p)))
    n = 0
    try:
        for text, path in texts:
            n += 1
            try:
                run(text, path)
            except Timeout:
                return {"problem": "parse + diagnostics did not finish within 5 s", "path_suffix": os.path.splitext(path)[1],
                        "text": text[-1500:]}, n
            except Exception as e:  # noqa: BLE001
                tb = traceback.extract_tb(e.__traceback__)[-1]
                return {"problem": f"{type(e).__name__}: {str(e)[:120]}", "raised_in": f"{tb.name} line {tb.lineno}",
                        "path_suffix": os.path.splitext(path)[1], "text": text[-1500:]}, n
    finally:
        signal.signal(signal.SIGALRM, old)
    return None, n


# ------------------------------------------------------------------ regular expressions: no catastrophic backtracking
def regex_audit(repo, tier):
    """Every compiled pattern of the package (the FRegex table, module-level patterns and literal patterns compiled
    inside functions) is matched against pumped inputs: a repeated fragment between a statement-like head and a tail
    that makes the match fail.  A linear or polynomial matcher answers each in microseconds; a pattern with nested
    ambiguous repeats needs time exponential in the number of repetitions.  Patterns whose syntax tree has no
    unbounded repeat inside another unbounded repeat (star height < 2) cannot backtrack exponentially and are only
    counted."""
    import importlib
    import signal
    import time as _t
    import re._parser as sp
    from re._constants import MAXREPEAT

    def star_height(items):
        m = 0
        for op, av in items:
            name = str(op)
            if name in ("MAX_REPEAT", "MIN_REPEAT", "POSSESSIVE_REPEAT"):
                lo, hi, sub = av
                m = max(m, star_height(sub) + (1 if hi == MAXREPEAT else 0))
            elif name == "SUBPATTERN":
                m = max(m, star_height(av[3]))
            elif name == "BRANCH":
                for b in av[1]:
                    m = max(m, star_height(b))
            elif name in ("ASSERT", "ASSERT_NOT"):
                m = max(m, star_height(av[1]))
            elif name == "GROUPREF_EXISTS":
                m = max(m, star_height(av[1]), star_height(av[2]) if av[2] else 0)
        return m

    pats = {}
    for modname in ("fortls.regex_patterns", "fortls.helper_functions", "fortls.parsers.internal.parser", "fortls.langserver",
                    "fortls.jsonrpc", "fortls.parsers.internal.utilities", "fortls.interface"):
        mod = importlib.import_module(modname)
        for holder in [mod] + [v for v in vars(mod).values() if isinstance(v, type) and v.__module__ == modname]:
            for n, v in vars(holder).items():
                if isinstance(v, re.Pattern):
                    pats[f"{getattr(holder, '__name__', modname)}.{n}"] = v
    # literal patterns compiled inside functions
    for q, fi in repo.all_functions():
        if not q.startswith("fortls."):
            continue
        for n in ast.walk(fi.node):
            if isinstance(n, ast.Call) and ast.unparse(n.func) in ("re.compile", "re.match", "re.search", "re.sub", "re.split", "re.subn") \
                    and n.args and isinstance(n.args[0], ast.Constant) and isinstance(n.args[0].value, str):
                flags = re.I if any("re.I" in ast.unparse(a) or ast.unparse(a) == "I" for a in list(n.args[1:]) + [k.value for k in n.keywords]) else 0
                try:
                    pats[f"{fi.short}:{n.lineno}"] = re.compile(n.args[0].value, flags)
                except re.error:
                    pass
    candidates = {k: v for k, v in pats.items() if star_height(sp.parse(v.pattern, v.flags)) >= 2}
    heads = ["", "(", "x(", "call x(", "subroutine s(", "function f(", "type(", "real(", "integer, dimension(", "x = ", "#if ", "use m, only: "]
    pumps = ["a", "ab_c", "a ", "a,", "a, ", "1", " ", "a=", "a%", "(", "a(1)", "'", "a&", "1 +"]
    tails = ["", "!", "*", "(", "$", "=", "\"", "?"]
    reps = (22, 26) if tier == "thorough" else (22,)

    class Slow(BaseException):
        pass

    def on_alarm(sig, frm):
        raise Slow()
    old = signal.signal(signal.SIGALRM, on_alarm)
    n_calls = 0
    try:
        for name, pat in candidates.items():
            for head in heads:
                for pump in pumps:
                    for tail in tails:
                        for n in reps:
                            text = head + pump * n + tail
                            for fn in (pat.match, pat.search):
                                n_calls += 1
                                t0 = _t.time()
                                signal.setitimer(signal.ITIMER_REAL, 1.0)
                                try:
                                    fn(text)
                                except Slow:
                                    return {"pattern": name, "regex": pat.pattern, "input": text, "call": fn.__name__,
                                            "seconds": f"> {round(_t.time() - t0, 1)} (interrupted)"}, len(pats), len(candidates), n_calls
                                finally:
                                    signal.setitimer(signal.ITIMER_REAL, 0)
    finally:
        signal.signal(signal.SIGALRM, old)
    return None, len(pats), len(candidates), n_calls


def extra(repo, reg, tier, seed):
    items = safety_items(repo) + structure_items(repo)
    w, n_pat, n_cand, n_calls = regex_audit(repo, tier)
    it = Item("C03/regex/no_catastrophic_backtracking", "refuted" if w else "bounded-ok", "native-run(bounded)", 0.0, mode="bounded",
              witness=w, confirmed=True if w else None, func="fortls.regex_patterns.FortranRegularExpressions",
              detail=f"{n_pat} compiled patterns of the package; {n_pat - n_cand} have no unbounded repeat nested in another "
                     f"(cannot backtrack exponentially); the other {n_cand} answered {n_calls} pumped inputs (head + fragment x "
                     "22..26 + failing tail) within 1 s each")
    it.count = n_calls
    items.append(it)
    w, n = parse_sweep(tier, seed)
    items.append(Item("C03/session/native_parse_sweep", "refuted" if w else "bounded-ok", "native-run(bounded)", 0.0,
                      mode="bounded", witness=w, confirmed=True if w else None, func=f"{PARSER}.FortranFile.parse",
                      detail=f"bounded: {n} texts (crafted directives, every line prefix, character prefixes, line deletions "
                             f"and seeded random mutations (seed {seed}) of the sample sources, as .f90 and .F90): parse and "
                             "diagnostics complete within 5 s without raising"))
    return items


def ri_search(seed=0):
    """Drive the real FortranAST through add_scope / end_scope sequences and evaluate the representation
    invariant natively after every operation."""
    import random
    import re as _re
    from fortls.parsers.internal.parser import FortranFile
    from fortls.parsers.internal.ast import FortranAST
    from fortls.parsers.internal.scope import Scope
    rnd = random.Random(seed)
    rx = _re.compile("END")

    def ri(a):
        basic = ((a.current_scope is None) == (a.end_scope_regex is None) and len(a.scope_stack) == len(a.end_stack)
                 and (a.current_scope is not None or len(a.scope_stack) == 0))
        bottom = a.none_scope is None or (a.current_scope is a.none_scope and not a.scope_stack) \
            or (len(a.scope_stack) >= 1 and a.scope_stack[0] is a.none_scope)
        return basic and bottom
    for trial in range(200):
        a = FortranAST(FortranFile())
        hist = []
        for step in range(rnd.randint(1, 10)):
            if rnd.random() < 0.6:
                kw = dict(exportable=rnd.random() < 0.5, req_container=rnd.random() < 0.5)
                a.add_scope(Scope(a, step + 1, f"s{step}"), rx, **kw)
                hist.append(("add_scope", kw))
            elif a.current_scope is not None or True:
                a.end_scope(step + 1, check=True)
                hist.append(("end_scope", {"check": True}))
            if not ri(a):
                return {"history": hist, "current_scope_is_none": a.current_scope is None,
                        "end_scope_regex_is_none": a.end_scope_regex is None, "len_scope_stack": len(a.scope_stack),
                        "len_end_stack": len(a.end_stack)}
    return None


def replay(obligation, model, rep):
    if "add_scope" in obligation or "end_scope" in obligation:
        w = ri_search()
        return {"confirmed": True if w else None, "witness": w}
    if "get_line" in obligation:
        from fortls.parsers.internal.parser import FortranFile
        f = FortranFile()
        f.set_contents(list(model.get("self.contents_split") or []), detect_format=False)
        try:
            r = f.get_line(model.get("line_no", 0), False)
            n = len(f.contents_split)
            ln = model.get("line_no", 0)
            bad = (r is None) != (ln >= n or ln < -n)
            return {"confirmed": bool(bad), "input": model, "result": r}
        except Exception as e:  # noqa: BLE001
            return {"confirmed": True, "input": model, "exception": repr(e)}
    w, n = parse_sweep("quick", 0)
    return {"confirmed": True if w else None, "witness": w}


def search(func, tier, seed, obligation=""):
    if "FortranAST" in func:
        return ri_search(seed)
    w, n = parse_sweep("quick", seed)
    return w


TRUSTED = ["scopes and regexes are modelled by identities in the representation-invariant VCs; the methods called on the "
           "current scope only require it to exist",
           "regex engine running time is outside every contract (only the 5 s alarm of the bounded sweep observes it)"]
ASSUMPTIONS = ["values of unknown class are not checked by mode S; statement readers (read_var_def ...) are covered by the "
               "bounded sweeps only"]
RESIDUAL = ("exception freedom of the regex-driven statement readers and of preprocess_file's directive machine is not "
            "proved (C08 proves the conditional machine's index safety); 'bounded time' is decided only as termination of "
            "the main loop plus the sweep's alarm")
