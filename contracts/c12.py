"""C12 — completion offers exactly the accessible names matching the typed prefix (filter layer, DESIGN 3/C12).

  * the prefix filter at the end of serve_autocomplete.get_candidates (VCs on a mechanical slice of the real
    function: the suffix of its body from `if var_prefix == ''` on; the dropped prefix builds var_list/rename_list
    and is outside this layer): the result is exactly the candidates whose (renamed) lower-cased name starts with
    the prefix — sound and complete with respect to the candidate list, pairs kept aligned;
  * Scope.get_children(public_only) (VCs): exactly the children that are not private in the scope
    (vis < 0, or default-private scope and vis <= 0);
  * context table (structure): USE -> modules only; ONLY -> public members of that module, no globals; CALL ->
    callable entities; TYPE( -> derived types only; after `%` the scope list is the object's type and globals
    are not offered.
Which entities are in the candidate list (USE tree, C05) is not decided here; the probe program is the bounded
stand-in.
"""
import ast

from pyvc import smt
from pyvc.smt import And, Or, Not, Implies, Ite, Eq, IntVal, StrVal, Len, Le, Lt, Ge, Gt, Add, Sub, Concat, At, Unit
from pyvc.types import *
from pyvc.contract import Contract, LoopSpec, Raises, FrameCall
from pyvc.results import Item

LS = "fortls.langserver.LangServer"
SCOPE = "fortls.parsers.internal.scope.Scope"
REFS = smt.SeqS("Ref")


def shown_name(eng, v, r):
    """lower(rename or v.name)"""
    d = eng.decls
    name = d.fun("Obj.name", ["Ref"], smt.STR)(v)
    low = d.fun("py_lower", [smt.STR], smt.STR)
    return low(Ite(d.is_some(r), d.opt_val(r), name))


def sp_keepfold(eng, st, vars_, renames, prefix, k, which):
    """Fold of the prefix filter over zip(vars, renames)[:k]; which = 0: kept objects, 1: kept renames."""
    d = eng.decls
    osort = d.option(smt.STR)
    RS = smt.SeqS(osort)
    fo = d.fun("keep_objs", [REFS, RS, smt.STR, smt.INT], REFS)
    fr = d.fun("keep_renames", [REFS, RS, smt.STR, smt.INT], RS)
    co, cr = fo(vars_.t, renames.t, prefix.t, k.t), fr(vars_.t, renames.t, prefix.t, k.t)
    if "q_" not in k.t.s:
        z = IntVal(0)
        d.ground_axiom("keep.base_o", Eq(fo(vars_.t, renames.t, prefix.t, z), smt.EmptySeq(REFS)))
        d.ground_axiom("keep.base_r", Eq(fr(vars_.t, renames.t, prefix.t, z), smt.EmptySeq(RS)))
        v, r = At(vars_.t, k.t), At(renames.t, k.t)
        keep = smt.PrefixOf(prefix.t, shown_name(eng, v, r))
        k1 = Add(k.t, IntVal(1))
        rng = And(Le(z, k.t), Lt(k.t, Len(vars_.t)), Lt(k.t, Len(renames.t)))
        d.ground_axiom("keep.step_o", Implies(rng, Eq(fo(vars_.t, renames.t, prefix.t, k1), Ite(keep, Concat(co, Unit(v)), co))))
        d.ground_axiom("keep.step_r", Implies(rng, Eq(fr(vars_.t, renames.t, prefix.t, k1), Ite(keep, Concat(cr, Unit(r)), cr))))
    if pyint(which) == 0:
        return V(TSeq(TRef("Obj")), co)
    return V(TSeq(TOpt(STR)), cr)


def pyint(v):
    from pyvc.pyops import _const_int
    return _const_int(v)


def sp_minlen(eng, st, a, b):
    return V(INT, smt.Min(Len(a.t), Len(b.t)))


def sp_pubfold(eng, st, kids, def_vis, j):
    """[c | c in kids[:j], not (c.vis < 0 or (def_vis < 0 and c.vis <= 0))]"""
    d = eng.decls
    f = d.fun("pubfold", [REFS, smt.INT, smt.INT], REFS)
    cur = f(kids.t, def_vis.t, j.t)
    if "q_" not in j.t.s:
        d.ground_axiom("pubfold.base", Eq(f(kids.t, def_vis.t, IntVal(0)), smt.EmptySeq(REFS)))
        c = At(kids.t, j.t)
        vis = d.fun("Obj.vis", ["Ref"], smt.INT)(c)
        # an unnamed interface block is not an entity: it is always kept (its members are filtered in their turn)
        block = smt.PrefixOf(StrVal("#GEN_INT"), d.fun("Obj.name", ["Ref"], smt.STR)(c))
        private = And(Not(block), Or(Lt(vis, IntVal(0)), And(Lt(def_vis.t, IntVal(0)), Le(vis, IntVal(0)))))
        d.ground_axiom("pubfold.step", Implies(And(Le(IntVal(0), j.t), Lt(j.t, Len(kids.t))),
                                               Eq(f(kids.t, def_vis.t, Add(j.t, IntVal(1))), Ite(private, cur, Concat(cur, Unit(c))))))
    return V(TSeq(TRef("Obj")), cur)


from contracts import inherit
SPEC_ENV = {"keepfold": sp_keepfold, "minlen": sp_minlen, "pubfold": sp_pubfold, **inherit.SPEC_ENV}
AXIOMS = {}


def build(reg):
    rf = {("Obj", "name"): STR, ("Obj", "vis"): INT}
    reg.add(Contract(
        f"{LS}.serve_autocomplete.get_candidates", prop="C12",
        params={"var_list": TSeq(TRef("Obj")), "rename_list": TSeq(TOpt(STR)), "var_prefix": STR},
        ref_fields=rf, locals_={"tmp_list": TSeq(TRef("Obj")), "tmp_rename": TSeq(TOpt(STR)), "var_name": TOpt(STR)},
        result=TTup([TSeq(TRef("Obj")), TSeq(TOpt(STR))]),
        ghost={"slice_from": ("if var_prefix == ''", "if var_prefix != ''")},
        requires=[("aligned", "len(var_list) == len(rename_list)")],
        ensures=[("no_prefix_everything", "implies(var_prefix == '', result[0] == var_list and result[1] == rename_list)"),
                 ("prefix_exact", "implies(var_prefix != '', result[0] == keepfold(var_list, rename_list, var_prefix, len(var_list), 0))"),
                 ("renames_aligned", "implies(var_prefix != '', result[1] == keepfold(var_list, rename_list, var_prefix, len(var_list), 1))")],
        loops={5: LoopSpec("for (var, rename) in zip(var_list, rename_list)", index="_k", invariants=[
            ("objs", "tmp_list == keepfold(var_list, rename_list, var_prefix, _k, 0)"),
            ("renames", "tmp_rename == keepfold(var_list, rename_list, var_prefix, _k, 1)")])},
        short="serve_autocomplete.get_candidates", nested_in=f"{LS}.serve_autocomplete",
        note="mechanical slice: the statements of get_candidates before `if var_prefix == ''` (candidate collection through "
             "child_candidates and the USE tree) are dropped; var_list, rename_list, var_prefix are its free variables"))

    def m_copy(eng, st, node, args, kwargs):
        return args[0]

    # the default accessibility in force: an unnamed interface block takes the one of the scope that contains it
    EFF = "(self.parent.def_vis if (self.name.startswith('#GEN_INT') and self.parent is not None) else self.def_vis)"
    reg.add(Contract(
        f"{SCOPE}.get_children", prop="C12", receiver_cls="Scope", params={"public_only": BOOL},
        fields={"self.children": TSeq(TRef("Obj")), "self.def_vis": INT, "self.name": STR, "self.parent": TOpt(TRef("Obj"))},
        ref_fields={**rf, ("Obj", "def_vis"): INT},
        locals_={"pub_children": TSeq(TRef("Obj"))}, result=TSeq(TRef("Obj")),
        ensures=[("all", "implies(not public_only, result == self.children)"),
                 ("public_exact", f"implies(public_only, result == pubfold(self.children, {EFF}, len(self.children)))")],
        calls={"copy.copy": m_copy},
        loops={0: LoopSpec("for child in self.children", index="_j", invariants=[
            ("fold", f"pub_children == pubfold(self.children, {EFF}, _j)")])},
        short="Scope.get_children"))
    inherit.add(reg, "C12")
    return reg


TARGETS = [f"{LS}.serve_autocomplete.get_candidates", f"{SCOPE}.get_children", f"{inherit.TYPE}._resolve_inherit_parent"]


def context_items(repo):
    fi = repo.func(f"{LS}.serve_autocomplete")
    src = ast.unparse(fi.node)
    items = []

    def add(name, ok, detail):
        items.append(Item(f"C12/LangServer.serve_autocomplete/context.{name}", "proved" if ok else "refuted", "structural", 0.0,
                          where=fi.where(), mode="table", func=fi.qualname, detail=detail,
                          witness=None if ok else {"clause": name}))

    from pyvc import shape
    sfn = shape.of(repo, fi.qualname)

    class B:
        """the statements of one branch of the context switch; `snippet in b` is a shape match, not a text match"""
        def __init__(self, stmts):
            self.m = ast.Module(body=list(stmts), type_ignores=[])

        def __contains__(self, snippet):
            return bool(self.m.body) and shape.has(self.m, snippet)
    branch = {}
    for n in ast.walk(sfn):
        if isinstance(n, ast.If) and isinstance(n.test, ast.Compare) and ast.unparse(n.test.left) == "line_context" \
                and isinstance(n.test.comparators[0], ast.Constant):
            branch[n.test.comparators[0].value] = B(n.body)
    src = B(sfn.body)
    mo = branch.get("mod_only", B([]))
    add("use_modules_only", "candidate.get_type() == MODULE_TYPE_ID" in mo and "candidate.get_desc() == 'MODULE'" in mo
        and "candidate.name.lower().startswith(var_prefix)" in mo and "return item_list" in mo,
        "in a USE statement exactly the indexed modules whose name starts with the prefix are offered")
    mm = branch.get("mod_mems", B([]))
    add("only_public_members", "public_only = True" in mm and "include_globals = False" in mm
        and "scope_list = [self.obj_tree[mod_name][0]]" in mm,
        "after ONLY: the candidates are the public members of that module, globals are not offered")
    cl = branch.get("call", B([]))
    add("call_callable_only", "req_callable = True" in cl and "if req_callable and (not candidate.is_callable()):\n    continue" in src,
        "after CALL only callable entities are offered")
    ty = branch.get("type_only", B([]))
    add("type_only", "type_mask = set_type_mask(True)" in ty and "type_mask[CLASS_TYPE_ID] = False" in ty,
        "inside TYPE( only derived types pass the type mask")
    member_ok = False
    for n in ast.walk(sfn):
        if isinstance(n, ast.If) and ast.unparse(n.test) == "is_member":
            body = B(n.body)
            member_ok = ("type_scope = climb_type_tree(var_stack, curr_scope, self.obj_tree)" in body
                         and "include_globals = False" in body and "scope_list = [type_scope]" in body)
    add("member_access", member_ok,
        "after `object%` the only scope searched is the object's declared type and globals are not offered")
    add("mask_applied", "if type_mask[candidate_type]:\n    continue" in src,
        "every candidate is passed through the context's type mask")
    add("filter_call", "get_candidates(scope_list, var_prefix, include_globals, public_only, abstract_only, no_use)" in src,
        "the candidate list is always produced by get_candidates with the typed prefix")
    return items


def extra(repo, reg, tier, seed):
    from contracts import c12_probe
    items = context_items(repo)
    fi = repo.func("fortls.parsers.internal.type.Type.get_children")
    from pyvc import shape
    sg = shape.of(repo, fi.qualname)
    ok = shape.has(sg, "tmp_list = copy.copy(self.children)\ntmp_list.extend(self.in_children)\nreturn tmp_list")
    items.append(Item("C12/Type.get_children/ensures.inherited_included", "proved" if ok else "refuted", "structural", 0.0,
                      where=fi.where(), mode="table", func=fi.qualname,
                      detail="a type's members are its own children followed by the inherited ones (in_children)"))
    w = inherit.native_search()
    items.append(Item("C12/session/native_inheritance_orders", "refuted" if w else "bounded-ok", "native-run(bounded)", 0.0, mode="bounded",
                      witness=w, confirmed=True if w else None, func=f"{inherit.TYPE}._resolve_inherit_parent",
                      detail="bounded: a three-level EXTENDS chain over four files, all 24 orders of linking the files with the real "
                             "parser and resolve_links: every type's members are its own plus its ancestors' minus the overridden"))
    from contracts import c05_gen
    w, n, ns = c05_gen.run_completion(tier, seed)
    it = Item("C12/session/generated_completion_oracle", "refuted" if w else "bounded-ok", "native-run(bounded)", 0.0, mode="bounded",
              witness=w, confirmed=True if w else None, func=f"{LS}.serve_autocomplete",
              detail=f"bounded: {n} generated multi-file programs (the C05 model: USE graphs with ONLY lists and renames with and "
                     f"without ONLY, default and explicit accessibility, re-export, procedure-level USE, shadowing), {ns} completion "
                     "requests after a typed prefix: the variables, procedures and derived types offered are exactly the accessible ones that "
                     "start with the prefix, under their local names")
    it.count = ns
    items.append(it)
    w = c12_probe.run()
    it = Item("C12/session/native_probes", "refuted" if w else "bounded-ok", "native-run(bounded)", 0.0, mode="bounded",
              witness=w, confirmed=True if w else None, func=f"{LS}.serve_autocomplete",
              detail=f"bounded: {len(c12_probe.PROBES)} completion probes on a three-file program (ONLY lists, renames, PRIVATE "
                     "default, inherited components, CALL/USE/ONLY/TYPE( contexts): every accessible match offered, no "
                     "inaccessible or non-matching user entity offered")
    it.count = len(c12_probe.PROBES)
    items.append(it)
    return items


def replay(obligation, model, rep):
    return {"confirmed": None}


def search(func, tier, seed, obligation=""):
    from contracts import c12_probe
    if func.endswith("_resolve_inherit_parent"):
        return inherit.native_search()
    if func.endswith("Scope.get_children"):
        from fortls.parsers.internal.scope import Scope

        class O:
            def __init__(self, name, vis):
                self.name, self.vis = name, vis
        for def_vis in (-1, 0, 1):
            for name, parent_vis in (("m", None), ("#GEN_INT3", -1), ("#GEN_INT3", 0), ("#GEN_INT3", None)):
                s = Scope.__new__(Scope)
                s.children = [O("a", -1), O("b", 0), O("c", 1), O("#GEN_INT1", 0), O("#GEN_INT2", -1)]
                s.def_vis, s.name = def_vis, name
                s.parent = None
                if parent_vis is not None:
                    s.parent = O("host", 0)
                    s.parent.def_vis = parent_vis
                eff = parent_vis if (name.startswith("#GEN_INT") and parent_vis is not None) else def_vis
                got = [c.name for c in s.get_children(True)]
                want = [c.name for c in s.children
                        if c.name.startswith("#GEN_INT") or not (c.vis < 0 or (eff < 0 and c.vis <= 0))]
                if got != want:
                    return {"function": "Scope.get_children(public_only=True)", "scope": name, "def_vis": def_vis,
                            "default_of_containing_scope": parent_vis, "expected": want, "returned": got}
        return None
    return c12_probe.run()


TRUSTED = ["objects are immutable references inside the VCs; str.lower is uninterpreted; startswith is SMT str.prefixof"]
ASSUMPTIONS = ["var_list and rename_list have the same length (established by the dropped prefix of get_candidates, which "
               "appends to both in lock step)"]
RESIDUAL = ("which entities enter the candidate list (USE tree with ONLY/rename, C05) is only covered by the probe program; "
            "the classification of the statement prefix (get_line_context) is regex-driven and not decided")
