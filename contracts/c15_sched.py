"""Bounded stand-in of C15: the same multi-file workspace is indexed under different schedules — worker counts,
file enumeration orders, hash seeds (separate interpreter) — and by starting on an empty directory and opening the
files one at a time in several orders; the normalised dump of every query answer must be identical.

usage as a script (one schedule, prints the dump as JSON):  python c15_sched.py <dir> <mode> <arg>
"""
from __future__ import annotations

import json
import os
import random
import subprocess
import sys


def workspace_files(seed: int):
    """cross-file USE, EXTENDS, INCLUDE and submodule links: the C10 workspace plus a generated USE/EXTENDS program"""
    from contracts import c10_hist, c05_gen
    # (only the files the scan of the workspace indexes: one that is known to the server only while it is open is part of
    # C10's open/close histories, not of the schedules of one set of source files)
    files = {k: v for k, v in c10_hist.BASE.items() if k not in ("vars.inc", "hv.f90")}
    g = c05_gen.Gen(random.Random(4000 + seed))
    gen_files, _ = g.generate()
    files.update(gen_files)
    # a type that exists only through an INCLUDE, extended in another file
    files["shapes.f90"] = "module shapes\n  implicit none\n  include 'shape_types.f90'\nend module shapes\n"
    files["shape_types.f90"] = "type :: shape_t\n  integer :: id\n  real :: area\nend type shape_t\n"
    files["circle.f90"] = ("module circle\n  use shapes\n  implicit none\n  type, extends(shape_t) :: circle_t\n    real :: radius\n  end type circle_t\n"
                           "contains\n  subroutine grow(c)\n    type(circle_t) :: c\n    c%area = c%radius\n  end subroutine grow\nend module circle\n")
    return files


# workspaces on which the pinned tree is known to depend on the schedule: each is its own obligation
KNOWN_CASES = {
    "associate_inherited_component": {
        "base.f90": "module base_m\n  type base_t\n    integer :: bx\n  end type base_t\nend module base_m\n",
        "child.f90": "module child_m\n  use base_m\n  type, extends(base_t) :: child_t\n    integer :: cy\n  end type child_t\nend module child_m\n",
        "prog.f90": "program p\n  use child_m\n  type(child_t) :: c\n  associate (z => c%bx)\n    z = 1\n  end associate\nend program p\n"},
    "nested_shared_include": {
        "a.f90": "module a_mod\n  implicit none\n  include 'k_inc.f90'\ncontains\n  subroutine sa()\n    kvar = cvar\n  end subroutine sa\nend module a_mod\n",
        "b.f90": "module b_mod\n  implicit none\n  include 'k_inc.f90'\ncontains\n  subroutine sb()\n    kvar = cvar\n  end subroutine sb\nend module b_mod\n",
        "k_inc.f90": "integer :: kvar\ninclude 'c_inc.f90'\n",
        "c_inc.f90": "integer :: cvar\n"},
    "macro_shared_between_files": {
        "a_defs.F90": "#define WITH_X 1\nmodule a_mod\n  integer :: a\nend module a_mod\n",
        "b_uses.F90": "module b_mod\n#ifdef WITH_X\n  integer :: x_var\n#else\n  integer :: y_var\n#endif\nend module b_mod\n"},
}


def run_case(name: str):
    """all enumeration orders (init) and all opening orders of a small workspace"""
    import itertools
    from replay.harness import Workspace
    files = KNOWN_CASES[name]
    ws = Workspace({os.path.join("src", n): t for n, t in files.items()})
    try:
        ref, ref_name, n = None, None, 0
        for perm in itertools.permutations(sorted(files)):
            for mode in ("init", "open"):
                n += 1
                got = run_schedule(ws.root, mode, "perm:" + ",".join(perm), files)
                if ref is None:
                    ref, ref_name = got, f"{mode} {','.join(perm)}"
                    continue
                diff = first_difference(ref, got)
                if diff:
                    return {"workspace": files, "schedules": [ref_name, f"{mode} {','.join(perm)}"], "query": diff[0],
                            "first": diff[1], "second": diff[2]}, n
        return None, n
    finally:
        ws.close()


def dump(srv, rw, root, files):
    """every query answer of c10_hist's battery plus the diagnostics, with the directory normalised away"""
    from contracts import c10_hist
    from replay.harness import parse_out

    class W:
        def __init__(self, root):
            self.root = root

        def uri(self, name):
            from fortls.jsonrpc import path_to_uri
            return path_to_uri(os.path.join(self.root, name))
    w = W(root)
    ans = c10_hist.all_queries(srv, w, files, parse_out, rw)
    diag = c10_hist.diagnostics_of(srv, w, files, parse_out, rw)
    ans.update({f"diagnostics:{k}": v for k, v in diag.items()})
    return ans


def run_schedule(base: str, mode: str, arg: str, files: dict):
    """mode: init (arg = 'nthreads:order' with order in listing|reversed|shuffleN) or open (arg = order)"""
    from replay.harness import make_server
    from fortls.jsonrpc import path_to_uri
    from fortls.langserver import LangServer
    src = os.path.join(base, "src")
    names = sorted(files)
    srv, rw = make_server()
    if mode == "init":
        nthreads, order = arg.split(":", 1) if not arg.startswith("perm:") else ("1", arg)
        srv.nthreads = int(nthreads)
        if order != "listing":
            real = LangServer._get_source_files

            def permuted(self):
                lst = list(real(self))
                if order == "reversed":
                    lst.reverse()
                elif order.startswith("perm:"):
                    want = order[5:].split(",")
                    lst.sort(key=lambda p: want.index(os.path.basename(p)))
                else:
                    random.Random(int(order.replace("shuffle", ""))).shuffle(lst)
                return lst
            srv._get_source_files = permuted.__get__(srv, LangServer)
        srv.handle({"jsonrpc": "2.0", "id": 0, "method": "initialize", "params": {"rootUri": path_to_uri(src), "rootPath": src}})
    else:
        empty = os.path.join(base, "empty")
        os.makedirs(empty, exist_ok=True)
        srv.nthreads = 1
        srv.handle({"jsonrpc": "2.0", "id": 0, "method": "initialize", "params": {"rootUri": path_to_uri(empty), "rootPath": empty}})
        order = list(names)
        if arg == "reversed":
            order.reverse()
        elif arg.startswith("perm:"):
            order = arg[5:].split(",")
        elif arg.startswith("shuffle"):
            random.Random(int(arg.replace("shuffle", ""))).shuffle(order)
        for n in order:
            srv.handle({"jsonrpc": "2.0", "method": "textDocument/didOpen",
                        "params": {"textDocument": {"uri": path_to_uri(os.path.join(src, n))}}})
    rw.out.clear()
    d = dump(srv, rw, src, files)
    return {k: v.replace(base, "<base>") if isinstance(v, str) else v for k, v in d.items()}


def first_difference(a: dict, b: dict):
    for k in sorted(set(a) | set(b)):
        if a.get(k) != b.get(k):
            return k, (a.get(k) or "")[:300], (b.get(k) or "")[:300]
    return None


def run(tier: str, seed: int):
    from replay.harness import Workspace
    files = workspace_files(seed)
    ws = Workspace({os.path.join("src", n): t for n, t in files.items()})
    try:
        base = ws.root
        ref_name = "init nthreads=1 listing order"
        ref = run_schedule(base, "init", "1:listing", files)
        schedules = [("init", "4:listing"), ("init", "1:reversed"), ("init", "3:shuffle1"), ("open", "sorted"),
                     ("open", "reversed"), ("open", "shuffle2")]
        if tier == "thorough":
            schedules += [("init", "16:shuffle3"), ("init", "2:shuffle4"), ("open", "shuffle5"), ("open", "shuffle6"), ("open", "shuffle7")]
        n = 1
        for mode, arg in schedules:
            n += 1
            got = run_schedule(base, mode, arg, files)
            diff = first_difference(ref, got)
            if diff:
                return {"schedules": [ref_name, f"{mode} {arg}"], "query": diff[0], "first": diff[1], "second": diff[2],
                        "files": sorted(files)}, n
        # hash seeds: a separate interpreter per seed
        for hs in (("0", "1", "4242") if tier == "thorough" else ("1",)):
            n += 1
            env = dict(os.environ, PYTHONHASHSEED=hs, PYTHONPATH=os.pathsep.join(p for p in sys.path if p))
            r = subprocess.run([sys.executable, os.path.abspath(__file__), base, "init", "2:listing", str(seed)], capture_output=True,
                               text=True, env=env, timeout=600)
            if r.returncode != 0:
                raise RuntimeError(f"schedule subprocess failed: {r.stderr[-800:]}")
            got = json.loads(r.stdout)
            diff = first_difference(ref, got)
            if diff:
                return {"schedules": [ref_name, f"init nthreads=2 PYTHONHASHSEED={hs}"], "query": diff[0], "first": diff[1],
                        "second": diff[2], "files": sorted(files)}, n
        return None, n
    finally:
        ws.close()


INCLUDE_ORDER_FILES = {
    ".fortls": '{"source_dirs": ["src"], "include_dirs": ["zinc", "ainc"]}',
    "src/a.F90": '#include "defs.h"\nmodule a_m\n  MYT :: ax\nend module a_m\n',
    "src/defs.h": "#define MYT integer\n", "zinc/defs.h": "#define MYT real\n", "ainc/defs.h": "#define MYT logical\n"}


def include_order_hover(root: str):
    from replay.harness import make_server, parse_out
    from fortls.jsonrpc import path_to_uri
    srv, rw = make_server()
    srv.handle({"jsonrpc": "2.0", "id": 0, "method": "initialize", "params": {"rootUri": path_to_uri(root), "rootPath": root}})
    rw.out.clear()
    uri = path_to_uri(os.path.join(root, "src", "a.F90"))
    srv.handle({"jsonrpc": "2.0", "id": 1, "method": "textDocument/hover",
                "params": {"textDocument": {"uri": uri}, "position": {"line": 2, "character": 10}}})
    r = [m for m in parse_out(rw.out) if m.get("id") == 1]
    return json.dumps(r[0].get("result") if r else None)


def include_search_order(tier: str):
    """a header that exists in the including file's directory and in two configured include directories: which one is
    read must not depend on the interpreter's hash seed (a separate interpreter per seed)"""
    total = 0
    # second layout: the header is only in the two configured directories (not next to the including file)
    for files in (INCLUDE_ORDER_FILES, {k: v for k, v in INCLUDE_ORDER_FILES.items() if k != "src/defs.h"}):
        w, n = _include_search_order(tier, files)
        total += n
        if w:
            return w, total
    return None, total


def _include_search_order(tier: str, files: dict):
    from replay.harness import Workspace
    ws = Workspace(files)
    try:
        seen = {}
        seeds = range(12) if tier == "thorough" else range(6)
        for hs in seeds:
            env = dict(os.environ, PYTHONHASHSEED=str(hs), PYTHONPATH=os.pathsep.join(p for p in sys.path if p))
            r = subprocess.run([sys.executable, os.path.abspath(__file__), ws.root, "incorder", "-", "0"], capture_output=True,
                               text=True, env=env, timeout=300)
            if r.returncode != 0:
                raise RuntimeError(f"include-order subprocess failed: {r.stderr[-600:]}")
            seen.setdefault(r.stdout.strip(), []).append(hs)
        if len(seen) > 1:
            return {"files": files, "query": "hover on ax (src/a.F90 line 3)",
                    "answers_by_PYTHONHASHSEED": {k[:160]: v for k, v in seen.items()}}, len(seeds)
        return None, len(seeds)
    finally:
        ws.close()


if __name__ == "__main__":
    base_, mode_, arg_, seed_ = sys.argv[1], sys.argv[2], sys.argv[3], int(sys.argv[4])
    sys.path[:0] = [os.path.dirname(os.path.dirname(os.path.abspath(__file__)))]
    if mode_ == "incorder":
        print(include_order_hover(base_))
    else:
        print(json.dumps(run_schedule(base_, mode_, arg_, workspace_files(seed_))))
