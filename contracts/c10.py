"""C10 — after saving, answers depend only on the files, not on the edit history.

Freshness obligations (DESIGN 3/C10), regenerated from the source on every run:
  * cross-reference fields are enumerated mechanically: every field assigned from a name lookup
    (find_in_scope / find_in_workspace / climb_type_tree / obj_tree[...] / workspace[...]).  Each must be
    *recomputed on the save path*: the assignment is unconditional at the top level of a resolver that the save
    path runs for every live object, or the resolver resets the field before looking the name up, or
    FortranAST.resolve_links resets it for all objects.  A fill-if-None cache with no reset cannot be fresh;
  * the save path re-resolves every file: serve_onSave bumps link_version and calls resolve_includes/resolve_links
    over the whole workspace; the delete path forgets the file and re-resolves too (structure);
  * frame (mode E): parsing does not mutate the server's pp_defs / include_dirs arguments.
The bounded stand-in replays histories of sync events and compares every answer of the long-lived server with a
freshly started server (contracts/c10_hist.py).
"""
import ast

from pyvc.effects import Effects, _walk_own
from pyvc.results import Item

P = "fortls.parsers.internal."
LS = "fortls.langserver.LangServer"
LOOKUPS = ("find_in_scope", "find_in_workspace", "climb_type_tree")


def is_lookup(value: ast.AST) -> bool:
    for n in ast.walk(value):
        if isinstance(n, ast.Call) and ast.unparse(n.func).split(".")[-1] in LOOKUPS:
            return True
        if isinstance(n, ast.Subscript) and ast.unparse(n.value).split(".")[-1] in ("obj_tree", "workspace"):
            return True
    return False


def cross_reference_sites(repo):
    """[(qualname, FuncInfo, assign node, receiver text, field)] for assignments of looked-up objects to fields;
    locals that hold a lookup result are followed one step (x = find_in_scope(..); self.f = x)."""
    out = []
    for q, fi in repo.all_functions():
        if not q.startswith(P) or q.startswith(P + "parser."):
            continue
        looked = set()
        for n in _walk_own(fi.node):
            if isinstance(n, ast.Assign) and len(n.targets) == 1 and isinstance(n.targets[0], ast.Name) and is_lookup(n.value):
                looked.add(n.targets[0].id)
        for n in _walk_own(fi.node):
            if isinstance(n, ast.Assign) and len(n.targets) == 1 and isinstance(n.targets[0], ast.Attribute):
                t = n.targets[0]
                v = n.value
                direct = is_lookup(v)
                via = isinstance(v, ast.Name) and v.id in looked
                if direct or via:
                    out.append((q, fi, n, ast.unparse(t.value), t.attr))
    return out


def top_level_index(fn: ast.FunctionDef, node: ast.AST):
    for i, s in enumerate(fn.body):
        if any(x is node for x in ast.walk(s)):
            return i, s
    return None, None


def freshness_items(repo):
    from pyvc import shape
    items = []
    sites = cross_reference_sites(repo)
    rl = repo.func(P + "ast.FortranAST.resolve_links")
    rl_src = ast.unparse(rl.node)
    seen = set()
    for q, fi, node, recv, field in sites:
        key = (q, recv, field)
        if key in seen:
            continue
        seen.add(key)
        short = q.replace(P, "")
        name = f"C10/{short}/fresh[{recv}.{field}]"
        fn = fi.node
        idx, top = top_level_index(fn, node)
        how = None
        # (a) an unconditional reset of the same field earlier at the top level of the resolver
        for s in fn.body[: (idx or 0) + 1]:
            if isinstance(s, ast.Assign) and len(s.targets) == 1 and ast.unparse(s.targets[0]) == f"{recv}.{field}" \
                    and (isinstance(s.value, ast.Constant) and s.value.value is None or isinstance(s.value, ast.List) and not s.value.elts):
                how = f"`{recv}.{field}` is reset at the top of {fn.name} before the lookup"
        # reset inside the loop that contains the assignment (per-element resolvers such as Associate.resolve_link)
        if how is None:
            for loop in [l for l in ast.walk(fn) if isinstance(l, ast.For) and any(x is node for x in ast.walk(l))]:
                for s in loop.body:
                    if any(x is node for x in ast.walk(s)):
                        break
                    if isinstance(s, ast.Assign) and ast.unparse(s.targets[0]) == f"{recv}.{field}" \
                            and isinstance(s.value, ast.Constant) and s.value.value is None:
                        how = f"`{recv}.{field}` is reset for every element before the lookup"
        # (b) the assignment itself is an unconditional top-level statement of the resolver
        if how is None and top is node:
            how = f"`{recv}.{field}` is assigned unconditionally at the top level of {fn.name}"
        # (c) reset for all objects by resolve_links
        if how is None and recv == "self" and shape.has(shape.of(repo, P + "ast.FortranAST.resolve_links"),
                                                        f"for var in self.variable_list:\n    var.{field} = None"):
            how = f"FortranAST.resolve_links resets .{field} of every variable before resolving"
        # (e) every path of the enclosing branch structure assigns the field: if <cond>: ... f = v ... elif/else: ... f = None
        if how is None:
            for n in ast.walk(fn):
                if isinstance(n, ast.If) and any(x is node for s in n.body for x in ast.walk(s)) and n.orelse:
                    other = ast.unparse(ast.Module(body=n.orelse, type_ignores=[]))
                    if f"{recv}.{field} = None" in other:
                        how = f"the other branch resets `{recv}.{field}` when the lookup key is absent"
        # (d) fields of freshly created objects / per-call locals
        if how is None and fn.name in ("__init__",):
            how = "constructor of a fresh object"
        ok = how is not None
        items.append(Item(name, "proved" if ok else "refuted", "structural(freshness)", 0.0, where=fi.where(node), mode="E",
                          func=q, detail=how or f"`{recv}.{field}` keeps a looked-up object with no reset on the save path",
                          witness=None if ok else {"field": f"{recv}.{field}", "assigned_in": q, "statement": ast.unparse(node)[:160],
                                                   "reason": "a looked-up object is stored conditionally and never reset: after the "
                                                             "declaring file changes, the field still points into its previous version"}))
    items.append(Item("C10/package/cross_reference_fields.enumerated", "proved" if len(seen) >= 6 else "error",
                      "structural(freshness)", 0.0, mode="E",
                      detail=f"{len(seen)} cross-reference assignment sites: {sorted({f'{r}.{f}' for _, r, f in seen})}"))
    # resolvers run for every object on every save
    from pyvc import shape
    fs = repo.func(f"{LS}.serve_onSave")
    sf = shape.of(repo, f"{LS}.serve_onSave")
    bump = "self.link_version = (self.link_version + 1) % 1000"
    relink = "for _, file_obj in self.workspace.items():\n    file_obj.ast.resolve_links(self.obj_tree, self.link_version)"
    reinc = "for _, file_obj in self.workspace.items():\n    file_obj.ast.resolve_includes(self.workspace, path=filepath)"
    ok = False
    for n in ast.walk(sf):
        if isinstance(n, ast.If) and ast.unparse(n.test) == "did_change":
            blk = ast.Module(body=n.body, type_ignores=[])
            lv = shape.Free({"file_obj", "_"})  # the loop variables may have any name
            ok = (shape.has(blk, bump) and shape.has(blk, relink, lv) and shape.has(blk, reinc, lv) and shape.before(blk, bump, relink, lv))
    items.append(Item("C10/LangServer.serve_onSave/ensures.re_resolves_all", "proved" if ok else "refuted", "structural(freshness)",
                      0.0, where=fs.where(), mode="E", func=fs.qualname, shape=True,
                      detail="a changed file bumps link_version and re-resolves includes and links of every file of the workspace",
                      witness=None if ok else {"reason": "the save path no longer re-resolves every file"}))
    ok = (shape.has(sf, "self.workspace.pop(filepath, None)") and shape.has(sf, "self._remove_file_globals(ast_old, filepath)")
          and shape.has(sf, "for _, other_obj in self.workspace.items():\n    other_obj.ast.resolve_links(self.obj_tree, self.link_version)",
                        shape.Free({"other_obj", "_"})))
    items.append(Item("C10/LangServer.serve_onSave/ensures.delete_forgets", "proved" if ok else "refuted", "structural(freshness)",
                      0.0, where=fs.where(), mode="E", func=fs.qualname, shape=True,
                      detail="closing a deleted file removes its top-level objects and the file itself and re-resolves the others",
                      witness=None if ok else {"reason": "a deleted file's objects or links survive"}))
    fu = repo.func(f"{LS}.update_workspace_file")
    uf = shape.of(repo, f"{LS}.update_workspace_file")
    rm = "if ast_old is not None:\n    self._remove_file_globals(ast_old, filepath)"
    add = "for key, obj in ast_new.global_dict.items():\n    self._add_file_global(key, obj, filepath)"
    ok = (shape.has(uf, rm) and shape.has(uf, add)
          and shape.before(uf, "self._remove_file_globals(ast_old, filepath)", "self._add_file_global(key, obj, filepath)"))
    items.append(Item("C10/LangServer.update_workspace_file/ensures.obj_tree_view", "proved" if ok else "refuted",
                      "structural(freshness)", 0.0, where=fu.where(), mode="E", func=fu.qualname, shape=True,
                      detail="the previous version's top-level keys are removed before the new version's are added",
                      witness=None if ok else {"reason": "keys of the previous version of the file are not pruned"}))
    fr = repo.func(f"{LS}._remove_file_globals")
    rf_ = shape.of(repo, f"{LS}._remove_file_globals")
    ok = (shape.has(rf_, "if entry is None or entry[1] != filepath:\n    continue")
          and shape.has(rf_, "self.obj_tree.pop(key)") and shape.has(rf_, "self._add_file_global(key, other_obj, other_path)")
          and shape.has(rf_, "if other_path == filepath or other_file.ast is None:\n    continue"))
    items.append(Item("C10/LangServer._remove_file_globals/ensures.owned_keys_only", "proved" if ok else "refuted",
                      "structural(freshness)", 0.0, where=fr.where(), mode="E", func=fr.qualname, shape=True,
                      detail="only entries owned by the file are removed; a name another file also declares falls back to that file",
                      witness=None if ok else {"reason": "entries of other files are dropped, or a duplicate declaration is not restored"}))
    # of several files declaring one top-level name the owner is a function of the set of files (the greatest path), not of
    # the order in which they were read or saved; the start-up index enters its objects the same way
    fa = repo.func(f"{LS}._add_file_global")
    af = shape.of(repo, f"{LS}._add_file_global")
    wi = shape.of(repo, f"{LS}.workspace_init")
    ok = (shape.has(af, "entry = self.obj_tree.get(key)")
          and shape.has(af, "if entry is not None and entry[1] is not None and (entry[1] > filepath) and (entry[1] in self.workspace):\n    return")
          and shape.has(af, "self.obj_tree[key] = [obj, filepath]")
          and shape.has(wi, "self._add_file_global(key, ast_new.global_dict[key], path)")
          and not any(isinstance(n, ast.Assign) and isinstance(n.targets[0], ast.Subscript)
                      and ast.unparse(n.targets[0].value) == "self.obj_tree" for n in ast.walk(repo.func(f"{LS}.workspace_init").node)))
    items.append(Item("C10/LangServer._add_file_global/ensures.owner_is_a_function_of_the_files", "proved" if ok else "refuted",
                      "structural(freshness)", 0.0, where=fa.where(), mode="E", func=fa.qualname, shape=True,
                      detail="a top-level name declared by several files belongs to the one whose path is greatest, at start-up and after "
                             "every save alike",
                      witness=None if ok else {"reason": "the owner of a name declared twice depends on the order of reading or saving"}))
    # what Submodule.resolve_link copies onto the implementations of a previous call is taken back before the next lookup
    sm = repo.func(P + "submodule.Submodule.resolve_link")
    undo_at = guard_at = None
    for i, st in enumerate(sm.node.body):
        if isinstance(st, ast.For) and "self.children" in ast.unparse(st.iter) and undo_at is None:
            puts_back = any(isinstance(n, ast.Assign) and isinstance(n.targets[0], ast.Subscript)
                            and ast.unparse(n.targets[0].value) == "self.children" and isinstance(n.value, ast.Name)
                            for n in ast.walk(st))
            restores = any(isinstance(n, ast.Call) and isinstance(n.func, ast.Attribute) and n.func.attr == "restore_interface"
                           for n in ast.walk(st))
            if puts_back and restores:
                undo_at = i
        if isinstance(st, ast.If) and ast.unparse(st.test) == "self.ancestor_obj is None" and guard_at is None:
            guard_at = i
    missing = []
    for cls in ("subroutine.Subroutine", "function.Function"):
        def assigned(fname):
            fi_ = repo.func(P + cls + "." + fname) if (P + cls + "." + fname) in dict(repo.all_functions()) else None
            if fi_ is None:
                return None
            out = set()
            for n in ast.walk(fi_.node):
                if isinstance(n, (ast.Assign, ast.AugAssign, ast.AnnAssign)):
                    for t in (n.targets if isinstance(n, ast.Assign) else [n.target]):
                        for e in (t.elts if isinstance(t, ast.Tuple) else [t]):
                            if isinstance(e, ast.Attribute) and ast.unparse(e.value) == "self":
                                out.add(e.attr)
                if isinstance(n, ast.Call) and ast.unparse(n.func).startswith("self.") and ast.unparse(n.func).endswith(".append"):
                    out.add(ast.unparse(n.func).split(".")[1])
            return out
        cp, rs = assigned("copy_interface"), assigned("restore_interface")
        if cp is None:
            continue
        if cls.endswith("Function"):
            cp |= assigned_sub[0]
            rs = (rs or set()) | assigned_sub[1]
        else:
            assigned_sub = (set(cp), set(rs or ()))
        lost = sorted(f for f in cp - (rs or set()) if not f.startswith("own_"))
        if lost:
            missing.append({"class": cls, "copied_but_not_restored": lost})
    ok = undo_at is not None and guard_at is not None and undo_at < guard_at and not missing
    items.append(Item("C10/submodule.Submodule.resolve_link/ensures.undoes_previous_call", "proved" if ok else "refuted",
                      "structural(freshness)", 0.0, where=sm.where(), mode="E", func=sm.qualname,
                      detail="placeholders and the own interface of every implementation are restored before the ancestor is "
                             "looked up again, and restore_interface() assigns every field copy_interface() assigns",
                      witness=None if ok else {"undo_loop_statement": undo_at, "ancestor_guard_statement": guard_at, "fields": missing,
                                               "reason": "what an earlier prototype copied onto the implementation survives its "
                                                         "change or removal"}))
    rl_ok = shape.has(shape.of(repo, P + "ast.FortranAST.resolve_links"), "for var in self.variable_list:\n    var.type_obj = None")
    items.append(Item("C10/ast.FortranAST.resolve_links/ensures.type_cache_reset", "proved" if rl_ok else "refuted",
                      "structural(freshness)", 0.0, where=rl.where(), mode="E", func=rl.qualname, shape=True,
                      detail="the lazily filled type_obj cache of every variable is cleared whenever links are re-resolved",
                      witness=None if rl_ok else {"field": "Variable.type_obj", "reason": "fill-if-None cache with no reset"}))
    return items


def frame_items(repo):
    eff = Effects(repo)
    items = []
    roots = [P + "parser.FortranFile.parse", P + "parser.FortranFile.preprocess", P + "parser.preprocess_file"]
    pred = eff.reachable([r for r in roots if r in eff.funcs])
    bad = []
    for q in pred:
        for param, how, node in eff.funcs[q].param_mutations:
            if param in ("pp_defs", "include_dirs", "obj_tree", "workspace"):
                bad.append({"function": q, "parameter": param, "mutation": how, "where": eff.funcs[q].info.where(node)})
    items.append(Item("C10/parser.FortranFile.parse/modifies.server_arguments", "refuted" if bad else "proved",
                      "frame-analysis", 0.0, mode="E", func=roots[0],
                      detail=f"{len(pred)} functions reachable from parsing: none mutates a pp_defs / include_dirs / obj_tree / "
                             "workspace argument in place", witness=bad[:3] or None))
    return items


def extra(repo, reg, tier, seed):
    from contracts import c10_hist
    items = freshness_items(repo) + frame_items(repo)
    w, n = c10_hist.run_all()
    items.append(Item("C10/session/native_histories", "refuted" if w else "bounded-ok", "native-run(bounded)", 0.0,
                      mode="bounded", witness=w, confirmed=True if w else None, func=f"{LS}.serve_onSave",
                      detail=f"bounded: {n} histories over a 9-file workspace (rename/remove components, types, modules, bindings, "
                             "includes; delete/recreate files; queries before edits): every symbol/definition/hover/completion/"
                             "references answer, diagnostics and search paths equal those of a fresh server"))
    return items


from contracts import inherit

TARGETS = [f"{inherit.TYPE}.resolve_inherit", f"{inherit.TYPE}._resolve_inherit_parent"]
SPEC_ENV = dict(inherit.SPEC_ENV)
AXIOMS = {}


def build(reg):
    # derived data: the inherited member list is rebuilt on every new link version (VCs)
    inherit.add_resolve_inherit(reg, "C10")
    inherit.add(reg, "C10")
    return reg


def search(func, tier, seed, obligation=""):
    from contracts import c10_hist
    if func.endswith("_resolve_inherit_parent"):
        return inherit.native_search()
    w, n = c10_hist.run_all(only=("query_then_edit_grandparent_type", "edit_grandparent_only", "change_extends"))
    return w


def replay(obligation, model, rep):
    from contracts import c10_hist
    w, n = c10_hist.run_all()
    return {"confirmed": True if w else None, "witness": w}


TRUSTED = ["determinism of the query code itself (equality of every answer with a fresh server additionally needs it)"]
ASSUMPTIONS = ["sources do not share preprocessor macro names across files (property quantifier): self.pp_defs accumulates"]
RESIDUAL = ("the freshness obligations are structural (reset/recompute shape of each resolver), not a proof that the "
            "recomputed value equals a fresh server's; that equality is only observed on the bounded histories")
