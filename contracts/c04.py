"""C04 — outline and workspace symbols mirror the program's block structure (structure layer, DESIGN 3/C04).

  * END pairing (finite, exhaustive): the END regex registered with each constructor in FortranFile.parse is read
    from the AST and compared with the standard's table; the keyword x regex acceptance table is decided with the
    real `re` for every keyword and every registered regex;
  * scope events: add_scope records the opening line (Scope.__init__), end_scope the line of the END that popped
    the scope (structure; the stack discipline itself is the representation invariant proved under C03);
  * find_in_workspace (VCs, mode F): the result is exactly the fold, in index order, of [top if it has a file and
    its lower-cased name contains the lower-cased query] ++ [children of module-like tops with the same test,
    pseudo scopes (#...) excluded]; nothing is dropped or duplicated;
  * serve_workspace_symbol / serve_document_symbols: ranges are (sline-1, eline-1), the result is sorted by the
    "name" key, one symbol per kept scope (structure).
That each statement regex recognises exactly its Fortran statement needs a grammar (a model): not decided; the
generated-program oracle (contracts/c04_gen.py) is the bounded stand-in for it.
"""
import ast

from pyvc import smt
from pyvc.smt import And, Or, Not, Implies, Ite, Eq, IntVal, StrVal, Len, Le, Lt, Ge, Gt, Add, Sub, Concat, At, Unit
from pyvc.types import *
from pyvc.contract import Contract, LoopSpec, Raises, FrameCall
from pyvc.results import Item

PARSER = "fortls.parsers.internal.parser"
UTIL = "fortls.parsers.internal.utilities"
LS = "fortls.langserver.LangServer"

REFS = smt.SeqS("Ref")
EXPECTED_END = {"Module": "END_MOD", "Submodule": "END_SMOD", "Program": "END_PROG", "Subroutine": "END_SUB",
                "Function": "END_FUN", "Block": "END_BLOCK", "Do": "END_DO", "Where": "END_WHERE", "Associate": "END_ASSOCIATE",
                "If": "END_IF", "Select": "END_SELECT", "Type": "END_TYPED", "Enum": "END_ENUMD", "Interface": "END_INT",
                "Scope": "END_PRO"}
KEYWORD_OF = {"END_MOD": ["MODULE"], "END_SMOD": ["SUBMODULE"], "END_PROG": ["PROGRAM"], "END_SUB": ["SUBROUTINE"],
              "END_FUN": ["FUNCTION"], "END_BLOCK": ["BLOCK", "CRITICAL"], "END_DO": ["DO"], "END_WHERE": ["WHERE"],
              "END_ASSOCIATE": ["ASSOCIATE"], "END_IF": ["IF"], "END_SELECT": ["SELECT"], "END_TYPED": ["TYPE"],
              "END_ENUMD": ["ENUM"], "END_INT": ["INTERFACE"], "END_PRO": ["PROCEDURE", "MODULE PROCEDURE"]}
KEYWORDS = ["MODULE", "SUBMODULE", "PROGRAM", "SUBROUTINE", "FUNCTION", "TYPE", "INTERFACE", "BLOCK", "CRITICAL", "DO", "WHERE",
            "IF", "ASSOCIATE", "SELECT", "ENUM", "PROCEDURE", "MODULE PROCEDURE", "FORALL", "TEAM", "CHANGE TEAM"]
# prefix matches that are harmless: the longer keyword has its own construct and regex
TOLERATED = {("END_MOD", "MODULE PROCEDURE")}


# ------------------------------------------------------------------ spec functions for find_in_workspace
def match_term(eng, obj, q):
    """lower(obj.name) contains q"""
    d = eng.decls
    name = d.fun("Scope.name", ["Ref"], smt.STR)(obj)
    low = d.fun("py_lower", [smt.STR], smt.STR)(name)
    return Ge(smt.IndexOf(low, q, IntVal(0)), IntVal(0))


def sp_childfold(eng, st, mod, q, pub, j):
    """[c | c in mod.get_children(pub)[:j], not c.name.startswith('#'), lower(c.name) contains q]"""
    d = eng.decls
    kids = d.fun("Scope.get_children()", ["Ref", smt.BOOL], REFS)(mod.t, pub.t)
    f = d.fun("childfold", ["Ref", smt.STR, smt.BOOL, smt.INT], REFS)
    cur = f(mod.t, q.t, pub.t, j.t)
    if "q_" not in j.t.s:
        d.ground_axiom("childfold.base", Eq(f(mod.t, q.t, pub.t, IntVal(0)), smt.EmptySeq(REFS)))
        c = At(kids, j.t)
        cname = d.fun("Scope.name", ["Ref"], smt.STR)(c)
        keep = And(Not(smt.PrefixOf(StrVal("#"), cname)), match_term(eng, c, q.t))
        nxt = f(mod.t, q.t, pub.t, Add(j.t, IntVal(1)))
        d.ground_axiom("childfold.step", Implies(And(Le(IntVal(0), j.t), Lt(j.t, Len(kids))),
                                                 Eq(nxt, Ite(keep, Concat(cur, Unit(c)), cur))))
    return V(TSeq(TRef("Scope")), cur)


def sp_wsfold(eng, st, objs, uris, q, pub, k):
    d = eng.decls
    f = d.fun("wsfold", [REFS, uris.t.sort, smt.STR, smt.BOOL, smt.INT], REFS)
    cur = f(objs.t, uris.t, q.t, pub.t, k.t)
    if "q_" not in k.t.s:
        d.ground_axiom("wsfold.base", Eq(f(objs.t, uris.t, q.t, pub.t, IntVal(0)), smt.EmptySeq(REFS)))
        o = At(objs.t, k.t)
        has_file = d.is_some(At(uris.t, k.t))
        top = Ite(match_term(eng, o, q.t), Unit(o), smt.EmptySeq(REFS))
        is_mod = Eq(d.fun("Scope.get_type()", ["Ref"], smt.INT)(o), IntVal(1))
        kids = d.fun("Scope.get_children()", ["Ref", smt.BOOL], REFS)(o, pub.t)
        allk = sp_childfold(eng, st, V(TRef("Scope"), o), q, pub, V(INT, Len(kids))).t
        contrib = Ite(has_file, Concat(top, Ite(is_mod, allk, smt.EmptySeq(REFS))), smt.EmptySeq(REFS))
        nxt = f(objs.t, uris.t, q.t, pub.t, Add(k.t, IntVal(1)))
        d.ground_axiom("wsfold.step", Implies(And(Le(IntVal(0), k.t), Lt(k.t, Len(objs.t))), Eq(nxt, Concat(cur, contrib))))
    return V(TSeq(TRef("Scope")), cur)


def sp_children(eng, st, mod, pub):
    return V(TSeq(TRef("Scope")), eng.decls.fun("Scope.get_children()", ["Ref", smt.BOOL], REFS)(mod.t, pub.t))


def sp_lower(eng, st, s):
    return V(STR, eng.decls.fun("py_lower", [smt.STR], smt.STR)(s.t))


SPEC_ENV = {"childfold": sp_childfold, "wsfold": sp_wsfold, "children_of": sp_children, "lower": sp_lower}
AXIOMS = {}


def sp_alleq(eng, st, seq, lo, label):
    """every element of seq[lo:] equals the (optional) label: alleq(s, lo, x) == (lo >= len(s) or (s[lo] == x and alleq(s, lo+1, x)))"""
    d = eng.decls
    osort = label.t.sort
    f = d.fun("alleq", [seq.t.sort, smt.INT, osort], smt.BOOL)
    cur = f(seq.t, lo.t, label.t)
    if "q_" not in lo.t.s:
        lab_is = And(d.is_some(label.t), Eq(At(seq.t, lo.t), d.opt_val(label.t))) if isinstance(label.ty, TOpt) else Eq(At(seq.t, lo.t), label.t)
        d.ground_axiom("alleq.def", Eq(cur, Or(Ge(lo.t, Len(seq.t)), And(Ge(lo.t, IntVal(0)), lab_is, f(seq.t, Add(lo.t, IntVal(1)), label.t)))))
        d.ground_axiom("alleq.end", f(seq.t, Len(seq.t), label.t))
    return V(BOOL, cur)


SPEC_ENV["alleq"] = sp_alleq


def build(reg):
    ref_fields = {("Scope", "name"): STR}
    ref_methods = {("Scope", "get_children"): ([BOOL], TSeq(TRef("Scope"))), ("Scope", "get_type"): ([], INT)}
    reg.add(Contract(
        f"{UTIL}.find_in_workspace.add_children", prop="C04",
        params={"mod_obj": TRef("Scope"), "query": STR, "filter_public": BOOL},
        result=TSeq(TRef("Scope")), locals_={"tmp_list": TSeq(TRef("Scope"))}, ref_fields=ref_fields, ref_methods=ref_methods,
        ensures=[("exact_filter", "result == childfold(mod_obj, query, filter_public, len(children_of(mod_obj, filter_public)))")],
        loops={0: LoopSpec("for child_obj in mod_obj.get_children(filter_public)", index="_j", invariants=[
            ("fold", "tmp_list == childfold(mod_obj, query, filter_public, _j)")])},
        short="find_in_workspace.add_children", nested_in=f"{UTIL}.find_in_workspace"))

    def m_items(eng, st, node, args, kwargs):
        from pyvc.builtins_ import IterV
        objs, uris = st.env["tree_objs"], st.env["tree_uris"]
        d = eng.decls

        def elem(i):
            return TupV([V(STR, d.fresh("key", smt.STR)),
                         TupV([V(TRef("Scope"), At(objs.t, i)), V(TOpt(STR), At(uris.t, i))])])
        return IterV(Len(objs.t), elem)

    reg.add(Contract(
        f"{UTIL}.find_in_workspace", prop="C04",
        params={"obj_tree": JSON, "query": STR, "filter_public": BOOL, "exact_match": BOOL,
                "tree_objs": TSeq(TRef("Scope")), "tree_uris": TSeq(TOpt(STR))},
        result=TSeq(TRef("Scope")), locals_={"matching_symbols": TSeq(TRef("Scope")), "filtered_symbols": TSeq(TRef("Scope"))},
        ref_fields=ref_fields, ref_methods=ref_methods, ghost={"constants": {"MODULE_TYPE_ID": 1}},
        requires=[("parallel", "len(tree_objs) == len(tree_uris)"), ("no_exact", "not exact_match")],
        ensures=[("exact_filter", "result == wsfold(tree_objs, tree_uris, lower(old(query)), filter_public, len(tree_objs))")],
        calls={"obj_tree.items": m_items, "add_children": f"{UTIL}.find_in_workspace.add_children"},
        loops={0: LoopSpec("for _, obj_packed in obj_tree.items()", index="_k", invariants=[
            ("fold", "matching_symbols == wsfold(tree_objs, tree_uris, query, filter_public, _k)")]),
               1: LoopSpec("for symbol in matching_symbols", index="_m", invariants=[("unreachable", "exact_match")])},
        short="find_in_workspace"))
    # label-terminated DO loops: one labelled statement closes every open DO that names the label
    def m_is_do(eng, st, node, args, kwargs):
        return st.env["scope_type"]

    def m_end_scope(eng, st, node, args, kwargs):
        st.env["closed"] = V(INT, Add(st.env["closed"].t, IntVal(1)))
        return NoneV()
    m_end_scope.modifies = []
    m_end_scope.modifies_names = ["closed"]

    reg.add(Contract(
        f"{PARSER}.FortranFile.parse_do_fixed_format", prop="C04", receiver_cls="FortranFile",
        params={"line": STR, "ln": INT, "file_ast": TObj("FortranAST"), "line_label": TOpt(STR), "block_id_stack": TSeq(STR),
                "scope_type": INT, "closed": INT},
        result=BOOL, ghost={"constants": {"DO_TYPE_ID": 10}},
        requires=[("none_closed_yet", "closed == 0")],
        ensures=[("closes_all_sharing_the_label", "implies(scope_type == DO_TYPE_ID and line_label is not None, "
                                                  "len(block_id_stack) == 0 or block_id_stack[-1] != line_label)"),
                 ("one_scope_per_label", "closed == len(old(block_id_stack)) - len(block_id_stack)"),
                 ("only_pops", "block_id_stack == old(block_id_stack)[:len(block_id_stack)]"),
                 ("pops_only_this_label", "implies(len(block_id_stack) < len(old(block_id_stack)), line_label is not None) and "
                                          "alleq(old(block_id_stack), len(block_id_stack), line_label)"),
                 ("result", "result == (closed > 0)"),
                 ("not_a_do", "implies(scope_type != DO_TYPE_ID or line_label is None, closed == 0)")],
        calls={"file_ast.current_scope.get_type": m_is_do, "file_ast.end_scope": m_end_scope},
        loops={0: LoopSpec("while len(block_id_stack) > 0 and line_label == block_id_stack[-1]", invariants=[
            ("only_pops", "block_id_stack == old(block_id_stack)[:len(block_id_stack)]"),
            ("count", "closed == len(old(block_id_stack)) - len(block_id_stack)"),
            ("popped_label", "alleq(old(block_id_stack), len(block_id_stack), line_label)"),
            ("flag", "did_close == (closed > 0)")],
            variant="len(block_id_stack)")},
        short="FortranFile.parse_do_fixed_format"))
    return reg


TARGETS = [f"{UTIL}.find_in_workspace.add_children", f"{UTIL}.find_in_workspace", f"{PARSER}.FortranFile.parse_do_fixed_format"]


# ------------------------------------------------------------------ finite tables and structure
def table_items(repo):
    from fortls.constants import FRegex
    items = []
    fp = repo.func(f"{PARSER}.FortranFile.parse")
    ctor = []  # (line, variable, class): constructor assignments in source order
    for n in ast.walk(fp.node):
        if isinstance(n, ast.Assign) and len(n.targets) == 1 and isinstance(n.targets[0], ast.Name) \
                and isinstance(n.value, ast.Call) and isinstance(n.value.func, ast.Name):
            ctor.append((n.lineno, n.targets[0].id, n.value.func.id))
    pairs = []
    for n in ast.walk(fp.node):
        if isinstance(n, ast.Call) and ast.unparse(n.func) == "file_ast.add_scope" and len(n.args) >= 2:
            var = ast.unparse(n.args[0])
            rx = ast.unparse(n.args[1]).replace("FRegex.", "")
            before = [c for c in ctor if c[1] == var and c[0] <= n.lineno]
            cls = max(before)[2] if before else "?"
            pairs.append((cls, rx, fp.where(n)))
    seen = set()
    for cls, rx, where in pairs:
        if (cls, rx) in seen:
            continue
        seen.add((cls, rx))
        want = EXPECTED_END.get(cls)
        ok = want == rx
        items.append(Item(f"C04/FortranFile.parse/table.end_pairing[{cls}]" + ("" if rx == want else f"[{rx}]"),
                          "proved" if ok else "refuted", "finite-enumeration", 0.0, where=where, mode="table", func=fp.qualname,
                          detail=f"{cls} scopes are opened with FRegex.{rx}",
                          witness=None if ok else {"constructor": cls, "registered": rx, "expected": want}))
    missing = sorted(set(EXPECTED_END) - {c for c, _, _ in pairs} - {"Scope"})
    items.append(Item("C04/FortranFile.parse/table.end_pairing.complete", "proved" if not missing else "refuted",
                      "finite-enumeration", 0.0, mode="table", func=fp.qualname,
                      detail=f"{len(seen)} constructor/regex pairs found", witness={"constructs_never_opened": missing} if missing else None))
    # acceptance: regex R accepts keyword K iff K is R's keyword (exhaustive over the two finite lists, both cases)
    bad = []
    n = 0
    for rx, kws in KEYWORD_OF.items():
        R = getattr(FRegex, rx, None)
        if R is None:
            bad.append({"regex": rx, "problem": "no such FRegex constant"})
            continue
        for K in KEYWORDS:
            for form in (K, K.lower(), K.title()):
                n += 1
                got = R.match(form) is not None
                want = K in kws
                if got != want and (rx, K) not in TOLERATED:
                    bad.append({"regex": rx, "keyword": form, "accepts": got, "expected": want})
    items.append(Item("C04/FRegex/table.end_keyword_acceptance", "proved" if not bad else "refuted", "finite-enumeration(CPython)",
                      0.0, mode="table", detail=f"exhaustive: {n} (END regex, keyword, case) triples with the real re",
                      witness=bad[:5] or None, confirmed=True if bad else None))
    return items


def structure_items(repo):
    items = []
    fe = repo.func("fortls.parsers.internal.ast.FortranAST.end_scope")
    ok = "self.current_scope.end(line_number)" in ast.unparse(fe.node)
    fb = repo.func("fortls.parsers.internal.base.FortranObj.end")
    ok = ok and "self.eline = line_number" in ast.unparse(fb.node)
    items.append(Item("C04/FortranAST.end_scope/ensures.eline", "proved" if ok else "refuted", "structural", 0.0, where=fe.where(),
                      mode="table", func=fe.qualname, detail="the popped scope's eline is the line number of the END statement",
                      witness=None if ok else {"end_scope": ast.unparse(fe.node)[:300]}))
    fs = repo.func("fortls.parsers.internal.scope.Scope.__init__")
    ok = "self.sline: int = line_number" in ast.unparse(fs.node)
    items.append(Item("C04/Scope.__init__/ensures.sline", "proved" if ok else "refuted", "structural", 0.0, where=fs.where(),
                      mode="table", func=fs.qualname, detail="a scope's sline is the line number it is constructed with"))
    from pyvc import shape
    fw = repo.func(f"{LS}.serve_workspace_symbol")
    src = ast.unparse(fw.node)
    sfw = shape.of(repo, f"{LS}.serve_workspace_symbol")
    def sorted_by_name(fn):
        # `return sorted(matching_symbols, key=lambda k: KEY)` with KEY = k['name'] or a tuple that starts with it
        for n in ast.walk(fn):
            if (isinstance(n, ast.Return) and isinstance(n.value, ast.Call) and ast.unparse(n.value.func) == "sorted"
                    and n.value.args and ast.unparse(n.value.args[0]) == "matching_symbols"):
                key = next((kw.value for kw in n.value.keywords if kw.arg == "key"), None)
                rev = next((kw.value for kw in n.value.keywords if kw.arg == "reverse"), None)
                if isinstance(key, ast.Lambda) and len(key.args.args) == 1 and rev is None:
                    a = key.args.args[0].arg
                    body = key.body.elts[0] if isinstance(key.body, ast.Tuple) and key.body.elts else key.body
                    return ast.unparse(body) == f"{a}['name']"
        return False
    ok = (sorted_by_name(fw.node)
          and shape.has(sfw, "'start': {'line': candidate.sline - 1, 'character': 0}")
          and shape.has(sfw, "'end': {'line': candidate.eline - 1, 'character': 0}")
          and shape.has(sfw, "find_in_workspace(self.obj_tree, query)") and shape.has(sfw, "query = request['params']['query'].lower()"))
    items.append(Item("C04/LangServer.serve_workspace_symbol/ensures.sorted_by_name_and_ranges",
                      "proved" if ok else "refuted", "structural", 0.0, where=fw.where(), mode="table", func=fw.qualname,
                      detail="one symbol per candidate of find_in_workspace(lower-cased query), range (sline-1, eline-1), "
                             "result sorted by the name key", witness=None if ok else {"source_tail": src[-500:]}))
    fd = repo.func(f"{LS}.serve_document_symbols")
    src = ast.unparse(fd.node)
    sfd = shape.of(repo, f"{LS}.serve_document_symbols")
    def range_args(call):
        a = [ast.unparse(x) for x in call.args]
        return any(a[i].endswith(".sline - 1") and a[i + 1] == "0" and a[i + 2] == a[i].replace(".sline", ".eline") and a[i + 3] == "0"
                   for i in range(len(a) - 3))
    n_rng = sum(1 for n in ast.walk(sfd) if isinstance(n, ast.Call) and range_args(n))
    ok = (n_rng >= 2 and any(isinstance(n, ast.For) and ast.unparse(n.iter) == "file_obj.ast.get_scopes()" for n in ast.walk(sfd))
          and any(isinstance(n, ast.If) and ast.unparse(n.test) == "len(scope_tree) > 2" for n in ast.walk(sfd))
          and any(isinstance(n, ast.keyword) and n.arg == "container_name" and ast.unparse(n.value).endswith(".name") for n in ast.walk(sfd)))
    items.append(Item("C04/LangServer.serve_document_symbols/ensures.projection", "proved" if ok else "refuted", "structural",
                      0.0, where=fd.where(), mode="table", func=fd.qualname,
                      detail="one symbol per kept scope of the index with range (sline-1, eline-1); members of a type listed "
                             "with the type as container", witness=None if ok else {"source_tail": src[-600:]}))
    return items


def extra(repo, reg, tier, seed):
    from contracts import c04_gen
    items = table_items(repo) + structure_items(repo)
    w, n = c04_gen.run(tier, seed)
    it = Item("C04/session/native_generated_programs", "refuted" if w else "bounded-ok", "native-run(bounded)", 0.0,
              mode="bounded", witness=w, confirmed=True if w else None, func=f"{LS}.serve_document_symbols",
              detail=f"bounded: {n} generated programs (seed {seed}; nested units, procedures with CONTAINS, types with "
                     "components and bindings, generic interfaces, DO/IF/BLOCK/SELECT/ASSOCIATE/WHERE, random spacing, case and "
                     "END forms): outline and workspace/symbol answers equal the generator's expectation")
    it.count = n
    items.append(it)
    w2, n2 = end_word_lemma(repo)
    it = Item("C04/END_WORD/lemma.end_statement_grammar", "refuted" if w2 else "bounded-ok", "finite-enumeration(CPython)", 0.0,
              mode="bounded", witness=w2, confirmed=True if w2 else None, func="fortls.regex_patterns.FortranRegularExpressions",
              detail=f"bounded: {n2} spellings of END statements (17 keywords and bare END; joined or separate; with or without a "
                     "name; leading and trailing blanks; both cases) are recognised by the real END_WORD with the right keyword, "
                     "and nine look-alikes (assignments, ENDFILE statements) are not")
    it.count = n2
    items.append(it)
    return items


def replay(obligation, model, rep):
    return {"confirmed": None}


def end_word_lemma(repo):
    """Every spelling of an END statement is recognised by END_WORD with the right keyword: END, END <kw>, END<kw>,
    each with or without a name, with any run of blanks before/after and what is left of a trailing comment (the
    comment is cut at the `!`, the blanks before it stay); and what is not an END statement is not recognised."""
    import itertools
    from fortls.regex_patterns import FortranRegularExpressions as F
    kws = ["do", "where", "if", "block", "critical", "associate", "select", "type", "enum", "module", "submodule", "program",
           "interface", "subroutine", "function", "procedure", "forall"]
    n = 0
    for kw, joined, named, lead, trail, upper in itertools.product([None] + kws, (False, True), (False, True), ("", "  "),
                                                                   ("", " ", "    "), (False, True)):
        if kw is None and joined:
            continue
        text = "end" + ("" if kw is None else (kw if joined else " " + kw)) + (" nm_1" if named else "")
        if kw is None and named:
            continue  # `end name` is not Fortran
        text = lead + (text.upper() if upper else text) + trail
        n += 1
        m = F.END_WORD.match(text)
        got = None if m is None else ((m.group(1) or "").lower() or "<bare>")
        want = kw or "<bare>"
        if got != want:
            return {"statement": text, "expected_keyword": want, "END_WORD_gives": got, "regex": F.END_WORD.pattern}, n
    for text in ("endurance = 1", "end_time = 2", "  ending(3) = 4", "enddo_count = 1", "end%x = 1", "endif_flag = 0",
                 "end file u", "  END FILE 10", "endfile(10)"):
        n += 1
        m = F.END_WORD.match(text)
        if m is not None and not FRegexNonDef(text):
            return {"statement": text, "expected_keyword": None, "END_WORD_gives": (m.group(1) or "<bare>"), "regex": F.END_WORD.pattern}, n
    return None, n


def FRegexNonDef(text):
    """assignments are filtered out before the END test only when they are plain `name =`; the parser tests END first, so
    this lemma just records which look-alikes END_WORD itself rejects"""
    return False


def do_label_small_scope():
    """The real parse_do_fixed_format on every stack of up to 3 labels over two labels, every label, DO / non-DO scope."""
    import itertools
    from fortls.parsers.internal.parser import FortranFile
    from fortls.constants import DO_TYPE_ID

    class Sc:
        def __init__(self, t):
            self.t = t

        def get_type(self, no_link=False):
            return self.t

    class Ast:
        def __init__(self, t):
            self.current_scope, self.closed = Sc(t), 0

        def end_scope(self, ln, check=True):
            self.closed += 1
    ff = FortranFile.__new__(FortranFile)
    for n in range(4):
        for stack in itertools.product(["10", "20"], repeat=n):
            for label in (None, "10", "20", "30"):
                for t in (DO_TYPE_ID, DO_TYPE_ID + 1):
                    a, st = Ast(t), list(stack)
                    res = ff.parse_do_fixed_format("      continue", 5, a, label, st)
                    keep = len(stack)
                    if t == DO_TYPE_ID and label is not None:
                        while keep > 0 and stack[keep - 1] == label:
                            keep -= 1
                    if st != list(stack[:keep]) or a.closed != len(stack) - keep or bool(res) != (a.closed > 0):
                        return {"function": "FortranFile.parse_do_fixed_format", "block_id_stack": list(stack), "line_label": label,
                                "current_scope_is_DO": t == DO_TYPE_ID, "stack_after": st, "scopes_closed": a.closed, "result": res,
                                "expected_stack_after": list(stack[:keep]), "expected_scopes_closed": len(stack) - keep}
    return None


def search(func, tier, seed, obligation=""):
    """find_in_workspace natively on a small object tree; label-terminated DO loops on generated fixed-form programs."""
    if func.endswith("parse_do_fixed_format"):
        w = do_label_small_scope()
        if w:
            return w
        from contracts import c04_gen
        import random
        for k in range(40):
            text, expect, members = c04_gen.fixed_form_program(random.Random(seed * 977 + k))
            w = c04_gen.check_program(text, expect, members, fname="g.f")
            if w:
                w["program"] = text
                return w
        return None
    from fortls.parsers.internal.utilities import find_in_workspace
    from replay.harness import Workspace, session
    ws = Workspace({"m.f90": "module Mod_A\n  integer :: alpha, Beta\ncontains\n  subroutine gamma()\n  end subroutine gamma\nend module Mod_A\n",
                    "p.f90": "program prog\n  integer :: alpha2\n  do i = 1, 2\n  end do\nend program prog\n",
                    "s.f90": "subroutine ALPHA_ext()\nend subroutine ALPHA_ext\n"})
    try:
        srv, out = session(ws, [])
        for q in ["", "a", "A", "alpha", "ALPHA", "mod", "zz", "#", "do", "beta", "BETA", "Bet", "GAM"]:
            got = sorted(o.name for o in find_in_workspace(srv.obj_tree, q))
            universe = ["Mod_A", "alpha", "Beta", "gamma", "prog", "alpha2", "i", "ALPHA_ext"]
            want = sorted(n for n in universe if q.lower() in n.lower())
            # `i` is implicit (not declared) in the program: not an object
            want = [n for n in want if n != "i"]
            if got != want:
                return {"function": "find_in_workspace", "query": q, "expected": want, "returned": got}
        return None
    finally:
        ws.close()


TRUSTED = ["objects are immutable references inside the VCs (fields and pure methods are uninterpreted functions); dict "
           "iteration order is insertion order",
           "str.lower is an uninterpreted function; `in`/find on strings is SMT str.indexof"]
ASSUMPTIONS = ["exact_match=False (the only mode used by serve_workspace_symbol)"]
RESIDUAL = ("that the statement regexes recognise exactly the Fortran statements (so that every construct produces its scope "
            "event) has no oracle short of a grammar: only the generated-program stand-in covers it; fortls treats a PROGRAM "
            "as a module for workspace symbols (pinned by the repository's own test), so its members are returned too")
