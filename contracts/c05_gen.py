"""Generator of multi-file programs in which every use site has exactly one accessible declaration by
construction (bounded stand-in of C05's quantifier: modules, nested procedures, derived types, USE graphs).

Model: modules M0..Mk (a DAG: Mi may USE Mj for j < i).  Every module declares variables, a derived type (maybe
extending a type it can see), a module procedure with a local variable (maybe shadowing a module variable) and an
internal procedure.  Entities are PUBLIC or PRIVATE through the module default and explicit attributes.  A USE is
plain, or has an ONLY list with optional renames.  `visible(M)` is computed from the model — local names first, then
USE-associated ones (public entities of the used module, transitively re-exported unless the using module is
default-private), name clashes are avoided by construction: all declared names are globally unique except
deliberate shadowing inside procedures, where the innermost declaration wins.
"""
from __future__ import annotations

import random


class Decl:
    def __init__(self, name, file, line, kind, public=True):
        self.name, self.file, self.line, self.kind, self.public = name, file, line, kind, public


class Mod:
    def __init__(self, idx):
        self.idx = idx
        self.name = f"gm{idx}"
        self.file = f"gm{idx}.f90"
        self.default_private = False
        self.decls: dict[str, Decl] = {}        # own module-level entities by name
        self.uses: list[tuple[Mod, dict | None]] = []  # (module, None | {local: remote})
        self.type_members: dict[str, list[Decl]] = {}  # type name -> all components incl. inherited
        self.public_imports: set[str] = set()  # USE-associated local names a default-private module re-exports
        self.private_imports: set[str] = set()  # USE-associated local names a default-public module declares PRIVATE
        self.lines: list[str] = []

    def exported(self) -> dict[str, Decl]:
        """name -> declaration, as seen by a module that USEs this one without ONLY"""
        out = {n: d for n, d in self.decls.items() if d.public}
        for m, only in self.uses:
            for n, d in imported(m, only).items():
                if n in self.private_imports:
                    continue
                if not self.default_private or n in self.public_imports:
                    out.setdefault(n, d)
        return out

    def visible(self) -> dict[str, Decl]:
        out = dict(self.decls)
        for m, only in self.uses:
            for n, d in imported(m, only).items():
                out.setdefault(n, d)
        return out


def imported(m: Mod, only):
    """only: None (whole module), a dict local -> remote (ONLY list), or ("ren", dict): the whole module with some
    entities renamed (the original names are then not accessible)"""
    exp = m.exported()
    if only is None:
        return exp
    if isinstance(only, tuple):
        ren = only[1]
        out = {n: d for n, d in exp.items() if n not in ren.values()}
        out.update({loc: exp[rem] for loc, rem in ren.items() if rem in exp})
        return out
    return {loc: exp[rem] for loc, rem in only.items() if rem in exp}


class Gen:
    def __init__(self, rnd: random.Random, legacy: bool = False):
        self.r = rnd
        self.legacy = legacy  # the REGRESSION programs keep the exact shape that once exposed a defect
        self.uid = 0
        self.mods: list[Mod] = []
        self.sites: list[tuple] = []  # (file, line0, col0, expected (file, line0) | None, note)
        self.comp_sites: list[tuple] = []  # (file, line0, col0, typed prefix, expected user names)
        self.r2 = random.Random(hash(rnd.getstate()))  # derived without consuming from the main stream

    def nm(self, pre):
        self.uid += 1
        return f"{pre}{self.uid}"

    def cs(self, name):
        """the same Fortran name in another spelling"""
        c = self.r.random()
        return name.upper() if c < 0.2 else (name.capitalize() if c < 0.3 else name)

    def module(self, idx):
        r = self.r
        m = Mod(idx)
        L = m.lines
        L.append(f"module {m.name}")
        # USE statements
        cands = [x for x in self.mods]
        r.shuffle(cands)
        for u in cands[: r.randint(0, min(2, len(cands)))]:
            text, only = self.use_stmt(u)
            L.append("  " + text)
            m.uses.append((u, only))
        L.append("  implicit none")
        m.default_private = r.random() < 0.4
        if m.default_private:
            L.append("  private")
            imp = sorted(m.visible())
            if imp and r.random() < 0.6:
                m.public_imports = set(r.sample(imp, r.randint(1, min(2, len(imp)))))
                L.append("  public :: " + ", ".join(self.cs(n) for n in sorted(m.public_imports)))
        elif r.random() < 0.3:
            L.append("  public")
        if not m.default_private:
            imp = sorted(n for n, d in m.visible().items() if d.kind in ("var", "proc"))
            if imp and self.r2.random() < 0.35 and not self.legacy:
                # a USE-associated name the module keeps to itself
                m.private_imports = {self.r2.choice(imp)}
                L.append("  private :: " + ", ".join(n.upper() if self.r2.random() < 0.3 else n for n in sorted(m.private_imports)))

        def vis_attr():
            """returns (attribute text, is_public)"""
            c = r.random()
            if c < 0.3:
                return ", public", True
            if c < 0.5:
                return ", private", False
            return "", not m.default_private

        # variables
        for _ in range(r.randint(1, 3)):
            n = self.nm("v")
            if r.random() < 0.3:
                # accessibility given by a separate statement, in another spelling of the name
                pub = r.random() < 0.5
                L.append(f"  integer :: {self.cs(n)}")
                m.decls[n] = Decl(n, m.file, len(L) - 1, "var", pub)
                L.append(f"  {'public' if pub else 'private'} :: {self.cs(n)}")
                continue
            a, pub = vis_attr()
            L.append(f"  integer{a} :: {n}")
            m.decls[n] = Decl(n, m.file, len(L) - 1, "var", pub)
        # a private variable named like an entity that a used default-private module imports but does not re-export
        behind = set()
        m.proc_use = None
        if self.mods and r.random() < 0.35:
            u = r.choice(self.mods)
            m.proc_use = (u,) + self.use_stmt(u)
        for u, only in m.uses + ([(m.proc_use[0], m.proc_use[2])] if m.proc_use else []):
            if u.default_private and only is None:
                behind |= {n for n, d in u.visible().items() if d.kind == "var" and n not in u.decls}
            if only is None:
                behind |= {n for n in u.private_imports if u.visible()[n].kind == "var"}
            if isinstance(only, tuple):
                # renamed away: the original name is free again in this scope
                behind |= {rem for rem in only[1].values() if u.exported()[rem].kind == "var"}
            if isinstance(only, dict) and not only:
                # empty ONLY list: every name of the module stays free in this scope
                behind |= {n for n, d in u.exported().items() if d.kind == "var"}
        behind -= set(m.visible())
        if m.proc_use:
            behind -= set(imported(m.proc_use[0], m.proc_use[2]))
        m.clash = sorted(behind)[: r.randint(0, 2)]
        for n in m.clash:
            L.append(f"  integer, private :: {n}")
            m.decls[n] = Decl(n, m.file, len(L) - 1, "var", False)
        # a derived type, possibly extending a visible type
        vis_now = m.visible()
        parents = [d for d in vis_now.values() if d.kind == "type"]
        tname = self.nm("t")
        a, pub = vis_attr()
        parent = r.choice(parents) if parents and r.random() < 0.75 else None
        # the name a parent type is known by locally
        parent_local = None
        if parent is not None:
            parent_local = [n for n, d in vis_now.items() if d is parent][0]
        head = "  type" + a + (f", extends({parent_local})" if parent else "") + f" :: {tname}"
        L.append(head)
        m.decls[tname] = Decl(tname, m.file, len(L) - 1, "type", pub)
        members = list(self.type_members_of(parent)) if parent else []
        for _ in range(r.randint(1, 2)):
            c = self.nm("c")
            L.append(f"    integer :: {c}")
            members.append(Decl(c, m.file, len(L) - 1, "comp"))
        L.append(f"  end type {tname}")
        m.type_members[tname] = members
        self.all_type_members[id(m.decls[tname])] = members
        self.type_parent[id(m.decls[tname])] = parent
        # interface block (unnamed) with an external procedure prototype
        if r.random() < 0.4:
            ext = self.nm("x")
            L.append("  interface")
            L.append(f"    subroutine {ext}(a)")
            L.append("      integer :: a")
            L.append(f"    end subroutine {ext}")
            L.append("  end interface")
            m.decls[ext] = Decl(ext, m.file, len(L) - 4, "proc", not m.default_private)
        # explicit accessibility statement for the procedure
        pname = self.nm("p")
        ppub = not m.default_private
        if r.random() < 0.5:
            ppub = r.random() < 0.6
            L.append(f"  {'public' if ppub else 'private'} :: {self.cs(pname)}")
        L.append("contains")
        L.append(f"  subroutine {pname}(arg)")
        m.decls[pname] = Decl(pname, m.file, len(L) - 1, "proc", ppub)
        scope = dict(m.visible())
        if m.proc_use:
            u, text, only = m.proc_use
            L.append("    " + text)
            scope.update(imported(u, only))
        arg = Decl("arg", m.file, len(L), "var")
        L.append("    integer :: arg")
        scope["arg"] = arg
        # shadow a visible variable?
        shadowable = [n for n, d in scope.items() if d.kind == "var" and n != "arg"]
        if shadowable and r.random() < 0.5:
            s = r.choice(shadowable)
            L.append(f"    integer :: {s}")
            scope[s] = Decl(s, m.file, len(L) - 1, "var")
        # an object of a visible type
        types_here = [(n, d) for n, d in scope.items() if d.kind == "type"]
        obj = None
        if types_here:
            tn, td = r.choice(sorted(types_here, key=lambda x: x[0]))
            obj = self.nm("o")
            L.append(f"    type({tn}) :: {obj}")
            scope[obj] = Decl(obj, m.file, len(L) - 1, "var")
            obj = (obj, td)
        self.use_sites(m, scope, obj, 4)
        # internal procedure seeing the host's scope
        has_internal = r.random() < 0.6
        if not has_internal:
            self.completion_site(m, scope, 4, set())
        if has_internal:
            iname = self.nm("i")
            self.completion_site(m, scope, 4, {iname})
            L.append(f"    call {iname}(1)")
            call_line = len(L) - 1
            L.append("  contains")
            L.append(f"    subroutine {iname}(zz)")
            idecl = Decl(iname, m.file, len(L) - 1, "proc")
            L.append("      integer :: zz")
            self.sites.append((m.file, call_line, 9, (idecl.file, idecl.line), "internal procedure"))
            inner = dict(scope)
            inner[iname] = idecl
            if shadowable and r.random() < 0.5:
                s = r.choice(shadowable)
                L.append(f"      integer :: {s}")
                inner[s] = Decl(s, m.file, len(L) - 1, "var")
            self.use_sites(m, inner, obj, 6)
            self.completion_site(m, inner, 6, {"zz"})
            L.append(f"    end subroutine {iname}")
        L.append(f"  end subroutine {pname}")
        L.append(f"end module {m.name}")
        # names that must not resolve from here: private entities of used modules (only checked when no clash)
        return m

    def use_stmt(self, u):
        text, only = self._use_stmt(u)
        # `USE m, ONLY:` with an empty list makes nothing of m accessible (own stream: earlier programs keep their shape)
        c = self.r2.random()
        if c < 0.1 and not self.legacy:
            return f"use {u.name}, only:" + ("" if c < 0.05 else " "), {}
        return text, only

    def _use_stmt(self, u):
        r = self.r
        exp = u.exported()
        names = sorted(exp)
        if names and r.random() < 0.5:
            pick = r.sample(names, r.randint(1, min(3, len(names))))
            only = {}
            parts = []
            for n in pick:
                if r.random() < 0.35 and exp[n].kind != "type":
                    loc = self.nm("rn")
                    only[loc] = n
                    parts.append(f"{loc} => {n}")
                else:
                    only[n] = n
                    parts.append(n)
            return f"use {u.name}, only: {', '.join(parts)}", only
        ren_ok = sorted(n for n in names if exp[n].kind != "type")
        if ren_ok and r.random() < 0.3:
            ren = {self.nm("rn"): n for n in r.sample(ren_ok, r.randint(1, min(2, len(ren_ok))))}
            return f"use {u.name}, " + ", ".join(f"{loc} => {rem}" for loc, rem in ren.items()), ("ren", ren)
        return f"use {u.name}", None

    def type_members_of(self, tdecl):
        return self.all_type_members.get(id(tdecl), [])

    def completion_site(self, m: Mod, scope: dict, indent: int, also_visible):
        """completion: the variables, procedures and derived types offered for a typed prefix are exactly the visible ones
        (own random stream: the definition sites above keep their programs)"""
        r, L = self.r2, m.lines
        pad = " " * indent
        # (a derived type is named in an executable statement by its structure constructor)
        cands = sorted(n for n, d in scope.items() if d.kind in ("var", "proc", "type"))
        if cands and r.random() < 0.7:
            pick = r.choice(cands)
            prefix = pick[: r.randint(1, len(pick))]
            L.append(f"{pad}arg = {prefix}")
            expected = {n for n in cands if n.startswith(prefix)} | {n for n in also_visible if n.startswith(prefix)}
            self.comp_sites.append((m.file, len(L) - 1, len(L[-1]), prefix, expected))

    def use_sites(self, m: Mod, scope: dict, obj, indent: int):
        r, L = self.r, m.lines
        pad = " " * indent
        names = sorted(n for n, d in scope.items() if d.kind == "var")
        forced = [n for n in getattr(m, "clash", []) if n in scope]
        for n in forced + [x for x in r.sample(names, min(len(names), 3)) if x not in forced]:
            d = scope[n]
            L.append(f"{pad}{self.cs(n)} = 1")
            self.sites.append((m.file, len(L) - 1, indent + 1, (d.file, d.line), "variable"))
        procs = sorted(n for n, d in scope.items() if d.kind == "proc")
        for n in r.sample(procs, min(len(procs), 2)):
            d = scope[n]
            L.append(f"{pad}call {self.cs(n)}(1)")
            self.sites.append((m.file, len(L) - 1, indent + 6, (d.file, d.line), "procedure"))
        if obj is not None:
            on, td = obj
            mem = self.type_members_of(td)
            if on in scope and mem:
                # the component of the most distant ancestor and a random one
                for c in dict.fromkeys([mem[0], r.choice(mem)]):
                    L.append(f"{pad}{on}%{c.name} = 2")
                    self.sites.append((m.file, len(L) - 1, indent + len(on) + 2, (c.file, c.line), "component"))
                # the parent type is itself a component: o%parent_t%inherited
                par = self.type_parent.get(id(td))
                if par is not None and self.type_members_of(par):
                    c = self.type_members_of(par)[0]
                    L.append(f"{pad}{on}%{par.name}%{c.name} = 2")
                    self.sites.append((m.file, len(L) - 1, indent + len(on) + len(par.name) + 3, (c.file, c.line), "component through the parent type"))
        # inaccessible names: private entities of any earlier module that are not visible here
        hidden = []
        for u in self.mods:
            for n, d in u.decls.items():
                if not d.public and n not in scope and d.kind in ("var", "proc"):
                    hidden.append(d)
        if hidden and r.random() < 0.7:
            d = r.choice(hidden)
            if d.kind == "var":
                L.append(f"{pad}{d.name} = 3")
                self.sites.append((m.file, len(L) - 1, indent + 1, None, "private entity of another module"))
            else:
                L.append(f"{pad}call {d.name}(3)")
                self.sites.append((m.file, len(L) - 1, indent + 6, None, "private entity of another module"))

    def generate(self):
        self.all_type_members = {}
        self.type_parent = {}
        for i in range(self.r.randint(3, 5)):
            self.mods.append(self.module(i))
        files = {m.file: "\n".join(m.lines) + "\n" for m in self.mods}
        return files, self.sites


def user_names(g: "Gen"):
    names = {"arg", "zz"}
    for m in g.mods:
        names.add(m.name)
        names |= set(m.decls)
        for u, only in m.uses + ([(m.proc_use[0], m.proc_use[2])] if getattr(m, "proc_use", None) else []):
            if isinstance(only, tuple):
                names |= set(only[1])
            elif isinstance(only, dict):
                names |= set(only)
        for t in m.lines:
            for w in t.replace(",", " ").replace("(", " ").replace(")", " ").split():
                if w[:1] in "voicextrp" and w[1:].isdigit() or (w[:2] == "rn" and w[2:].isdigit()):
                    names.add(w)
    return {n.lower() for n in names}


def check_completion(files, g: "Gen", mode=0):
    from replay.harness import Workspace, session
    if not g.comp_sites:
        return None
    ws = Workspace(files)
    try:
        order = list(files) if mode == 0 else (list(reversed(list(files))) if mode == 1 else [])
        msgs = [{"jsonrpc": "2.0", "method": "textDocument/didOpen", "params": {"textDocument": {"uri": ws.uri(n)}}} for n in order]
        for k, (f, ln, ch, _, _) in enumerate(g.comp_sites):
            msgs.append({"jsonrpc": "2.0", "id": 100 + k, "method": "textDocument/completion",
                         "params": {"textDocument": {"uri": ws.uri(f)}, "position": {"line": ln, "character": ch}}})
        srv, out = session(ws, msgs)
        by_id = {m["id"]: m for m in out if "id" in m}
        universe = user_names(g)
        for k, (f, ln, ch, prefix, expected) in enumerate(g.comp_sites):
            r = by_id.get(100 + k, {})
            if "error" in r:
                return {"completion_site": {"file": f, "line": ln, "text": files[f].split("\n")[ln]}, "error": r["error"].get("message")}
            labels = {str(i.get("label")).lower() for i in (r.get("result") or [])}
            offered = {l for l in labels if l in universe}
            # modules are not candidates of a statement; variables, procedures and derived types are compared
            offered = {l for l in offered if l not in {m.name.lower() for m in g.mods}}
            want = {n.lower() for n in expected}
            if offered != want:
                return {"completion_site": {"file": f, "line": ln, "text": files[f].split("\n")[ln], "typed": prefix},
                        "accessible_matches_not_offered": sorted(want - offered), "offered_but_not_accessible_or_not_matching": sorted(offered - want)}
        return None
    finally:
        ws.close()


def check_program(files, sites, mode=0):
    """mode 0: files opened in USE order; 1: in reverse order; 2: not opened at all (indexed by initialize only) —
    the order in which files are linked must not matter"""
    from replay.harness import Workspace, session
    ws = Workspace(files)
    try:
        order = list(files) if mode == 0 else (list(reversed(list(files))) if mode == 1 else [])
        msgs = [{"jsonrpc": "2.0", "method": "textDocument/didOpen", "params": {"textDocument": {"uri": ws.uri(n)}}} for n in order]
        for k, (f, ln, ch, _, _) in enumerate(sites):
            msgs.append({"jsonrpc": "2.0", "id": 100 + k, "method": "textDocument/definition",
                         "params": {"textDocument": {"uri": ws.uri(f)}, "position": {"line": ln, "character": ch}}})
        srv, out = session(ws, msgs)
        by_id = {m["id"]: m for m in out if "id" in m}
        for k, (f, ln, ch, want, note) in enumerate(sites):
            r = by_id.get(100 + k, {})
            res = r.get("result")
            got = None
            if res:
                got = (res["uri"].rsplit("/", 1)[-1], res["range"]["start"]["line"])
            if got != want or "error" in r:
                return {"use_site": {"file": f, "line": ln, "character": ch, "text": files[f].split("\n")[ln], "what": note},
                        "expected_declaration": want, "returned": got, "error": (r.get("error") or {}).get("message")}
        return None
    finally:
        ws.close()


# generator seeds (with their open mode) that exposed defects of the pinned tree; always run first
# (generator seed, open mode, legacy shape): programs that once exposed a defect or a catalogue mutant
REGRESSION = [(24, 0, True), (551, 2, True), (8135, 0, True), (23963, 1, True), (291, 2, True), (720, 0, False)]


def check_references(files, g: "Gen", rnd: random.Random, mode=0):
    """references of declared variables and procedures: every use site the model binds to the declaration (under its
    own spelling) is reported, every reported occurrence resolves to the declaration, and asking from another
    occurrence gives the same set"""
    from replay.harness import Workspace, session
    by_decl = {}
    for (f, ln, ch, want, note) in g.sites:
        if want is not None and note in ("variable", "procedure", "internal procedure"):
            by_decl.setdefault(want, []).append((f, ln, ch))
    decls = {}
    for m in g.mods:
        for n, d in m.decls.items():
            if d.kind in ("var", "proc") and (d.file, d.line) in by_decl:
                decls[(d.file, d.line)] = d
    picks = rnd.sample(sorted(decls), min(4, len(decls)))
    if not picks:
        return None, 0
    ws = Workspace(files)
    try:
        order = list(files) if mode == 0 else (list(reversed(list(files))) if mode == 1 else [])
        msgs = [{"jsonrpc": "2.0", "method": "textDocument/didOpen", "params": {"textDocument": {"uri": ws.uri(n)}}} for n in order]
        rid = 100
        plan = []
        for key in picks:
            d = decls[key]
            line = files[d.file].split("\n")[d.line]
            import re as _re
            mm = _re.search(r"\b%s\b" % _re.escape(d.name), line, _re.I)
            if not mm:
                continue
            rid += 1
            plan.append((rid, key, d, mm.start() + 1))
            msgs.append({"jsonrpc": "2.0", "id": rid, "method": "textDocument/references",
                         "params": {"textDocument": {"uri": ws.uri(d.file)}, "position": {"line": d.line, "character": mm.start() + 1},
                                    "context": {"includeDeclaration": True}}})
        srv, out = session(ws, msgs)
        by_id = {m["id"]: m for m in out if "id" in m}
        follow, fplan = [], []
        for rid, key, d, col in plan:
            r = by_id.get(rid, {})
            refs = sorted((x["uri"].rsplit("/", 1)[-1], x["range"]["start"]["line"], x["range"]["start"]["character"],
                           x["range"]["end"]["character"]) for x in (r.get("result") or []))
            have = {(f, ln) for f, ln, _, _ in refs}
            for (f, ln, ch) in by_decl[key]:
                text = files[f].split("\n")[ln]
                spelled = text[ch - 1:ch - 1 + len(d.name)].lower() == d.name.lower() or text[ch:ch + len(d.name)].lower() == d.name.lower() \
                    or d.name.lower() in text.lower()
                if spelled and d.name.lower() in _re.findall(r"[a-z_]\w*", text.lower()) and (f, ln) not in have:
                    return {"problem": "a use site bound to the declaration is not among its references", "entity": d.name,
                            "declared_at": key, "use_site": (f, ln, text), "references": refs, "error": (r.get("error") or {}).get("message")}, len(plan)
            for (f, ln, c0, c1) in refs:
                text = files[f].split("\n")[ln]
                if text[c0:c1].lower() != d.name.lower():
                    return {"problem": "a reference range does not span the identifier", "entity": d.name, "range": (f, ln, c0, c1),
                            "text_in_range": text[c0:c1], "line": text}, len(plan)
            # ask again from the last reference; resolve every reference back to the declaration
            if refs:
                f, ln, c0, c1 = refs[-1]
                srv.handle({"jsonrpc": "2.0", "id": 9000 + rid, "method": "textDocument/references",
                            "params": {"textDocument": {"uri": ws.uri(f)}, "position": {"line": ln, "character": c0 + 1},
                                       "context": {"includeDeclaration": True}}})
                for (f2, ln2, c2, _) in refs:
                    srv.handle({"jsonrpc": "2.0", "id": 20000 + len(fplan), "method": "textDocument/definition",
                                "params": {"textDocument": {"uri": ws.uri(f2)}, "position": {"line": ln2, "character": c2 + 1}}})
                    fplan.append((20000 + len(fplan), key, d, (f2, ln2, c2)))
                follow.append((9000 + rid, key, d, refs, (f, ln, c0)))
        from replay.harness import parse_out
        more = {}
        # srv.handle wrote into the same recording stream as the session
        import io
        rw = srv.conn.conn
        for m in parse_out(rw.out):
            if "id" in m:
                more[m["id"]] = m
        for rid2, key, d, refs, pos in follow:
            r = more.get(rid2, {})
            again = sorted((x["uri"].rsplit("/", 1)[-1], x["range"]["start"]["line"], x["range"]["start"]["character"],
                            x["range"]["end"]["character"]) for x in (r.get("result") or []))
            if again != refs:
                return {"problem": "references differ depending on the occurrence they are asked from", "entity": d.name,
                        "from_declaration": refs, "from_occurrence": pos, "returned": again}, len(plan)
        for rid3, key, d, pos in fplan:
            r = more.get(rid3, {})
            res = r.get("result")
            got = (res["uri"].rsplit("/", 1)[-1], res["range"]["start"]["line"]) if res else None
            if got != key:
                return {"problem": "a reported reference does not resolve to the declaration", "entity": d.name, "declared_at": key,
                        "reference": pos, "line": files[pos[0]].split("\n")[pos[1]], "resolves_to": got}, len(plan)
        # rename of the first entity: edits are exactly its references; the edited program resolves every occurrence
        # to the renamed declaration
        if plan:
            rid, key, d, col = plan[0]
            r0 = by_id.get(rid, {})
            refs = sorted((x["uri"].rsplit("/", 1)[-1], x["range"]["start"]["line"], x["range"]["start"]["character"],
                           x["range"]["end"]["character"]) for x in (r0.get("result") or []))
            srv.handle({"jsonrpc": "2.0", "id": 77777, "method": "textDocument/rename",
                        "params": {"textDocument": {"uri": ws.uri(d.file)}, "position": {"line": d.line, "character": col},
                                   "newName": "zz_renamed"}})
            rr = [m for m in parse_out(rw.out) if m.get("id") == 77777]
            changes = (rr[-1].get("result") or {}).get("changes", {}) if rr else {}
            edits = sorted((u.rsplit("/", 1)[-1], e["range"]["start"]["line"], e["range"]["start"]["character"], e["range"]["end"]["character"])
                           for u, es in changes.items() for e in es)
            if edits != refs or any(e["newText"] != "zz_renamed" for es in changes.values() for e in es):
                return {"problem": "rename edits are not exactly the references", "entity": d.name, "references": refs, "edits": edits}, len(plan)
            new_files = {}
            for f, text in files.items():
                lines = text.split("\n")
                for (ef, ln, c0, c1) in sorted([e for e in edits if e[0] == f], key=lambda e: (e[1], -e[2])):
                    lines[ln] = lines[ln][:c0] + "zz_renamed" + lines[ln][c1:]
                new_files[f] = "\n".join(lines)
            ws2 = Workspace(new_files)
            try:
                msgs2 = [{"jsonrpc": "2.0", "method": "textDocument/didOpen", "params": {"textDocument": {"uri": ws2.uri(n)}}} for n in new_files]
                for k2, (ef, ln, c0, c1) in enumerate(edits):
                    msgs2.append({"jsonrpc": "2.0", "id": 500 + k2, "method": "textDocument/definition",
                                  "params": {"textDocument": {"uri": ws2.uri(ef)}, "position": {"line": ln, "character": c0 + 1}}})
                srv2, out2 = session(ws2, msgs2)
                by2 = {m["id"]: m for m in out2 if "id" in m}
                for k2, (ef, ln, c0, c1) in enumerate(edits):
                    res = by2.get(500 + k2, {}).get("result")
                    got = (res["uri"].rsplit("/", 1)[-1], res["range"]["start"]["line"]) if res else None
                    if got != key:
                        return {"problem": "after applying the rename an occurrence no longer resolves to the renamed declaration",
                                "entity": d.name, "declared_at": key, "occurrence": (ef, ln, new_files[ef].split("\n")[ln]),
                                "resolves_to": got}, len(plan)
            finally:
                ws2.close()
        return None, len(plan)
    finally:
        ws.close()


def run_references(tier: str, seed: int):
    n = ne = 0
    for k in range(120 if tier == "thorough" else 40):
        rnd = random.Random(seed * 7919 + 200000 + k)
        g = Gen(random.Random(seed * 7919 + 200000 + k))
        files, _ = g.generate()
        n += 1
        w, c = check_references(files, g, rnd, mode=k % 3)
        ne += c
        if w:
            w["files"] = files
            w["generator_seed"] = seed * 7919 + 200000 + k
            return w, n, ne
    return None, n, ne


def run_completion(tier: str, seed: int):
    n = ns = 0
    for k in range(200 if tier == "thorough" else 60):
        g = Gen(random.Random(seed * 7919 + 100000 + k))
        files, _ = g.generate()
        n += 1
        ns += len(g.comp_sites)
        w = check_completion(files, g, mode=k % 3)
        if w:
            w["files"] = files
            w["generator_seed"] = seed * 7919 + 100000 + k
            return w, n, ns
    return None, n, ns


def run(tier: str, seed: int):
    n = sites_n = 0
    plan = list(REGRESSION) + [(seed * 7919 + k, (0, 2, 1, 2)[k % 4], False) for k in range(600 if tier == "thorough" else 120)]
    for gs, mode, legacy in plan:
        g = Gen(random.Random(gs), legacy=legacy)
        files, sites = g.generate()
        n += 1
        sites_n += len(sites)
        w = check_program(files, sites, mode=mode)
        if w:
            w["files"] = files
            w["open_mode"] = ["in USE order", "in reverse order", "not opened"][mode]
            w["generator_seed"] = gs
            return w, n, sites_n
    return None, n, sites_n
