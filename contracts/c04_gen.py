"""Generator of nested Fortran programs with their expected outline (bounded stand-in of C04)."""
from __future__ import annotations

import random


def r_choice(r, xs):
    return xs[r.randrange(len(xs))]


class Gen:
    def __init__(self, rnd: random.Random):
        self.r = rnd
        self.lines: list[str] = []
        self.expect: list[dict] = []  # name, cat, container, sline, eline (1-based)
        self.members: dict[str, list] = {}  # type name -> [(name, cat)]
        self.uid = 0

    def name(self, pre):
        self.uid += 1
        return f"{pre}{self.uid}"

    def kw(self, s: str) -> str:
        m = self.r.random()
        return s.upper() if m < 0.3 else (s.title() if m < 0.4 else s)

    def emit(self, text: str, indent: int) -> int:
        pad = " " * (indent * self.r.choice([1, 2, 3]) if self.r.random() < 0.8 else 0)
        self.lines.append(pad + text)
        return len(self.lines)

    def end_stmt(self, kind: str, name: str, indent: int) -> int:
        form = self.r.random()
        if form < 0.4:
            t = f"{self.kw('end')} {self.kw(kind)} {name}"
        elif form < 0.6:
            t = f"{self.kw('end')} {self.kw(kind)}"
        elif form < 0.75:
            t = f"{self.kw('end')}{self.kw(kind)} {name}"
        elif form < 0.82:
            t = f"{self.kw('end')}   {self.kw(kind)}   {name}   ! trailing comment"
        elif form < 0.87:
            # joined keyword, no name, then blanks or what is left of a trailing comment
            t = f"{self.kw('end')}{self.kw(kind)}" + self.r.choice(["  ", " ! done", "   ! " + name])
        elif kind in ("subroutine", "function", "module", "program"):
            t = self.kw("end")  # a bare END closes a program unit or procedure
        else:
            t = f"{self.kw('end')} {self.kw(kind)}"
        return self.emit(t, indent)

    # ---------------------------------------------------------------- constructs inside procedure bodies
    def body(self, indent: int, depth: int):
        for _ in range(self.r.randint(0, 3)):
            c = self.r.random()
            if c < 0.25:
                self.emit(f"x = x + {self.r.randint(1, 9)}", indent)
            elif depth > 0 and c < 0.4:
                self.emit(f"{self.kw('do')} i = 1, 3", indent)
                self.body(indent + 1, depth - 1)
                self.emit(self.r.choice([self.kw("end do"), self.kw("enddo"), self.kw("enddo") + " ! i", self.kw("enddo") + "  "]), indent)
            elif depth > 0 and c < 0.55:
                self.emit(f"{self.kw('if')} (x > 0) {self.kw('then')}", indent)
                self.body(indent + 1, depth - 1)
                if self.r.random() < 0.4:
                    self.emit(self.kw("else"), indent)
                    self.body(indent + 1, depth - 1)
                self.emit(self.r.choice([self.kw("end if"), self.kw("endif"), self.kw("endif") + "   ! x", self.kw("endif") + " "]), indent)
            elif depth > 0 and c < 0.65:
                self.emit(f"{self.kw('block')}", indent)
                self.emit("integer :: bl", indent + 1)
                self.body(indent + 1, depth - 1)
                self.emit(self.kw("end block"), indent)
            elif depth > 0 and c < 0.75:
                self.emit(f"{self.kw('select case')} (x)", indent)
                self.emit(f"{self.kw('case')} (1)", indent)
                self.body(indent + 1, depth - 1)
                self.emit(f"{self.kw('case default')}", indent)
                self.emit(self.kw("end select"), indent)
            elif depth > 0 and c < 0.85:
                self.emit(f"{self.kw('associate')} (aa => x)", indent)
                self.body(indent + 1, depth - 1)
                self.emit(self.kw("end associate"), indent)
            elif c < 0.88:
                self.emit(f"{self.kw('where')} (arr > 0)", indent)
                self.emit("arr = 0", indent + 1)
                self.emit(self.kw("end where"), indent)
            elif depth > 0 and c < 0.91:
                lbl = self.name("lb")
                self.emit(f"{lbl}: {self.kw('do')} i = 1, 3", indent)
                self.body(indent + 1, depth - 1)
                self.emit(f"{self.kw('end do')} {lbl}", indent)
            elif depth > 0 and c < 0.93:
                lbl = self.name("lb")
                self.emit(f"{lbl}: {self.kw('if')} (x > 0) {self.kw('then')}", indent)
                self.body(indent + 1, depth - 1)
                self.emit(f"{self.kw('else if')} (x < -1) {self.kw('then')} {lbl}", indent)
                self.emit(f"{self.kw('end if')} {lbl}", indent)
            elif depth > 0 and c < 0.95:
                self.emit(f"{self.kw('select type')} (cls)", indent)
                self.emit(f"{self.kw('type is')} (integer)", indent)
                self.body(indent + 1, depth - 1)
                self.emit(f"{self.kw('class default')}", indent)
                self.emit(self.kw("end select"), indent)
            elif c < 0.96:
                self.emit(f"{self.kw('forall')} (i = 1:3)", indent)
                self.emit("arr(i) = i", indent + 1)
                self.emit(self.kw("end forall"), indent)
            elif c < 0.97:
                self.emit(f"{self.kw('critical')}", indent)
                self.emit("x = x + 1", indent + 1)
                self.emit(self.kw("end critical"), indent)
            elif c < 0.985:
                self.emit(r_choice(self.r, ["where (arr > 1) arr = 1", "forall (i = 1:3) arr(i) = 0", "if (x > 1) x = 0",
                                            "do_count = 3", "block_size = x", "if_flag = x", "where_all(1) = 2", "block(1) = 3", "critical = 4",
                                            "end file 10"]), indent)
            else:
                self.emit("if (x > 1) x = 0", indent)

    def procedure(self, container: str | None, indent: int, allow_nested: bool, record: bool = True):
        is_fun = self.r.random() < 0.4
        kind = "function" if is_fun else "subroutine"
        nm = self.name("fn" if is_fun else "sb")
        has_res = is_fun and self.r.random() < 0.5
        head = f"{self.kw(kind)} {nm}(a, cls)" + (f" {self.kw('result')}(res)" if has_res else "")
        typed = is_fun and not has_res and self.r.random() < 0.5
        if typed:
            head = self.r.choice(["integer ", "real(8) ", "double precision ", "type(integer) ", "logical(kind=4) "]) + head
        pre = self.r.random()
        if pre < 0.15:
            head = self.kw("pure ") + head
        elif pre < 0.25:
            head = self.kw("recursive ") + head
        elif pre < 0.3 and not typed:
            head = self.kw("impure elemental ") + head
        s = self.emit(head, indent)
        self.emit("integer :: a, x, i, do_count, block_size, if_flag, block(2), critical", indent + 1)
        self.emit("integer :: arr(3), where_all(2)", indent + 1)
        self.emit("class(*) :: cls", indent + 1)
        self.body(indent + 1, 2)
        if allow_nested and self.r.random() < 0.3:
            self.emit(self.kw("contains"), indent)
            # a procedure nested in an external procedure is declared directly inside a program unit (outline);
            # one nested in a module procedure is one level deeper (not part of the outline)
            self.procedure(nm, indent + 1, False, record=(container is None))
        e = self.end_stmt(kind, nm, indent)
        if record:
            self.expect.append({"name": nm, "cat": "procedure", "container": container, "sline": s, "eline": e})
        return nm

    def derived_type(self, container: str, indent: int):
        nm = self.name("ty")
        s = self.emit(f"{self.kw('type')} :: {nm}", indent)
        mem = []
        for _ in range(self.r.randint(1, 3)):
            c = self.name("cm")
            self.emit(f"integer :: {c}", indent + 1)
            mem.append((c, "component"))
        binds = []
        if self.r.random() < 0.5:
            self.emit(self.kw("contains"), indent)
            b = self.name("bd")
            binds.append(b)
            self.emit(f"{self.kw('procedure')}, nopass :: {b} => {b}_impl", indent + 1)
            mem.append((b, "binding"))
        e = self.end_stmt("type", nm, indent)
        self.expect.append({"name": nm, "cat": "type", "container": container, "sline": s, "eline": e})
        self.members[nm] = mem
        return binds

    def interface(self, container: str, indent: int):
        nm = self.name("ig")
        s = self.emit(f"{self.kw('interface')} {nm}", indent)
        self.emit(f"{self.kw('module procedure')} {nm}_a", indent + 1)
        e = self.end_stmt("interface", nm, indent)
        self.expect.append({"name": nm, "cat": "interface", "container": container, "sline": s, "eline": e})
        return nm

    def module(self):
        nm = self.name("md")
        s = self.emit(f"{self.kw('module')} {nm}", 0)
        self.emit(self.kw("implicit none"), 1)
        impls = []
        for _ in range(self.r.randint(0, 2)):
            impls += self.derived_type(nm, 1)
        igs = [self.interface(nm, 1) for _ in range(self.r.randint(0, 1))]
        self.emit("integer :: mv", 1)
        self.emit(self.kw("contains"), 0)
        for _ in range(self.r.randint(0, 3)):
            self.procedure(nm, 1, True)
        for b in impls:
            s2 = self.emit(f"subroutine {b}_impl()", 1)
            e2 = self.emit("end subroutine", 1)
            self.expect.append({"name": f"{b}_impl", "cat": "procedure", "container": nm, "sline": s2, "eline": e2})
        for ig in igs:
            s2 = self.emit(f"subroutine {ig}_a(q)", 1)
            self.emit("integer :: q", 2)
            e2 = self.emit(f"end subroutine {ig}_a", 1)
            self.expect.append({"name": f"{ig}_a", "cat": "procedure", "container": nm, "sline": s2, "eline": e2})
        e = self.end_stmt("module", nm, 0)
        self.expect.append({"name": nm, "cat": "module", "container": None, "sline": s, "eline": e})

    def program(self):
        nm = self.name("pg")
        s = self.emit(f"{self.kw('program')} {nm}", 0)
        self.emit("integer :: x, i, do_count, block_size, if_flag, block(2), critical", 1)
        self.emit("integer :: arr(3), where_all(2)", 1)
        self.emit("class(*), allocatable :: cls", 1)
        self.body(1, 2)
        if self.r.random() < 0.5:
            self.emit(self.kw("contains"), 0)
            self.procedure(nm, 1, False)
        e = self.end_stmt("program", nm, 0)
        self.expect.append({"name": nm, "cat": "program", "container": None, "sline": s, "eline": e})

    def generate(self):
        for _ in range(self.r.randint(1, 3)):
            c = self.r.random()
            if self.r.random() < 0.3:
                self.emit("", 0)
            if self.r.random() < 0.3:
                self.emit("! a comment line", 0)
            if c < 0.5:
                self.module()
            elif c < 0.8:
                self.procedure(None, 0, True)
            else:
                self.program()
        return "\n".join(self.lines) + "\n", self.expect, self.members


CAT_KINDS = {"module": {2}, "program": {2}, "procedure": {12}, "type": {5}, "interface": {11}, "component": {13},
             "binding": {6}}


def check_program(text, expect, members, fname="g.f90"):
    """Open the program in a real server and compare documentSymbol / workspace/symbol with the expectation."""
    from replay.harness import Workspace, session
    ws = Workspace({fname: text})
    try:
        uri = ws.uri(fname)
        queries = ["", "sb", "FN", "ty", "1", "zzz"]
        msgs = [{"jsonrpc": "2.0", "method": "textDocument/didOpen", "params": {"textDocument": {"uri": uri}}},
                {"jsonrpc": "2.0", "id": 1, "method": "textDocument/documentSymbol", "params": {"textDocument": {"uri": uri}}}]
        for k, q in enumerate(queries):
            msgs.append({"jsonrpc": "2.0", "id": 10 + k, "method": "workspace/symbol", "params": {"query": q}})
        srv, out = session(ws, msgs)
        by_id = {m["id"]: m for m in out if "id" in m}
        syms = by_id[1].get("result")
        if syms is None:
            return {"problem": "documentSymbol returned no result", "response": by_id[1]}
        got = {}
        for s_ in syms:
            key = (s_["name"].lower(), s_.get("containerName"))
            got.setdefault(key, []).append(s_)
        member_names = {m[0] for ms in members.values() for m in ms}
        for e in expect:
            key = (e["name"].lower(), e["container"])
            hits = got.get(key, [])
            if len(hits) != 1:
                return {"problem": f"{e['cat']} '{e['name']}' appears {len(hits)} times in the outline (container "
                                   f"{e['container']})", "expected": e, "outline_names": sorted(k[0] for k in got)}
            h = hits[0]
            rng = h["location"]["range"]
            if rng["start"]["line"] != e["sline"] - 1 or rng["end"]["line"] != e["eline"] - 1:
                return {"problem": "start/end lines differ from the opening and END statements", "expected": e,
                        "returned_range": rng}
            if h["kind"] not in CAT_KINDS[e["cat"]]:
                return {"problem": "wrong symbol kind", "expected": e, "returned_kind": h["kind"]}
        for tname, ms in members.items():
            for mname, cat in ms:
                hits = got.get((mname.lower(), tname), [])
                if len(hits) != 1 or hits[0]["kind"] not in CAT_KINDS[cat]:
                    return {"problem": f"type member '{mname}' of '{tname}' not listed once under its type with the right kind",
                            "returned": hits}
        extra = [k for k in got if k[0] not in {e["name"].lower() for e in expect} | {m.lower() for m in member_names}]
        if extra:
            return {"problem": "outline contains entries that are not declared units/procedures/types/interfaces/members",
                    "unexpected": extra}
        # workspace symbols: top-level units and module members whose name contains the query, sorted by name
        tops = [e for e in expect if e["container"] is None]
        mods = {e["name"] for e in expect if e["cat"] == "module"}
        # fortls treats a PROGRAM as a module here (pinned by the repository's own test_workspace_symbols):
        # its variables and internal procedures are members too
        progs = {e["name"] for e in expect if e["cat"] == "program"}
        universe = [e["name"] for e in tops] + [e["name"] for e in expect if e["container"] in mods | progs]
        universe += ["mv" for e in expect if e["cat"] == "module"]
        for _ in progs:
            universe += ["x", "i", "arr", "do_count", "block_size", "if_flag", "where_all", "cls", "block", "critical"]
        for k, q in enumerate(queries):
            res = by_id[10 + k].get("result")
            if res is None:
                return {"problem": "workspace/symbol returned no result", "query": q}
            names = [r["name"] for r in res]
            want = sorted(n for n in universe if q.lower() in n.lower())
            if sorted(names) != want:
                return {"problem": "workspace/symbol result set differs", "query": q, "expected": want, "returned": sorted(names)}
            if names != sorted(names):
                return {"problem": "workspace/symbol result is not sorted by name", "query": q, "returned": names}
        return None
    finally:
        ws.close()


def fixed_form_program(rnd: random.Random):
    """Fixed-form source with label-terminated DO loops (shared labels, `label END DO`, labels reused across
    procedures) and names starting with construct keywords; returns (text, expect, members)."""
    L, expect = [], []

    def emit(t, label=""):
        L.append(f"{label:<5} " + t if label else "      " + t)
        return len(L)

    n_proc = rnd.randint(2, 4)
    for p in range(n_proc):
        nm = f"fx{p + 1}"
        s = emit(f"subroutine {nm}(n)")
        emit("integer n, i, j, k, x")
        emit("real block_a(10), do_b(10), where_c(10)")
        for _ in range(rnd.randint(1, 3)):
            lab = rnd.choice(["10", "20", "100"])
            c = rnd.random()
            if c < 0.35:      # nest sharing one label
                emit(f"do {lab} i = 1, n")
                emit(f"do {lab} j = 1, n")
                if rnd.random() < 0.5:
                    emit(f"do {lab} k = 1, n")
                emit("x = x + 1")
                emit("continue", lab)
            elif c < 0.6:     # labelled END DO
                emit(f"do {lab} i = 1, n")
                emit("block_a(i) = 0.0")
                emit("end do", lab)
            elif c < 0.8:     # distinct labels
                emit("do 30 i = 1, n")
                emit("do 40 j = 1, n")
                emit("do_b(j) = 1.0")
                emit("continue", "40")
                emit("where_c(i) = 2.0", "30")
            else:
                emit("do i = 1, n")
                emit("block_a(i) = 1.0")
                emit("enddo")
        e = emit(f"end subroutine {nm}")
        expect.append({"name": nm, "cat": "procedure", "container": None, "sline": s, "eline": e})
    return "\n".join(L) + "\n", expect, {}


SUBMODULES = ("module pm\n  interface\n    module subroutine q1()\n    end subroutine q1\n  end interface\nend module pm\n"
              "submodule (pm) sm_a\nend submodule sm_a\n"
              "submodule (pm:sm_a) sm_child\ncontains\n  module subroutine q1()\n  end subroutine q1\nend submodule sm_child\n"
              "submodule ( pm : sm_a ) sm_other\nend submodule sm_other\n")
SUBMODULES_EXPECT = [{"name": "pm", "cat": "module", "container": None, "sline": 1, "eline": 6},
                     {"name": "sm_a", "cat": "module", "container": None, "sline": 7, "eline": 8},
                     {"name": "sm_child", "cat": "module", "container": None, "sline": 9, "eline": 13},
                     {"name": "sm_other", "cat": "module", "container": None, "sline": 14, "eline": 15}]


def check_names_and_ranges(text, expect, fname):
    """outline only: each expected unit once, with its lines"""
    from replay.harness import Workspace, session
    ws = Workspace({fname: text})
    try:
        uri = ws.uri(fname)
        srv, out = session(ws, [{"jsonrpc": "2.0", "method": "textDocument/didOpen", "params": {"textDocument": {"uri": uri}}},
                                {"jsonrpc": "2.0", "id": 1, "method": "textDocument/documentSymbol", "params": {"textDocument": {"uri": uri}}},
                                {"jsonrpc": "2.0", "id": 2, "method": "workspace/symbol", "params": {"query": "sm_"}}])
        by_id = {m["id"]: m for m in out if "id" in m}
        syms = by_id[1].get("result") or []
        for e in expect:
            hits = [s_ for s_ in syms if s_["name"].lower() == e["name"] and s_.get("containerName") == e["container"]]
            if len(hits) != 1 or hits[0]["location"]["range"]["start"]["line"] != e["sline"] - 1 \
                    or hits[0]["location"]["range"]["end"]["line"] != e["eline"] - 1:
                return {"problem": f"unit '{e['name']}' not listed once with its lines", "expected": e,
                        "outline": [(s_["name"], s_["location"]["range"]["start"]["line"] + 1, s_["location"]["range"]["end"]["line"] + 1) for s_ in syms]}
        names = sorted(r["name"] for r in by_id[2].get("result") or [])
        want = sorted(e["name"] for e in expect if "sm_" in e["name"])
        if names != want:
            return {"problem": "workspace/symbol 'sm_' differs", "expected": want, "returned": names}
        return None
    finally:
        ws.close()


def incremental_edits(rnd: random.Random, n_edits: int = 6):
    """--incremental_sync: after every single-line edit (a statement commented out, restored, or a character typed) the
    outline equals the outline of a fresh server given the same buffer."""
    from replay.harness import Workspace, make_server, parse_out
    from fortls.jsonrpc import path_to_uri
    g = Gen(rnd)
    text, _, _ = g.generate()
    lines = text.split("\n")
    ws = Workspace({"g.f90": text})
    try:
        uri = ws.uri("g.f90")

        def start(argv):
            srv, rw = make_server(argv)
            srv.nthreads = 1
            srv.handle({"jsonrpc": "2.0", "id": 0, "method": "initialize", "params": {"rootUri": path_to_uri(ws.root), "rootPath": ws.root}})
            return srv, rw

        def outline(srv, rw):
            rw.out.clear()
            srv.handle({"jsonrpc": "2.0", "id": 5, "method": "textDocument/documentSymbol", "params": {"textDocument": {"uri": uri}}})
            res = [m for m in parse_out(rw.out) if m.get("id") == 5]
            syms = (res[0].get("result") or []) if res else None
            return None if syms is None else sorted((s_["name"], s_["kind"], s_["location"]["range"]["start"]["line"],
                                                     s_["location"]["range"]["end"]["line"], s_.get("containerName")) for s_ in syms)
        srv, rw = start(["--incremental_sync"])
        srv.handle({"jsonrpc": "2.0", "method": "textDocument/didOpen", "params": {"textDocument": {"uri": uri, "text": text}}})
        history = []
        for _ in range(n_edits):
            cand = [i for i, l in enumerate(lines) if l.strip()]
            i = rnd.choice(cand)
            if lines[i].startswith("!"):
                change = {"range": {"start": {"line": i, "character": 0}, "end": {"line": i, "character": 1}}, "text": ""}
                lines[i] = lines[i][1:]
            elif rnd.random() < 0.7:
                change = {"range": {"start": {"line": i, "character": 0}, "end": {"line": i, "character": 0}}, "text": "!"}
                lines[i] = "!" + lines[i]
            else:
                col = len(lines[i])
                change = {"range": {"start": {"line": i, "character": col}, "end": {"line": i, "character": col}}, "text": " "}
                lines[i] = lines[i] + " "
            history.append((i, change["text"] or "<delete 1>"))
            srv.handle({"jsonrpc": "2.0", "method": "textDocument/didChange",
                        "params": {"textDocument": {"uri": uri}, "contentChanges": [change]}})
            got = outline(srv, rw)
            fresh, frw = start([])
            fresh.handle({"jsonrpc": "2.0", "method": "textDocument/didOpen",
                          "params": {"textDocument": {"uri": uri, "text": "\n".join(lines)}}})
            want = outline(fresh, frw)
            if got != want:
                return {"problem": "outline after an incremental edit differs from a fresh server on the same buffer",
                        "edits (line, inserted text)": history, "line_now": lines[i], "long_lived": got, "fresh": want,
                        "program": "\n".join(lines)}
        return None
    finally:
        ws.close()


# one procedure per spelling of a construct: every one must be listed once with its own lines, so a construct that is
# opened twice or not closed shows in the procedure that contains it and in all that follow
CONSTRUCT_BODIES = [
    ["where (a > 0)", "  a = 1", "elsewhere (a < 0)", "  a = -1", "elsewhere", "  a = 0", "end where"],
    ["where (a > 0)", "  a = 1", "else where (a < 0)", "  a = -1", "end where"],
    ["WHERE(a>0)", "  a = 1", "ELSEWHERE(a<0)", "  a = -1", "ENDWHERE"],
    ["msk: where (a > 0)", "  a = 1", "elsewhere (a < 0) msk", "  a = 2", "end where msk"],
    ["where (a > 0) a = 1", "where (a > 0)", "  where (a > 1) a = 2", "end where"],
    ["if (nowhere(a) > 0) then", "  a = 1", "else if (nowhere(a) < 0) then", "  a = 2", "elseif(a(1)==0)then", "  a = 3", "else", "  a = 4", "endif"],
    ["select case (a(1))", "case (1)", "  a = 1", "case default", "  a = 0", "end select"],
    ["outer: do i = 1, 3", "  inner: do", "    if (i > 1) exit inner", "    cycle outer", "  end do inner", "end do outer"],
    ["forall (i = 1:3) a(i) = i", "forall (i = 1:3)", "  a(i) = 0", "end forall"],
    ["associate (b => a(1), c => nowhere(a))", "  a(2) = b + c", "end associate", "block", "  integer :: blk", "  blk = 1", "end block"],
    ["do 10 i = 1, 3", "do 10 j = 1, 3", "10 a(i) = j", "critical", "  a(1) = 1", "end critical"],
]


def construct_program():
    lines = ["module sm_constructs", "  implicit none", "contains",
             "  integer function nowhere(v)", "    integer :: v(3)", "    nowhere = v(1)", "  end function nowhere"]
    expect = [{"name": "nowhere", "container": "sm_constructs", "sline": 4, "eline": 7}]
    for k, body in enumerate(CONSTRUCT_BODIES):
        name = f"sm_c{k}"
        start = len(lines) + 1
        lines += [f"  subroutine {name}(a)", "    integer :: a(3), i, j"] + ["    " + b for b in body] + [f"  end subroutine {name}"]
        expect.append({"name": name, "container": "sm_constructs", "sline": start, "eline": len(lines)})
    lines.append("end module sm_constructs")
    expect.append({"name": "sm_constructs", "container": None, "sline": 1, "eline": len(lines)})
    lines += ["subroutine sm_after()", "end subroutine sm_after"]
    expect.append({"name": "sm_after", "container": None, "sline": len(lines) - 1, "eline": len(lines)})
    return "\n".join(lines) + "\n", expect


def run(tier: str, seed: int):
    n = 1
    text, expect = construct_program()
    w = check_names_and_ranges(text, expect, "constructs.f90")
    n += 1
    if w:
        w["program"] = text
        return w, n
    for k in range(12 if tier == "thorough" else 4):
        w = incremental_edits(random.Random(seed * 557 + k))
        n += 1
        if w:
            w["generator_seed"] = f"incremental {seed * 557 + k}"
            return w, n
    w = check_names_and_ranges(SUBMODULES, SUBMODULES_EXPECT, "sub.f90")
    if w:
        w["program"] = SUBMODULES
        return w, n
    for k in range(40 if tier == "thorough" else 10):
        text, expect, members = fixed_form_program(random.Random(seed * 977 + k))
        n += 1
        w = check_program(text, expect, members, fname="g.f")
        if w:
            w["program"] = text
            w["generator_seed"] = f"fixed-form {seed * 977 + k}"
            return w, n
    for k in range(120 if tier == "thorough" else 30):
        g = Gen(random.Random(seed * 1000 + k))
        text, expect, members = g.generate()
        n += 1
        w = check_program(text, expect, members)
        if w:
            w["program"] = text
            w["generator_seed"] = seed * 1000 + k
            return w, n
    return None, n
