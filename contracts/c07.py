"""C07 — diagnostics: silent on valid programs, present on each documented defect (detector layer, DESIGN 3/C07).

Each detector is a small function of index facts; its contract says "fires exactly on its fact, on that line, with
that severity" (VCs, mode F, on the real functions):
  * Scope.check_use: IMPORT outside an interface body (error, on the statement), unknown module (information, on the
    USE line), USE on a later line than IMPLICIT (error, on the IMPLICIT line; statements sharing a line are in the
    required order as far as the index can tell) — a fold over the scope's USE statements;
  * FortranFile.check_file, line-length part: a warning on line i exactly when 0 < limit < len(line i), with the limit
    for comment or code lines according to the real comment regex, range [limit, len];
  * Scope.mark_contains / FortranFile.parse_contains / parse_implicit: second CONTAINS in a scope, CONTAINS or
    IMPLICIT outside any scope (error on that line), and nothing otherwise;
  * Subroutine/Type/Module.check_valid_parent: a procedure nested in a type or block construct, a type nested in a type or in a
    construct other than BLOCK (which has a specification part of its own).
"No error on any valid program" needs Fortran validity as oracle and the detectors that depend on name resolution
(declared twice, masking, type not accessible, dummy arguments, deferred bindings) sit on C05's layer: both are
decided only by the generated-program oracle (valid programs; one seeded defect per class and position) — bounded.
"""
import ast

from pyvc import smt
from pyvc.smt import And, Or, Not, Implies, Ite, Eq, IntVal, StrVal, Len, Le, Lt, Ge, Gt, Add, Sub, Concat, At, Unit
from pyvc.types import *
from pyvc.contract import Contract, LoopSpec, Raises, FrameCall
from pyvc.results import Item
from pyvc.pyops import coerce

SCOPE = "fortls.parsers.internal.scope.Scope"
PARSER = "fortls.parsers.internal.parser.FortranFile"
DIAG = TRec("Diag", {"line": INT, "sev": INT, "kind": INT, "sch": INT, "ech": INT})
# kinds
K_IMPORT, K_NOMOD, K_USE_IMPLICIT, K_LONG, K_LONG_COMMENT, K_CONTAINS_NOSCOPE, K_CONTAINS_TWICE, K_IMPLICIT_NOSCOPE = range(1, 9)
MSG_KIND = {"IMPORT statement outside of interface": K_IMPORT, 'Module "': K_NOMOD,
            "USE statements after IMPLICIT statement": K_USE_IMPLICIT}


def diag(eng, line, sev, kind, sch=None, ech=None):
    from pyvc.pyops import _int
    d = eng.decls
    sort = sort_of(DIAG, d)
    z = IntVal(-1)
    kt = IntVal(kind) if isinstance(kind, int) else _int(eng, kind)
    return V(DIAG, d.mk(sort, _int(eng, line), _int(eng, sev), kt, _int(eng, sch) if sch is not None else z,
                        _int(eng, ech) if ech is not None else z))


def ival(n):
    return V(INT, IntVal(n))


def dsort(eng):
    return smt.SeqS(diag(eng, ival(0), ival(0), 0).t.sort)


def use_fields(eng, u):
    d = eng.decls
    return (d.fun("UseS.line_number", ["Ref"], smt.INT)(u), d.fun("UseS.mod_name", ["Ref"], smt.STR)(u),
            d.fun("UseS.is_import", ["Ref"], smt.BOOL)(u))


def sp_usefold(eng, st, uses, in_interface, known, k):
    """diagnostics of the first k USE/IMPORT statements"""
    d = eng.decls
    DS = dsort(eng)
    f = d.fun("usefold", [uses.t.sort, smt.BOOL, known.t.sort, smt.INT], DS)
    cur = f(uses.t, in_interface.t, known.t, k.t)
    if "q_" not in k.t.s:
        d.ground_axiom("usefold.base", Eq(f(uses.t, in_interface.t, known.t, IntVal(0)), smt.EmptySeq(DS)))
        u = At(uses.t, k.t)
        ln, mod, imp = use_fields(eng, u)
        line0 = V(INT, Sub(ln, IntVal(1)))
        d_imp = diag(eng, line0, ival(1), K_IMPORT).t
        d_mod = diag(eng, line0, ival(3), K_NOMOD).t
        step = Ite(imp, Ite(in_interface.t, cur, Concat(cur, Unit(d_imp))),
                   Ite(smt.Select(known.t, mod), cur, Concat(cur, Unit(d_mod))))
        d.ground_axiom("usefold.step", Implies(And(Le(IntVal(0), k.t), Lt(k.t, Len(uses.t))),
                                               Eq(f(uses.t, in_interface.t, known.t, Add(k.t, IntVal(1))), step)))
    return V(TSeq(DIAG), cur)


def sp_maxline(eng, st, uses, k):
    """max(-1, line numbers of the first k statements)"""
    d = eng.decls
    f = d.fun("use_maxline", [uses.t.sort, smt.INT], smt.INT)
    cur = f(uses.t, k.t)
    if "q_" not in k.t.s:
        d.ground_axiom("maxline.base", Eq(f(uses.t, IntVal(0)), IntVal(-1)))
        ln, _, _ = use_fields(eng, At(uses.t, k.t))
        d.ground_axiom("maxline.step", Implies(And(Le(IntVal(0), k.t), Lt(k.t, Len(uses.t))),
                                               Eq(f(uses.t, Add(k.t, IntVal(1))), smt.Max(cur, ln))))
    return V(INT, cur)


def sp_diag(eng, st, line, sev, kind, sch=None, ech=None):
    return diag(eng, line, sev, kind, sch, ech)


def sp_is_comment(eng, st, fixed, line):
    d = eng.decls
    rx = Ite(fixed.t, IntVal(1), IntVal(2))
    return V(BOOL, d.fun("comment_regex_matches", [smt.INT, smt.STR], smt.BOOL)(rx, line.t))


def sp_lenfold(eng, st, lines, fixed, mll, mcl, k):
    """line-length warnings of the first k lines"""
    d = eng.decls
    DS = dsort(eng)
    f = d.fun("lenfold", [lines.t.sort, smt.BOOL, smt.INT, smt.INT, smt.INT], DS)
    cur = f(lines.t, fixed.t, mll.t, mcl.t, k.t)
    if "q_" not in k.t.s:
        d.ground_axiom("lenfold.base", Eq(f(lines.t, fixed.t, mll.t, mcl.t, IntVal(0)), smt.EmptySeq(DS)))
        line = At(lines.t, k.t)
        n = Len(line)
        com = sp_is_comment(eng, st, fixed, V(STR, line)).t
        ln1 = V(INT, Add(k.t, IntVal(1)))
        d_code = diag(eng, ln1, ival(2), K_LONG, mll, V(INT, n)).t
        d_com = diag(eng, ln1, ival(2), K_LONG_COMMENT, mcl, V(INT, n)).t
        step = Ite(com, Ite(And(Lt(IntVal(0), mcl.t), Lt(mcl.t, n)), Concat(cur, Unit(d_com)), cur),
                   Ite(And(Lt(IntVal(0), mll.t), Lt(mll.t, n)), Concat(cur, Unit(d_code)), cur))
        d.ground_axiom("lenfold.step", Implies(And(Le(IntVal(0), k.t), Lt(k.t, Len(lines.t))),
                                               Eq(f(lines.t, fixed.t, mll.t, mcl.t, Add(k.t, IntVal(1))), step)))
    return V(TSeq(DIAG), cur)


def sp_val(eng, st, o):
    return V(INT, eng.decls.opt_val(o.t)) if isinstance(o.ty, TOpt) else o


def chain_fn(eng):
    d = eng.decls
    ob = sort_of(TOpt(BOOL), d)
    return d.fun("Obj.implicit_chain", ["Ref"], ob)


def sp_implicit_chain(eng, st, o):
    """the IMPLICIT setting in force in a scope: its own if it has one, otherwise the one in force in its host"""
    d = eng.decls
    ob, orf = sort_of(TOpt(BOOL), d), sort_of(TOpt(TRef("Obj")), d)
    p = d.opt_val(o.t) if isinstance(o.ty, TOpt) else o.t
    f = chain_fn(eng)
    if "q_" not in p.s:
        iv = d.fun("Obj.implicit_vars", ["Ref"], ob)(p)
        par = d.fun("Obj.parent", ["Ref"], orf)(p)
        d.ground_axiom("implicit_chain.def", Eq(f(p), Ite(Or(d.is_some(iv), Not(d.is_some(par))), iv, f(d.opt_val(par)))))
    return V(TOpt(BOOL), f(p))


SPEC_ENV = {"implicit_chain": sp_implicit_chain, "val": sp_val, "usefold": sp_usefold, "maxline": sp_maxline, "diag": sp_diag, "lenfold": sp_lenfold, "is_comment": sp_is_comment}
AXIOMS = {}


def build(reg):
    # ------------------------------------------------------------------ Scope.check_use
    def m_diagnostic(eng, st, node, args, kwargs):
        msg = None
        for kw in node.keywords:
            if kw.arg == "message":
                msg = kw.value
        if msg is None and len(node.args) > 1:
            msg = node.args[1]
        head = msg.value if isinstance(msg, ast.Constant) else (msg.values[0].value if isinstance(msg, ast.JoinedStr) else "")
        kind = next((k for m, k in MSG_KIND.items() if str(head).startswith(m)), 0)
        sev = kwargs.get("severity", ival(0))
        return diag(eng, args[0], sev, kind)

    def m_type(eng, st, node, args, kwargs):
        # type(use_stmnt) is Import  <=>  the statement is an IMPORT
        return V(BOOL, eng.decls.fun("UseS.is_import", ["Ref"], smt.BOOL)(args[0].t))

    INI = "(self.parent is not None and self.parent.get_type() == INTERFACE_TYPE_ID)"
    reg.add(Contract(
        f"{SCOPE}.check_use", prop="C07", receiver_cls="Scope",
        params={"obj_tree": TSet(STR)},
        fields={"self.use": TSeq(TRef("UseS")), "self.implicit_line": TOpt(INT), "self.parent": TOpt(TRef("Obj"))},
        ref_fields={("UseS", "line_number"): INT, ("UseS", "mod_name"): STR},
        ref_methods={("Obj", "get_type"): ([], INT)},
        locals_={"errors": TSeq(DIAG)}, result=TSeq(DIAG),
        ghost={"constants": {"Import": True, "INTERFACE_TYPE_ID": 5}},
        ensures=[("use_after_implicit", f"implies(self.implicit_line is not None and maxline(self.use, len(self.use)) > val(self.implicit_line), "
                                        f"result == usefold(self.use, {INI}, obj_tree, len(self.use)) + [diag(val(self.implicit_line) - 1, 1, 3)])"),
                 ("no_late_use", f"implies(not (self.implicit_line is not None and maxline(self.use, len(self.use)) > val(self.implicit_line)), "
                                 f"result == usefold(self.use, {INI}, obj_tree, len(self.use)))")],
        calls={"Diagnostic": m_diagnostic, "type": m_type},
        loops={0: LoopSpec("for use_stmnt in self.use", index="_k", invariants=[
            ("fold", f"errors == usefold(self.use, {INI}, obj_tree, _k)"),
            ("max", "last_use_line == maxline(self.use, _k)")])},
        short="Scope.check_use"))
    # ------------------------------------------------------------------ line-length warnings (FortranFile.check_file)
    def m_add_error(eng, st, node, args, kwargs):
        kind = {"msg_line": K_LONG, "msg_comment": K_LONG_COMMENT}.get(ast.unparse(node.args[0]), 0)
        rec = diag(eng, args[2], args[1], kind, args[3], args[4])
        cur = st.env["emitted"]
        st.env["emitted"] = V(TSeq(DIAG), Concat(cur.t, Unit(rec.t)))
        path = ("self", "ast", "parse_errors")
        st.heap[path] = V(TSeq(DIAG), Concat(eng.heap_get(st, path).t, Unit(rec.t)))
        return NoneV()
    m_add_error.modifies = ["self.ast.parse_errors"]
    m_add_error.modifies_names = ["emitted"]

    def m_comment_match(eng, st, node, args, kwargs):
        d = eng.decls
        rx = st.env["COMMENT_LINE_MATCH"]
        hit = d.fun("comment_regex_matches", [smt.INT, smt.STR], smt.BOOL)(rx.t, args[0].t)
        o = d.fresh("comment_match", sort_of(TOpt(INT), d))
        st.assume(Eq(d.is_some(o), hit))
        return V(TOpt(INT), o)

    reg.add(Contract(
        f"{PARSER}.check_file", prop="C07", receiver_cls="FortranFile",
        params={"obj_tree": JSON, "max_line_length": INT, "max_comment_line_length": INT, "emitted": TSeq(DIAG)},
        fields={"self.fixed": BOOL, "self.contents_split": TSeq(STR), "self.ast": TObj("FortranAST"),
                "self.ast.parse_errors": TSeq(DIAG)},
        locals_={"COMMENT_LINE_MATCH": INT},
        ghost={"constants": {"FRegex.FIXED_COMMENT": 1, "FRegex.FREE_COMMENT": 2, "Severity.warn": 2},
               "receiver_classes": {"fortls.parsers.internal.ast.FortranAST.check_file::scope": "Scope"}},
        requires=[("nothing_emitted_yet", "len(emitted) == 0")],
        ensures=[("exact", "implies(max_line_length > 0 or max_comment_line_length > 0, emitted == lenfold(self.contents_split, "
                           "self.fixed, max_line_length, max_comment_line_length, len(self.contents_split)))"),
                 ("no_limit_no_warning", "implies(max_line_length <= 0 and max_comment_line_length <= 0, len(emitted) == 0)"),
                 ("parse_result_left_as_found", "self.ast.parse_errors == old(self.ast.parse_errors)")],
        calls={"self.ast.add_error": m_add_error, "COMMENT_LINE_MATCH.match": m_comment_match},
        abstract_stmts={"errors, diags_ast = self.ast.check_file(obj_tree)": (), "diagnostics += diags_ast": (),
                        "for error in errors:\n    diagnostics.append(error.build(self))": ()},
        loops={0: LoopSpec("for (i, line) in enumerate(self.contents_split)", index="_k", invariants=[
            ("fold", "emitted == lenfold(self.contents_split, self.fixed, max_line_length, max_comment_line_length, _k)"),
            ("appended", "self.ast.parse_errors == old(self.ast.parse_errors) + emitted")])},
        short="FortranFile.check_file",
        note="the tail of check_file (aggregation of the scope checks) is abstracted: three statements that do not touch the "
             "line-length warnings"))

    # ------------------------------------------------------------------ IMPLICIT setting in force (host association)
    def m_parent_implicit(eng, st, node, args, kwargs):
        recv = eng.eval(node.func.value, st, False)
        return sp_implicit_chain(eng, st, recv)

    reg.add(Contract(
        "fortls.parsers.internal.base.FortranObj.get_implicit", prop="C07", receiver_cls="FortranObj", params={},
        fields={"self.parent": TOpt(TRef("Obj")), "self.implicit_vars": TOpt(BOOL)},
        ref_fields={("Obj", "implicit_vars"): TOpt(BOOL), ("Obj", "parent"): TOpt(TRef("Obj"))},
        result=TOpt(BOOL),
        ensures=[("own_statement_wins", "implies(self.implicit_vars is not None, result == self.implicit_vars)"),
                 ("top_level", "implies(self.parent is None, result == self.implicit_vars)"),
                 ("inherited_from_the_whole_host_chain",
                  "implies(self.implicit_vars is None and self.parent is not None, result == implicit_chain(self.parent))")],
        calls={"self.parent.get_implicit": m_parent_implicit},
        short="FortranObj.get_implicit",
        note="the recursive call is used through its own contract: its result is implicit_chain(parent), defined by the "
             "ground axiom chain(p) = p.implicit_vars if it is set or p has no host, else chain(p.parent)"))

    # ------------------------------------------------------------------ CONTAINS / IMPLICIT placement
    reg.add(Contract(
        f"{SCOPE}.mark_contains", prop="C07", receiver_cls="Scope", params={"line_number": INT},
        fields={"self.contains_start": TOpt(INT)},
        raises=[Raises("ValueError", when="self.contains_start is not None")],
        ensures=[("first_contains_recorded", "self.contains_start == line_number"),
                 ("returns_only_for_the_first", "old(self.contains_start) is None")],
        short="Scope.mark_contains"))

    # ------------------------------------------------------------------ nesting
    for cls, mod, expr in (("Subroutine", "subroutine", "self.parent is None or not (self.parent.get_type() == CLASS_TYPE_ID or "
                                                        "self.parent.get_type() >= BLOCK_TYPE_ID)"),
                           ("Type", "type", "self.parent is not None and self.parent.get_type() != CLASS_TYPE_ID and "
                                            "self.parent.get_type() <= BLOCK_TYPE_ID"),
                           ("Module", "module", "self.parent is None")):
        reg.add(Contract(
            f"fortls.parsers.internal.{mod}.{cls}.check_valid_parent", prop="C07", receiver_cls=cls, params={},
            fields={"self.parent": TOpt(TRef("Obj"))}, ref_methods={("Obj", "get_type"): ([], INT)}, result=BOOL,
            ghost={"constants": {"CLASS_TYPE_ID": 4, "BLOCK_TYPE_ID": 9}},
            ensures=[("valid_parent", f"result == ({expr})")],
            short=f"{cls}.check_valid_parent"))
    return reg


TARGETS = ["fortls.parsers.internal.base.FortranObj.get_implicit", f"{SCOPE}.check_use", f"{PARSER}.check_file", f"{SCOPE}.mark_contains",
           "fortls.parsers.internal.subroutine.Subroutine.check_valid_parent", "fortls.parsers.internal.type.Type.check_valid_parent",
           "fortls.parsers.internal.module.Module.check_valid_parent"]


def scope_local_items(repo):
    """A scope's diagnostics are a function of that scope and the index only: the accessibility verdicts that
    Variable.check_definition caches in `known_types` depend on the scope, so the cache must start empty in every
    check_definitions call and must not be handed from one scope to the next."""
    items = []
    fi = repo.func(f"{SCOPE}.check_definitions")
    args = [a.arg for a in fi.node.args.args] + [a.arg for a in fi.node.args.kwonlyargs]
    fresh = any(isinstance(n, (ast.Assign, ast.AnnAssign)) and ast.unparse(n.targets[0] if isinstance(n, ast.Assign) else n.target) == "known_types"
                and ast.unparse(n.value) == "{}" for n in fi.node.body)
    stores = [n for n in ast.walk(fi.node) if isinstance(n, ast.Attribute) and isinstance(n.ctx, ast.Store) and "known_types" in ast.unparse(n)]
    ok = args == ["self", "obj_tree"] and fresh and not stores
    items.append(Item("C07/Scope.check_definitions/frame.verdict_cache_is_per_scope", "proved" if ok else "refuted", "structural", 0.0,
                      where=fi.where(), mode="table", func=fi.qualname,
                      detail="check_definitions(self, obj_tree) starts from an empty known_types and keeps it local",
                      witness=None if ok else {"parameters": args, "starts_empty": fresh}))
    fa = repo.func("fortls.parsers.internal.ast.FortranAST.check_file")
    calls = [ast.unparse(n) for n in ast.walk(fa.node) if isinstance(n, ast.Call) and ast.unparse(n.func).endswith(".check_definitions")]
    ok = calls == ["scope.check_definitions(obj_tree)"]
    items.append(Item("C07/FortranAST.check_file/frame.scopes_checked_independently", "proved" if ok else "refuted", "structural", 0.0,
                      where=fa.where(), mode="table", func=fa.qualname,
                      detail="every scope is checked by check_definitions(obj_tree) alone: nothing computed for one scope is passed to another",
                      witness=None if ok else {"calls": calls}))
    return items


def extra(repo, reg, tier, seed):
    from contracts import c07_gen
    items = scope_local_items(repo)
    w, nv, nd, per = c07_gen.run(tier, seed)
    it = Item("C07/session/generated_defect_oracle", "refuted" if w else "bounded-ok", "native-run(bounded)", 0.0, mode="bounded",
              witness=w, confirmed=True if w else None, func=f"{SCOPE}.check_definitions",
              detail=f"bounded: {nv} generated valid three-file programs (no error-severity diagnostic) and {nd} seeded defects over "
                     f"{len(per)} classes at random applicable positions (a diagnostic of the class and severity on the offending "
                     f"line, no unrelated error): {per}")
    it.count = nv + nd
    items.append(it)
    return items


def replay(obligation, model, rep):
    return {"confirmed": None}


def check_use_small_scope():
    """The real Scope.check_use on every list of up to 3 statements (USE of a known module, USE of an unknown one,
    IMPORT) in source order, with and without an IMPLICIT line before/after them, in and outside an interface."""
    import itertools
    from fortls.parsers.internal.scope import Scope
    from fortls.parsers.internal.use import Use
    from fortls.parsers.internal.imports import Import, ImportTypes
    from fortls.constants import INTERFACE_TYPE_ID, MODULE_TYPE_ID

    class P:
        def __init__(self, t):
            self.t = t

        def get_type(self, no_link=False):
            return self.t
    tree = {"known": [None, None]}
    for n in range(4):
        for kinds in itertools.product("kui", repeat=n):
            for parent in (None, P(INTERFACE_TYPE_ID), P(MODULE_TYPE_ID)):
                for implicit in (None, 1, 3, 4, 9):
                    sc = Scope.__new__(Scope)
                    sc.use, sc.parent, sc.implicit_line = [], parent, implicit
                    want = []
                    in_int = parent is not None and parent.t == INTERFACE_TYPE_ID
                    for j, k in enumerate(kinds):
                        ln = 2 + j
                        if k == "i":
                            u = Import("#import", ImportTypes.ALL)
                            if not in_int:
                                want.append((ln - 1, 1, "IMPORT statement outside of interface"))
                        else:
                            u = Use("known" if k == "k" else "nowhere")
                            if k == "u":
                                want.append((ln - 1, 3, 'Module "nowhere" not found in project'))
                        u.line_number = ln
                        sc.use.append(u)
                    if implicit is not None and kinds and 1 + len(kinds) > implicit:   # a USE on a later line than the IMPLICIT statement
                        want.append((implicit - 1, 1, "USE statements after IMPLICIT statement"))
                    got = [(d.sline, d.severity, d.message) for d in sc.check_use(tree)]
                    if got != want:
                        return {"function": "Scope.check_use", "statements": list(kinds), "first_line": 2, "implicit_line": implicit,
                                "parent": None if parent is None else ("interface" if in_int else "module"),
                                "expected": want, "returned": got}
    return None


def line_length_small_scope():
    """The real FortranFile.check_file on code and comment lines around every limit (free and fixed form)."""
    from fortls.parsers.internal.parser import FortranFile
    from fortls.regex_patterns import FortranRegularExpressions as FRegex

    from fortls.parsers.internal.ast import FortranAST

    class Ast(FortranAST):
        def __init__(self):
            self.got, self.parse_errors, self.file = [], [{"found": "by the parser"}], None

        def add_error(self, msg, sev, ln, sch, ech=None):
            self.got.append((ln, sev, sch, ech, "Comment" if msg.startswith("Comment") else "Line"))
            super().add_error(msg, sev, ln, sch, ech)

        def check_file(self, obj_tree):
            return [], self.parse_errors
    lines = ["x = 1234567", "! comment 12", "", "      y = 2", "c fixed comm", "  call s()  ! trailing"]
    for fixed in (False, True):
        for mll in (-1, 0, 5, 10, 11, 12, 22, 23, 40):
            for mcl in (-1, 0, 5, 11, 12, 13):
                f = FortranFile.__new__(FortranFile)
                f.fixed, f.contents_split, f.ast = fixed, list(lines), Ast()
                first = f.check_file({}, max_line_length=mll, max_comment_line_length=mcl)
                n_first = list(f.ast.got)
                second = f.check_file({}, max_line_length=mll, max_comment_line_length=mcl)
                f.ast.got = f.ast.got[len(n_first):]
                if first != second or f.ast.parse_errors != [{"found": "by the parser"}] or f.ast.got != n_first:
                    return {"function": "FortranFile.check_file", "fixed_form": fixed, "max_line_length": mll,
                            "max_comment_line_length": mcl, "lines": lines, "first_call": first, "second_call": second,
                            "parse_errors_after": f.ast.parse_errors,
                            "reason": "checking an unchanged file twice does not give the same diagnostics"}
                rx = FRegex.FIXED_COMMENT if fixed else FRegex.FREE_COMMENT
                want = []
                for i, ln in enumerate(lines):
                    com = rx.match(ln) is not None
                    lim = mcl if com else mll
                    if 0 < lim < len(ln):
                        want.append((i + 1, 2, lim, len(ln), "Comment" if com else "Line"))
                if f.ast.got != want:
                    return {"function": "FortranFile.check_file", "fixed_form": fixed, "max_line_length": mll,
                            "max_comment_line_length": mcl, "lines": lines, "expected_warnings": want, "emitted": f.ast.got}
    return None


def valid_parent_small_scope():
    from fortls.parsers.internal.subroutine import Subroutine
    from fortls.parsers.internal.type import Type
    from fortls.parsers.internal.module import Module
    from fortls.constants import CLASS_TYPE_ID, BLOCK_TYPE_ID

    class P:
        def __init__(self, t):
            self.t = t

        def get_type(self, no_link=False):
            return self.t
    for t in [None] + list(range(-1, 17)):
        parent = None if t is None else P(t)
        for cls in (Subroutine, Type, Module):
            o = cls.__new__(cls)
            o.parent = parent
            got = o.check_valid_parent()
            if cls is Subroutine:
                want = t is None or not (t == CLASS_TYPE_ID or t >= BLOCK_TYPE_ID)
            elif cls is Type:
                want = t is not None and t != CLASS_TYPE_ID and t <= BLOCK_TYPE_ID   # a BLOCK construct has a specification part
            else:
                want = t is None
            if bool(got) != want:
                return {"function": f"{cls.__name__}.check_valid_parent", "parent_type_id": t, "expected": want, "returned": got}
    return None


def implicit_small_scope():
    """every IMPLICIT setting (none / IMPLICIT NONE / IMPLICIT <spec>) on host chains up to four deep, real objects"""
    import itertools
    from fortls.parsers.internal.base import FortranObj
    for depth in (1, 2, 3, 4):
        for settings in itertools.product((None, False, True), repeat=depth):
            chain = []
            for k, v in enumerate(settings):   # settings[0] is the outermost host
                o = FortranObj()
                o.parent = chain[-1] if chain else None
                o.implicit_vars = v
                chain.append(o)
            want = None
            for v in reversed(settings):
                if v is not None:
                    want = v
                    break
            got = chain[-1].get_implicit()
            if got is not want:
                return {"function": "FortranObj.get_implicit", "implicit_vars_outermost_first": list(settings),
                        "expected": want, "returned": got}
    return None


def search(func, tier, seed, obligation=""):
    if func.endswith("get_implicit"):
        return implicit_small_scope()
    if func.endswith("Scope.check_use"):
        return check_use_small_scope()
    if func.endswith("FortranFile.check_file"):
        return line_length_small_scope()
    if func.endswith("check_valid_parent"):
        return valid_parent_small_scope()
    from contracts import c07_gen
    return c07_gen.run(tier, seed)[0]


TRUSTED = ["in FortranAST.check_file the loop variable `scope` ranges over Scope objects (frame analysis of check_file: the "
           "name-based call resolution would otherwise take scope.get_diagnostics() for LangServer.get_diagnostics)",
           "USE statements are immutable references in the VCs (line_number, mod_name, is-IMPORT are uninterpreted functions)",
           "the real comment regexes are an uninterpreted predicate of (form, line)"]
ASSUMPTIONS = ["`type(x) is Import` is modelled as the statement's is-IMPORT attribute"]
RESIDUAL = ("silence on every valid program and the resolution-dependent detectors (declared twice, masking, type not accessible, "
            "dummy arguments, deferred bindings) are decided only on generated programs (bounded)")
