"""C06 — references and rename cover exactly the occurrences of the entity.

Decided here (see DESIGN 3/C06): the *text* layer of get_all_references / serve_references / serve_rename:
  * the name regex is built from the real source: it is escape-safe for every identifier (names containing `$`)
    and finds exactly the whole-word occurrences (lemma, exhaustive small scope with the real `re`);
  * the reported range is group 1 of the match on the comment-stripped line, which is a prefix of the real
    line (strip_comment contract), so every range spans exactly the identifier in the client's coordinates;
  * range_json / uri_json / change_json keep the four coordinates (the falsy-zero idiom is an obligation);
  * serve_references / serve_rename emit exactly one location / edit per reference (structure).
"Bound to the same entity" is get_definition's business (C05) and is only covered by the native stand-in.
"""
import ast
import itertools
import re

from pyvc import smt
from pyvc.smt import And, Or, Not, Implies, Ite, Eq, IntVal, StrVal, Len
from pyvc.types import *
from pyvc.contract import Contract, LoopSpec, Raises, FrameCall
from pyvc.results import Item

LS = "fortls.langserver.LangServer"
PARSER = "fortls.parsers.internal.parser"
JT = "fortls.json_templates"


def sp_startswith(eng, st, s, p):
    return V(BOOL, smt.PrefixOf(p.t, s.t))


def m_regex_match(name):
    def model(eng, st, node, args, kwargs):
        # FRegex.X.match(line): a match object or None; only whether it matched matters here
        d = eng.decls
        hit = d.fun("re_" + name, [smt.STR], smt.BOOL)(args[0].t)
        return V(TOpt(BOOL), Ite(hit, d.some(smt.TRUE), d.none(smt.BOOL)))
    return model


SPEC_ENV = {"startswith": sp_startswith}
AXIOMS = {}

RANGE_REQ = [("end_line_zero", "implies(eln is not None and eln == 0, sln == 0)"),
             ("end_char_zero", "implies(ech is not None and ech == 0, sch == 0)")]
RANGE_ENS = [("start", "result['range']['start']['line'] == sln and result['range']['start']['character'] == sch"),
             ("end_line", "result['range']['end']['line'] == (sln if eln is None else eln)"),
             ("end_char", "result['range']['end']['character'] == (sch if ech is None else ech)")]


def build(reg):
    opt = {"sln": INT, "sch": INT, "eln": TOpt(INT), "ech": TOpt(INT)}
    reg.add(Contract(f"{JT}.range_json", prop="C06", params=opt, requires=RANGE_REQ, ensures=RANGE_ENS,
                     short="range_json"))
    reg.add(Contract(f"{JT}.uri_json", prop="C06", params={"uri": STR, **opt}, requires=RANGE_REQ,
                     ensures=RANGE_ENS + [("uri", "result['uri'] == uri")],
                     calls={"range_json": f"inline:{JT}.range_json"}, short="uri_json"))
    reg.add(Contract(f"{JT}.change_json", prop="C06", params={"new_text": STR, **opt}, requires=RANGE_REQ,
                     ensures=RANGE_ENS + [("text", "result['newText'] == new_text")],
                     calls={"range_json": f"inline:{JT}.range_json"}, short="change_json"))
    reg.add(Contract(
        f"{PARSER}.FortranFile.strip_comment", prop="C06", receiver_cls="FortranFile", params={"line": STR},
        fields={"self.fixed": BOOL}, result=STR,
        ensures=[("prefix", "startswith(old(line), result)"),
                 ("cut_at_first_comment_mark", "result == old(line) or result == '' or "
                                               "first_bang(old(line), (5 if self.fixed else -1), len(result) + 1) == len(result)")],
        calls={"FRegex.FIXED_COMMENT.match": m_regex_match("FIXED_COMMENT"),
               "FRegex.FIXED_OPENMP.match": m_regex_match("FIXED_OPENMP"),
               "FRegex.FREE_OPENMP.match": m_regex_match("FREE_OPENMP"),
               "find_comment_start": f"{PARSER}.find_comment_start"},
        short="FortranFile.strip_comment"))
    reg.add(Contract(
        f"{PARSER}.find_comment_start", prop="C06", params={"line": STR, "skip_column": INT}, result=INT,
        locals_={"quote": STR},
        ensures=[("a_comment_mark_or_none", "result == -1 or (0 <= result and result < len(line) and line[result] == '!' "
                                            "and result != skip_column)"),
                 ("none_outside_literals", "implies(result == -1, first_bang(line, skip_column, len(line)) == -1)"),
                 ("the_first_outside_literals", "implies(result >= 0, first_bang(line, skip_column, result + 1) == result)")],
        loops={0: LoopSpec("for (i, char) in enumerate(line)", index="_k", invariants=[
            ("state", "quote == quote_state(line, _k)"), ("none_so_far", "first_bang(line, skip_column, _k) == -1")])},
        short="find_comment_start"))
    return reg


def sp_qs(eng, st, line, k):
    """quote state before character k: "" outside a character literal, else the quote character that opened it"""
    d = eng.decls
    f = d.fun("quote_state", [smt.STR, smt.INT], smt.STR)
    cur = f(line.t, k.t)
    if "q_" not in k.t.s:
        from pyvc.smt import Or as _Or, Le as _Le, Lt as _Lt, Add as _Add, IntVal as _I
        ch = smt.At(line.t, k.t)
        d.ground_axiom("qs.base", Eq(f(line.t, _I(0)), StrVal("")))
        nxt = Ite(Not(Eq(cur, StrVal(""))), Ite(Eq(ch, cur), StrVal(""), cur),
                  Ite(_Or(Eq(ch, StrVal("'")), Eq(ch, StrVal('"'))), ch, StrVal("")))
        d.ground_axiom("qs.step", Implies(And(_Le(_I(0), k.t), _Lt(k.t, Len(line.t))), Eq(f(line.t, _Add(k.t, _I(1))), nxt)))
    return V(STR, cur)


def sp_fb(eng, st, line, skip, k):
    """index of the first '!' outside character literals (and not in column `skip`) among the first k characters, else -1"""
    d = eng.decls
    from pyvc.smt import Le as _Le, Lt as _Lt, Add as _Add, IntVal as _I, Ge as _Ge
    f = d.fun("first_bang", [smt.STR, smt.INT, smt.INT], smt.INT)
    cur = f(line.t, skip.t, k.t)
    if "q_" not in k.t.s:
        qs = sp_qs(eng, st, line, k).t
        ch = smt.At(line.t, k.t)
        d.ground_axiom("fb.base", Eq(f(line.t, skip.t, _I(0)), _I(-1)))
        here = And(Eq(qs, StrVal("")), Eq(ch, StrVal("!")), Not(Eq(k.t, skip.t)))
        d.ground_axiom("fb.step", Implies(And(_Le(_I(0), k.t), _Lt(k.t, Len(line.t))),
                                          Eq(f(line.t, skip.t, _Add(k.t, _I(1))), Ite(_Ge(cur, _I(0)), cur, Ite(here, k.t, _I(-1))))))
    return V(INT, cur)


SPEC_ENV["quote_state"] = sp_qs
SPEC_ENV["first_bang"] = sp_fb


def sp_re(name):
    def f(eng, st, s):
        return V(BOOL, eng.decls.fun("re_" + name, [smt.STR], smt.BOOL)(s.t))
    return f


SPEC_ENV["re_FREE_OPENMP"] = sp_re("FREE_OPENMP")

TARGETS = [f"{JT}.range_json", f"{JT}.uri_json", f"{JT}.change_json", f"{PARSER}.FortranFile.strip_comment",
           f"{PARSER}.find_comment_start"]


# ------------------------------------------------------------------ the name regex, from the real source
def name_regex_builder(repo):
    """Return (function building the compiled regex for a name, source text) by evaluating the `re.compile`
    expression found in get_all_references with def_name bound."""
    fi = repo.func(f"{LS}.get_all_references")
    for n in ast.walk(fi.node):
        if isinstance(n, ast.Assign) and any(isinstance(t, ast.Name) and t.id == "NAME_REGEX" for t in n.targets):
            expr = ast.Expression(body=n.value)
            ast.fix_missing_locations(expr)
            code = compile(expr, "<NAME_REGEX from get_all_references>", "eval")

            def build_rx(def_name, code=code):
                return eval(code, {"re": re, "def_name": def_name})  # expression text comes from /repo's source
            return build_rx, ast.unparse(n.value), fi
    return None, None, fi


def whole_word_occurrences(line: str, name: str, kinds: bool = True):
    """Starts of the case-insensitive candidate occurrences of name (identifier characters: word chars and $): whole
    words, except the exponent of a real literal written `1.n`; plus the kind parameter of a literal (`1_n`, `1._n`).
    Candidates are confirmed one by one through get_definition, so the second class may over-approximate (`x1_n`)."""
    out = []
    low, nm = line.lower(), name.lower()
    i = low.find(nm)
    ident = lambda c: c.isalnum() or c in "_$"  # noqa: E731
    while i >= 0:
        before = low[i - 1] if i > 0 else " "
        before2 = low[i - 2] if i > 1 else " "
        after = low[i + len(nm)] if i + len(nm) < len(low) else " "
        word = not ident(before) and not (before == "." and before2.isdigit())
        kind = kinds and before == "_" and (before2.isdigit() or before2 == ".")
        if not ident(after) and (word or kind):
            out.append(i)
        i = low.find(nm, i + 1)
    return out


def regex_items(repo, tier):
    items = []
    build_rx, src, fi = name_regex_builder(repo)
    if build_rx is None:
        return [Item("C06/get_all_references/regex.binding", "unknown", "front-end", 0.0, func=fi.qualname,
                     detail="no `NAME_REGEX = re.compile(...)` assignment found in get_all_references")]
    # escape safety: for identifiers (incl. `$`), group 1 matches the identifier literally and nothing else
    names = ["n", "a$b", "x_1", "val$", "i", "a.b"[:1] + "9", "N"]
    bad = None
    for nm in names:
        try:
            rx = build_rx(nm.lower())
        except re.error as e:
            bad = {"name": nm, "problem": f"re.error: {e}"}
            break
        m = rx.search(f"  {nm} = 1")
        if m is None or m.group(1).lower() != nm.lower() or m.start(1) != 2 or m.end(1) != 2 + len(nm):
            bad = {"name": nm, "line": f"  {nm} = 1", "match": None if m is None else [m.start(1), m.end(1)],
                   "problem": "the identifier is not found as itself"}
            break
    items.append(Item("C06/get_all_references/regex.escape_safe", "refuted" if bad else "bounded-ok",
                      "finite-enumeration(CPython)", 0.0, where=fi.where(), mode="bounded", func=fi.qualname,
                      detail=f"bounded: {len(names)} identifiers incl. ones with `$`; regex source: {src}",
                      witness=bad, confirmed=True if bad else None))
    # occurrence lemma
    alphabet = ["n", "x", "_", "$", "=", "+", "(", " ", "'", "!", "N", "1", "."]
    bound = 6 if tier == "thorough" else 5
    bad = None
    cnt = 0
    if not any(i.verdict == "refuted" for i in items):
        rx = build_rx("n")
        for ln in range(1, bound + 1):
            for tup in itertools.product(alphabet, repeat=ln):
                line = "".join(tup)
                cnt += 1
                got = [m.start(1) for m in rx.finditer(line)]
                want = whole_word_occurrences(line, "n")
                if got != want:
                    bad = {"line": line, "name": "n", "regex_finds": got, "whole_word_occurrences": want}
                    break
            if bad:
                break
        for line, nm in (("i=i+1", "i"), ("a$b=a$b*a$b", "a$b"), ("call f(x,x)", "x"), ("xx=x", "x")):
            rxx = build_rx(nm)
            got = [m.start(1) for m in rxx.finditer(line)]
            if bad is None and got != whole_word_occurrences(line, nm):
                bad = {"line": line, "name": nm, "regex_finds": got, "whole_word_occurrences": whole_word_occurrences(line, nm)}
    items.append(Item("C06/NAME_REGEX/lemma.occurrences", "refuted" if bad else "bounded-ok",
                      "finite-enumeration(CPython)", 0.0, where=fi.where(), mode="bounded", func=fi.qualname,
                      detail=f"bounded: all {cnt} lines over {len(alphabet)} characters up to length {bound}: "
                             "finditer starts == whole-word occurrences", witness=bad, confirmed=True if bad else None))
    return items


def expand_name_items(repo, tier):
    """get_all_references re-resolves each hit at column start+1; expand_name must return the identifier there
    (lemma, exhaustive small scope with the real function)."""
    from fortls.helper_functions import expand_name
    fi = repo.func("fortls.helper_functions.expand_name")
    alphabet = ["n", "1", "+", "-", " ", "=", "(", "e", "_", "."]
    bound = 5 if tier == "thorough" else 4
    bad = None
    cnt = 0
    for ln in range(1, bound + 1):
        for tup in itertools.product(alphabet, repeat=ln):
            line = "".join(tup)
            for s_ in whole_word_occurrences(line, "n", kinds=False):
                cnt += 1
                got = expand_name(line, s_ + 1)
                if got.lower() != "n":
                    bad = {"line": line, "probe_column": s_ + 1, "expand_name": got, "expected": "n"}
                    break
            # a kind-parameter candidate: the name if what precedes the underscore is a numeric literal standing alone,
            # otherwise anything but a false confirmation of the name inside a longer identifier
            for s_ in set(whole_word_occurrences(line, "n")) - set(whole_word_occurrences(line, "n", kinds=False)):
                cnt += 1
                got = expand_name(line, s_ + 1)
                head = line[:s_ - 1]
                j = len(head)
                while j > 0 and (head[j - 1].isalnum() or head[j - 1] in "._$"):
                    j -= 1
                tok = head[j:]
                is_literal = re.fullmatch(r"(?:\d+\.?\d*|\.\d+)(?:[ed][+-]?\d+)?", tok, re.I) is not None
                if is_literal and got.lower() != "n":
                    bad = {"line": line, "probe_column": s_ + 1, "expand_name": got, "expected": "n (kind parameter of the literal %r)" % tok}
                    break
            if bad:
                break
        if bad:
            break
    return [Item("C06/expand_name/lemma.identifier_at_hit", "refuted" if bad else "bounded-ok",
                 "finite-enumeration(CPython)", 0.0, where=fi.where(), mode="bounded", func=fi.qualname,
                 detail=f"bounded: {cnt} whole-word hits of a one-letter name in all lines over {len(alphabet)} characters "
                        f"up to length {bound}: expand_name(line, start+1) is the name", witness=bad,
                 confirmed=True if bad else None)]


def structure_items(repo):
    """Shape of the loop in get_all_references and of the two emitters."""
    items = []
    fi = repo.func(f"{LS}.get_all_references")
    src = ast.unparse(fi.node)
    from pyvc import shape
    sfi = shape.of(repo, f"{LS}.get_all_references")
    line_loop = next((n for n in ast.walk(sfi) if isinstance(n, ast.For) and ast.unparse(n.iter) == "enumerate(file_obj.contents_split)"), None)
    checks = {
        "ensures.width": shape.has(sfi, "file_refs.append([i, match.start(1), match.end(1)])"),
        # the line index handed to get_definition is the index of the line the match was found on
        "ensures.same_line": line_loop is not None and isinstance(line_loop.target, ast.Tuple) and len(line_loop.target.elts) == 2
                             and shape.has(line_loop, f"self.get_definition(file_obj, {ast.unparse(line_loop.target.elts[0])}, match.start(1) + 1)",
                                           fixed=(ast.unparse(line_loop.target.elts[0]),)),
        "ensures.no_comment": shape.has(sfi, "line = file_obj.strip_comment(line)")
                              and any(isinstance(n, ast.For) and ast.unparse(n.iter) == "NAME_REGEX.finditer(line)" for n in ast.walk(sfi))
                              and shape.before(sfi, "file_obj.strip_comment(line)", "NAME_REGEX.finditer(line)"),
        "ensures.skip_pp_lines": any(isinstance(n, ast.If) and ast.unparse(n.test) == "line == '' or line[0] == '#'"
                                     and isinstance(n.body[0], ast.Continue) for n in ast.walk(fi.node)),
        # the scan is repeated unless it met no new linked object (whatever kind of entity the request is on)
        "ensures.rescan_when_links_found": shape.has(sfi, "n_linked = len(override_cache)")
                                           and shape.has(sfi, "if len(override_cache) == n_linked:\n    break"),
    }
    for k, ok in checks.items():
        items.append(Item(f"C06/get_all_references/{k}", "proved" if ok else "refuted", "structural", 0.0,
                          where=fi.where(), mode="table", func=fi.qualname,
                          detail={"ensures.width": "each reference is [line index, start(1), end(1)] of the name group",
                                  "ensures.same_line": "hits are re-resolved at the hit's own line and column",
                                  "ensures.no_comment": "the regex runs on the comment-stripped line",
                                  "ensures.skip_pp_lines": "empty and preprocessor lines contribute nothing",
                                  "ensures.rescan_when_links_found": "the workspace scan ends only after a pass that added no linked "
                                                                     "object (uses scanned before the link was met are found by the next pass)"}[k],
                          witness=None if ok else {"clause": k}))
    fr = repo.func(f"{LS}.serve_references")
    ok = "uri_json(path_to_uri(filename), ref[0], ref[1], ref[0], ref[2])" in ast.unparse(fr.node)
    items.append(Item("C06/serve_references/ensures.image_of_refs", "proved" if ok else "refuted", "structural", 0.0,
                      where=fr.where(), mode="table", func=fr.qualname,
                      detail="one location per reference: (line, start) - (line, end)", witness=None if ok else {}))
    fn = repo.func(f"{LS}.serve_rename")
    ok = "change_json(new_name, ref[0], ref[1], ref[0], ref[2])" in ast.unparse(fn.node)
    items.append(Item("C06/serve_rename/ensures.edits_are_refs", "proved" if ok else "refuted", "structural", 0.0,
                      where=fn.where(), mode="table", func=fn.qualname,
                      detail="one text edit per reference on exactly its range", witness=None if ok else {}))
    return items


# ------------------------------------------------------------------ native stand-in
PROGRAMS = {
    "ops": ("program p\n  integer :: i, a$b, total\n  i=i+1\n  a$b = a$b*a$b + i  ! i in a comment\n"
            "  total = i + total*i\n  print *, 'i in a string', i\nend program p\n",
            {"i": [(1, 13), (2, 2), (2, 4), (3, 18), (4, 10), (4, 20), (5, 28)],
             "a$b": [(1, 16), (3, 2), (3, 8), (3, 12)],
             "total": [(1, 21), (4, 2), (4, 14)]}),
    "shadow": ("module m\n  integer :: v\ncontains\n  subroutine s()\n    integer :: v\n    v = 1\n  end subroutine s\n"
               "  subroutine t()\n    v = 2\n  end subroutine t\nend module m\n",
               {"v@1": [(1, 13), (8, 4)], "v@4": [(4, 15), (5, 4)]}),
}


def _occ(text, name, lines):
    import re
    out = []
    for ln, line in enumerate(text.split("\n")):
        if ln in lines:
            out += [(ln, m.start()) for m in re.finditer(rf"(?<![\w$]){re.escape(name)}(?![\w$])", line.split("!")[0])]
    return out


# a function without RESULT clause: its name on the FUNCTION and END FUNCTION statements and at the call sites is the
# function, inside the body it is the result variable
_FN = ("module shapes\n  implicit none\ncontains\n  real function area(w, h)\n    real :: w, h\n    area = w * h\n"
       "    if (area < 0) area = -area\n  end function area\n  function twice(n)\n    integer :: n, twice\n    twice = 2 * n\n"
       "  END FUNCTION twice\n  subroutine use_it()\n    real :: x\n    x = area(1.0, 2.0) + area(2.0, 3.0) + twice(1)\n"
       "  end subroutine use_it\nend module shapes\n")
PROGRAMS["function_result"] = (_FN, {"area@fn": _occ(_FN, "area", {3, 7, 14}), "area@res": _occ(_FN, "area", {5, 6}),
                                     "twice@fn": _occ(_FN, "twice", {8, 11, 14}), "twice@res": _occ(_FN, "twice", {9, 10})})


# names that end like a logical literal without its dots (ntrue, isfalse) next to real .true. / .false. literals
_LG = ("module lg\n  integer :: ntrue\n  logical :: isfalse\ncontains\n  function foo(x)\n    integer :: x, foo\n    ntrue = ntrue + 1\n"
       "    ntrue=ntrue+1\n    foo = x + ntrue\n    isfalse = .true.\n    isfalse=.false..or.isfalse\n    if (isfalse) ntrue=0\n"
       "  end function foo\nend module lg\n")
PROGRAMS["logical_like_names"] = (_LG, {"ntrue": _occ(_LG, "ntrue", set(range(14))), "isfalse": _occ(_LG, "isfalse", set(range(14)))})


# names that also occur as the tail of a numeric literal (1d0, 2e5, 0.5e1_dp) or glued to a kind suffix
_NUM = ("program numlit\n  integer, parameter :: dp = 8\n  real(dp) :: d0, e5\n  d0 = 1d0 + d0\n  e5 = 2e5*e5 - 1.d0 + 3.0e5\n"
        "  d0 = 0.5e1_dp + real(e5, dp)\n  print *, d0, 1.0_dp, e5\nend program numlit\n")
PROGRAMS["names_like_literal_tails"] = (_NUM, {
    "d0": [(2, 14), (3, 2), (3, 13), (5, 2), (6, 11)],
    "e5": [(2, 18), (4, 2), (4, 11), (5, 23), (6, 23)]})


def native_references():
    from replay.harness import Workspace, session
    for pname, (text, expect) in PROGRAMS.items():
        ws = Workspace({"a.f90": text})
        try:
            uri = ws.uri("a.f90")
            msgs = [{"jsonrpc": "2.0", "method": "textDocument/didOpen", "params": {"textDocument": {"uri": uri}}}]
            plan = []
            rid = 1
            for key, occ in expect.items():
                for (ln, ch) in occ:
                    for meth in ("references", "rename"):
                        params = {"textDocument": {"uri": uri}, "position": {"line": ln, "character": ch}}
                        if meth == "references":
                            params["context"] = {"includeDeclaration": True}
                        else:
                            params["newName"] = "renamed_zz"
                        msgs.append({"jsonrpc": "2.0", "id": rid, "method": "textDocument/" + meth, "params": params})
                        plan.append((rid, key, (ln, ch), meth))
                        rid += 1
            srv, out = session(ws, msgs)
            by_id = {m["id"]: m for m in out if "id" in m}
            for rid, key, pos, meth in plan:
                r = by_id.get(rid, {})
                name = key.split("@")[0]
                want = sorted((ln, ch, ch + len(name)) for ln, ch in expect[key])
                if meth == "references":
                    got = sorted((x["range"]["start"]["line"], x["range"]["start"]["character"], x["range"]["end"]["character"])
                                 for x in (r.get("result") or []))
                else:
                    ch = (r.get("result") or {}).get("changes", {})
                    got = sorted((e["range"]["start"]["line"], e["range"]["start"]["character"], e["range"]["end"]["character"])
                                 for es in ch.values() for e in es)
                if got != want:
                    return {"program": pname, "source": text, "method": meth, "invoked_at": pos, "entity": key,
                            "expected_ranges": want, "returned_ranges": got, "error": r.get("error", {}).get("message")}
        finally:
            ws.close()
    return None


MULTI = {
    # entity -> expected occurrences (file, line, column); references from every occurrence must return all of them
    "files": {
        "a.f90": 'program p\n  integer :: x\n  x = 1\n  print *, "hi!", x\n  print *, "it\'s", x, \'a\'\n  print *, x ! x in comment\n'
                 '  print *, \'x "x" x\', x, "x \'x\' x!"\nend program p\n',
        "f.f": "      program q\n      integer ix\n      ix = 1   ! ix here\n      print *, 'ix', ix\n      end program q\n",
        "m.f90": "module m\n  interface\n    subroutine ext(n)\n      integer :: n\n    end subroutine ext\n  end interface\ncontains\n"
                 "  subroutine s()\n    integer :: y\n    call ext(y)\n  end subroutine s\nend module m\n",
        "u.f90": "program u\n  use m\n  integer :: k\n  call ext(k)\nend program u\n",
        # a binding declared without `=>` (binding and implementation share the name), used through an object in files
        # that are scanned before and after the one with the type
        "b_first.f90": "subroutine b_first()\n  use shp\n  type(circle) :: c\n  call c%area()\n  call area(c)\nend subroutine b_first\n",
        "shp.f90": "module shp\n  type :: circle\n    real :: r\n  contains\n    procedure :: area\n  end type circle\ncontains\n"
                   "  subroutine area(self)\n    class(circle), intent(inout) :: self\n    self%r = 1.0\n  end subroutine area\nend module shp\n",
        # the dummy argument of a module procedure used as argument keyword in another file, next to a local of that name
        "kw_m.f90": "module kwm\ncontains\n  subroutine setw(width)\n    integer, intent(in) :: width\n    print *, width\n  end subroutine setw\n"
                    "  subroutine other()\n    call setw(width=4)\n  end subroutine other\nend module kwm\n",
        "kw_main.f90": "program kw_main\n  use kwm\n  integer :: width\n  width = 2\n  call setw(width=3)\n  call setw(width = width)\nend program kw_main\n",
        # the other kind of quote inside a literal, next to a comment with an apostrophe and a literal with an exclamation mark
        "quo.f90": "program quo\n  integer :: nq\n  nq = 1\n  print *, \"nq wasn't zero\", nq  ! nq isn't zero here\n"
                   "  print *, \"nq isn't done\", 'stop!', nq\nend program quo\n",
        # an ASSOCIATE selector spelled like the associate name is the variable of the enclosing scope
        "asc.f90": "program asc\n  integer :: xs, ys\n  xs = 1\n  associate (xs => xs + 1, zs => ys)\n    ys = xs + zs\n  end associate\n  ys = xs\nend program asc\n",
        "z_last.f90": "subroutine z_last()\n  use shp\n  type(circle) :: c\n  call c%area()\nend subroutine z_last\n"},
    "expect": {
        "x": [("a.f90", 1, 13), ("a.f90", 2, 2), ("a.f90", 3, 18), ("a.f90", 4, 19), ("a.f90", 5, 11), ("a.f90", 6, 22)],
        "ix": [("f.f", 1, 14), ("f.f", 2, 6), ("f.f", 3, 21)],
        "ext": [("m.f90", 2, 15), ("m.f90", 4, 19), ("m.f90", 9, 9), ("u.f90", 3, 7)],
        "width@dummy": [("kw_m.f90", 2, 18), ("kw_m.f90", 3, 27), ("kw_m.f90", 4, 13), ("kw_m.f90", 7, 14), ("kw_main.f90", 4, 12), ("kw_main.f90", 5, 12)],
        "width@local": [("kw_main.f90", 2, 13), ("kw_main.f90", 3, 2), ("kw_main.f90", 5, 20)],
        "nq": [("quo.f90", 1, 13), ("quo.f90", 2, 2), ("quo.f90", 3, 29), ("quo.f90", 4, 37)],
        "xs@outer": [("asc.f90", 1, 13), ("asc.f90", 2, 2), ("asc.f90", 3, 19), ("asc.f90", 6, 7)],
        "xs@assoc": [("asc.f90", 3, 13), ("asc.f90", 4, 9)],
        "area": [("b_first.f90", 3, 9), ("b_first.f90", 4, 7), ("shp.f90", 4, 17), ("shp.f90", 7, 13), ("shp.f90", 10, 17),
                 ("z_last.f90", 3, 9)]},
}


def native_references_multi():
    from replay.harness import Workspace, session
    files, expect = MULTI["files"], MULTI["expect"]
    ws = Workspace(files)
    try:
        msgs = [{"jsonrpc": "2.0", "method": "textDocument/didOpen", "params": {"textDocument": {"uri": ws.uri(n)}}} for n in files]
        plan, rid = [], 1
        for name, occ in expect.items():
            for (f, ln, ch) in occ:
                msgs.append({"jsonrpc": "2.0", "id": rid, "method": "textDocument/references",
                             "params": {"textDocument": {"uri": ws.uri(f)}, "position": {"line": ln, "character": ch},
                                        "context": {"includeDeclaration": True}}})
                plan.append((rid, name, (f, ln, ch)))
                rid += 1
        srv, out = session(ws, msgs)
        by_id = {m["id"]: m for m in out if "id" in m}
        for rid, name, pos in plan:
            r = by_id.get(rid, {})
            got = sorted((x["uri"].rsplit("/", 1)[-1], x["range"]["start"]["line"], x["range"]["start"]["character"])
                         for x in (r.get("result") or []))
            if got != sorted(expect[name]):
                return {"files": files, "entity": name, "invoked_at": pos, "expected": sorted(expect[name]), "returned": got,
                        "error": (r.get("error") or {}).get("message")}
        return None
    finally:
        ws.close()


def native_renamed_use():
    from replay.harness import Workspace, session
    files = {"m.f90": "module m\n  integer :: orig\nend module m\n",
             "u.f90": "program u\n  use m, only: loc => orig\n  loc = 1\n  print *, loc\nend program u\n"}
    ws = Workspace(files)
    try:
        msgs = [{"jsonrpc": "2.0", "method": "textDocument/didOpen", "params": {"textDocument": {"uri": ws.uri(n)}}} for n in files]
        msgs.append({"jsonrpc": "2.0", "id": 1, "method": "textDocument/references",
                     "params": {"textDocument": {"uri": ws.uri("m.f90")}, "position": {"line": 1, "character": 14},
                                "context": {"includeDeclaration": True}}})
        srv, out = session(ws, msgs)
        got = sorted((x["uri"].rsplit("/", 1)[-1], x["range"]["start"]["line"], x["range"]["start"]["character"])
                     for m in out if m.get("id") == 1 for x in (m.get("result") or []))
        want = [("m.f90", 1, 13), ("u.f90", 1, 15), ("u.f90", 1, 22), ("u.f90", 2, 2), ("u.f90", 3, 11)]
        if got != want:
            return {"files": files, "entity": "m::orig", "expected": want, "returned": got}
        return None
    finally:
        ws.close()


def native_keyword_argument():
    """argument keywords (plain and type-bound calls, blanks around `=`, on a continuation line) belong to the dummy
    argument of the procedure called; keywords of I/O statements and `==` comparisons are left alone"""
    from replay.harness import Workspace, session
    text = ("module m\n  type t\n  contains\n    procedure :: go\n  end type t\ncontains\n  subroutine go(self, x, y)\n    class(t) :: self\n"
            "    integer :: x\n    integer, optional :: y\n    x = 2\n  end subroutine go\n  subroutine caller()\n    integer :: x, y, u\n"
            "    type(t) :: o\n    x = 1\n    call go(o, x=x, y = y)\n    call o%go(x = x, &\n      y=y)\n    write(unit=u, fmt=*) x\n"
            "    if (x == y) x = y\n  end subroutine caller\nend module m\n")
    L = text.split("\n")
    want = {
        "caller's x": ((13, L[13].index("x")), [(13, 15), (15, 4), (16, 17), (17, 18), (19, 25), (20, 8), (20, 16)]),
        "dummy x of go": ((8, L[8].index("x")), [(6, 22), (8, 15), (10, 4), (16, 15), (17, 14)]),
        "dummy y of go": ((9, L[9].index("y")), [(6, 25), (9, 25), (16, 20), (18, 6)]),
        "caller's u": ((13, L[13].index("u")), [(13, 21), (19, 15)]),
    }
    ws = Workspace({"k.f90": text})
    try:
        uri = ws.uri("k.f90")
        msgs = [{"jsonrpc": "2.0", "method": "textDocument/didOpen", "params": {"textDocument": {"uri": uri}}}]
        for k, (name, ((ln, ch), _)) in enumerate(want.items()):
            msgs.append({"jsonrpc": "2.0", "id": k + 1, "method": "textDocument/references",
                         "params": {"textDocument": {"uri": uri}, "position": {"line": ln, "character": ch}, "context": {"includeDeclaration": True}}})
        srv, out = session(ws, msgs)
        for k, (name, (_, exp)) in enumerate(want.items()):
            got = sorted((x["range"]["start"]["line"], x["range"]["start"]["character"])
                         for m in out if m.get("id") == k + 1 for x in (m.get("result") or []))
            if got != sorted(exp):
                return {"source": text, "entity": name, "expected": sorted(exp), "returned": got}
        return None
    finally:
        ws.close()


def native_continued_literal():
    """names inside a character literal that is continued over lines are not occurrences"""
    from replay.harness import Workspace, session
    text = "program p\n  integer :: x\n  x = 1\n  print *, \"abc x &\n     & x def\", x\nend program p\n"
    ws = Workspace({"c.f90": text})
    try:
        uri = ws.uri("c.f90")
        srv, out = session(ws, [
            {"jsonrpc": "2.0", "method": "textDocument/didOpen", "params": {"textDocument": {"uri": uri}}},
            {"jsonrpc": "2.0", "id": 1, "method": "textDocument/references",
             "params": {"textDocument": {"uri": uri}, "position": {"line": 1, "character": 13}, "context": {"includeDeclaration": True}}}])
        got = sorted((x["range"]["start"]["line"], x["range"]["start"]["character"])
                     for m in out if m.get("id") == 1 for x in (m.get("result") or []))
        want = [(1, 13), (2, 2), (4, 16)]
        if got != want:
            return {"source": text, "entity": "x", "expected": want, "returned": got}
        return None
    finally:
        ws.close()


def native_references_after_edit():
    """references are computed from the text the server holds now: after single-line incremental edits that add a use of
    a name to a file that never mentioned it (and after a rename applied as incremental edits) the answers are those of a
    server that was given the final text from the start"""
    from replay.harness import Workspace, make_server, parse_out
    from fortls.jsonrpc import path_to_uri
    a = "module ma\n  implicit none\n  integer :: tally\ncontains\n  subroutine bump()\n    tally = tally + 1\n  end subroutine bump\nend module ma\n"
    b = "module mb\n  use ma\n  implicit none\ncontains\n  subroutine other()\n    integer :: k\n    k = 1\n  end subroutine other\nend module mb\n"
    edits = [("b.f90", 6, 9, 9, " + tally"), ("b.f90", 5, 16, 16, ", extra"), ("b.f90", 6, 4, 4, "extra = 2; ")]

    def refs(srv, rw, ws, fname, ln, ch):
        rw.out.clear()
        srv.handle({"jsonrpc": "2.0", "id": 9, "method": "textDocument/references",
                    "params": {"textDocument": {"uri": ws.uri(fname)}, "position": {"line": ln, "character": ch}, "context": {"includeDeclaration": True}}})
        r = [m for m in parse_out(rw.out) if m.get("id") == 9]
        return sorted((x["uri"].rsplit("/", 1)[-1], x["range"]["start"]["line"], x["range"]["start"]["character"]) for x in (r[0].get("result") or [])) if r else None

    def start(ws):
        srv, rw = make_server(("--incremental_sync",))
        srv.nthreads = 1
        srv.handle({"jsonrpc": "2.0", "id": 0, "method": "initialize", "params": {"rootUri": path_to_uri(ws.root), "rootPath": ws.root}})
        for n in ("a.f90", "b.f90"):
            srv.handle({"jsonrpc": "2.0", "method": "textDocument/didOpen", "params": {"textDocument": {"uri": ws.uri(n)}}})
        return srv, rw
    ws = Workspace({"a.f90": a, "b.f90": b})
    try:
        srv, rw = start(ws)
        refs(srv, rw, ws, "a.f90", 2, 13)          # a first request: whatever is cached per file is cached now
        refs(srv, rw, ws, "b.f90", 5, 15)
        texts = {"a.f90": a.split("\n"), "b.f90": b.split("\n")}
        for fname, ln, c0, c1, ins in edits:
            srv.handle({"jsonrpc": "2.0", "method": "textDocument/didChange",
                        "params": {"textDocument": {"uri": ws.uri(fname)},
                                   "contentChanges": [{"range": {"start": {"line": ln, "character": c0}, "end": {"line": ln, "character": c1}}, "text": ins}]}})
            L = texts[fname]
            L[ln] = L[ln][:c0] + ins + L[ln][c1:]
        got = {"tally": refs(srv, rw, ws, "a.f90", 2, 13), "extra": refs(srv, rw, ws, "b.f90", 5, 18)}
        final = {n: "\n".join(L) for n, L in texts.items()}
    finally:
        ws.close()
    ws2 = Workspace(final)
    try:
        srv2, rw2 = start(ws2)
        want = {"tally": refs(srv2, rw2, ws2, "a.f90", 2, 13), "extra": refs(srv2, rw2, ws2, "b.f90", 5, 18)}
    finally:
        ws2.close()
    for k in want:
        if got[k] != want[k] or not want[k]:
            return {"entity": k, "files_after_the_edits": final, "edits": edits, "references_after_edits": got[k],
                    "references_of_a_server_started_on_the_final_text": want[k]}
    return None


def native_kind_suffix():
    from replay.harness import Workspace, session
    text = "program ks\n  integer, parameter :: dp = 8\n  real(dp) :: a\n  a = 1.0_dp + 0.5e1_dp\n  print *, a, 2_dp\nend program ks\n"
    ws = Workspace({"k.f90": text})
    try:
        uri = ws.uri("k.f90")
        srv, out = session(ws, [
            {"jsonrpc": "2.0", "method": "textDocument/didOpen", "params": {"textDocument": {"uri": uri}}},
            {"jsonrpc": "2.0", "id": 1, "method": "textDocument/references",
             "params": {"textDocument": {"uri": uri}, "position": {"line": 1, "character": 24}, "context": {"includeDeclaration": True}}}])
        got = sorted((x["range"]["start"]["line"], x["range"]["start"]["character"])
                     for m in out if m.get("id") == 1 for x in (m.get("result") or []))
        want = [(1, 24), (2, 7), (3, 10), (3, 21), (4, 16)]
        if got != want:
            return {"source": text, "entity": "the named constant dp", "expected": want, "returned": got}
        return None
    finally:
        ws.close()


def extra(repo, reg, tier, seed):
    items = regex_items(repo, tier) + structure_items(repo) + expand_name_items(repo, tier)
    w = native_references_multi()
    items.append(Item("C06/session/native_references_literals_and_files", "refuted" if w else "bounded-ok", "native-run(bounded)", 0.0,
                      mode="bounded", witness=w, confirmed=True if w else None, func=f"{LS}.get_all_references",
                      detail="bounded: 9 files (the dummy argument of a module procedure as argument keyword in another file; a type-bound procedure that shares its implementation's name, used in files scanned before and after the type; '!' and quotes of the other kind inside character literals, trailing comments in "
                             "free and fixed form, a procedure declared in an interface block of a module and used in another "
                             "file): references from every occurrence vs the expected occurrence set"))
    from contracts import c05_gen
    w, n, ne = c05_gen.run_references(tier, seed)
    it = Item("C06/session/generated_references_oracle", "refuted" if w else "bounded-ok", "native-run(bounded)", 0.0, mode="bounded",
              witness=w, confirmed=True if w else None, func=f"{LS}.get_all_references",
              detail=f"bounded: {n} generated multi-file programs (the C05 model: shadowing, USE with ONLY and renames, re-export, "
                     f"mixed-case spellings), {ne} entities: every use site the model binds to the declaration is among its "
                     "references, every reference spans the identifier and resolves back to the declaration, the set is the same "
                     "when asked from another occurrence; rename edits are exactly the references and the edited program resolves "
                     "every occurrence to the renamed declaration")
    it.count = ne
    items.append(it)
    w, n_cs = comment_start_small_scope()
    it = Item("C06/find_comment_start/lemma.small_scope", "refuted" if w else "bounded-ok", "native-run(bounded)", 0.0, mode="bounded",
              witness=w, confirmed=True if w else None, func="fortls.parsers.internal.parser.find_comment_start",
              detail=f"bounded: {n_cs} (line, skipped column) pairs — every line over a five-character alphabet up to length 7 and lines "
                     "with the other kind of quote inside a literal — against the definition of a trailing comment")
    it.count = n_cs
    items.append(it)
    w = native_renamed_use()
    items.append(Item("C06/session/native_references_renamed_use", "refuted" if w else "bounded-ok", "native-run(bounded)", 0.0,
                      mode="bounded", witness=w, confirmed=True if w else None, func=f"{LS}.get_all_references",
                      detail="bounded: one module entity used under a local alias (use m, only: loc => orig)"))
    w = native_keyword_argument()
    items.append(Item("C06/session/native_references_keyword_argument", "refuted" if w else "bounded-ok", "native-run(bounded)", 0.0,
                      mode="bounded", witness=w, confirmed=True if w else None, func=f"{LS}.get_all_references",
                      detail="bounded: one program with an argument keyword spelled like a variable of the caller"))
    w = native_references_after_edit()
    items.append(Item("C06/session/native_references_after_incremental_edits", "refuted" if w else "bounded-ok", "native-run(bounded)", 0.0,
                      mode="bounded", witness=w, confirmed=True if w else None, func=f"{LS}.get_all_references",
                      detail="bounded: two files, a references request, three single-line incremental edits (a new use of a module "
                             "variable in a file that never mentioned it, a new local), references again: equal to those of a "
                             "server started on the final text"))
    w = native_kind_suffix()
    items.append(Item("C06/session/native_references_kind_suffix", "refuted" if w else "bounded-ok", "native-run(bounded)", 0.0,
                      mode="bounded", witness=w, confirmed=True if w else None, func=f"{LS}.get_all_references",
                      detail="bounded: one program with a named kind constant used as the kind suffix of literals"))
    w = native_continued_literal()
    items.append(Item("C06/session/native_references_continued_literal", "refuted" if w else "bounded-ok", "native-run(bounded)", 0.0,
                      mode="bounded", witness=w, confirmed=True if w else None, func=f"{LS}.get_all_references",
                      detail="bounded: one program with a character literal continued over two lines that contains the name"))
    w = native_references()
    items.append(Item("C06/session/native_references", "refuted" if w else "bounded-ok", "native-run(bounded)", 0.0,
                      mode="bounded", witness=w, confirmed=True if w else None, func=f"{LS}.get_all_references",
                      detail="bounded: 2 programs (repeated names around single operators, `$` names, comments, strings, "
                             "shadowing); references and rename from every occurrence vs the expected occurrence set"))
    return items


def replay(obligation, model, rep):
    from fortls import json_templates as jt
    if "range_json" in obligation or "uri_json" in obligation or "change_json" in obligation:
        sln, sch, eln, ech = model.get("sln"), model.get("sch"), model.get("eln"), model.get("ech")
        r = jt.range_json(sln, sch, eln, ech)["range"]
        want_end = {"line": sln if eln is None else eln, "character": sch if ech is None else ech}
        bad = r["start"] != {"line": sln, "character": sch} or r["end"] != want_end
        return {"confirmed": bool(bad), "input": [sln, sch, eln, ech], "observed": r, "expected_end": want_end}
    return {"confirmed": None}


def comment_start_small_scope(max_len=7):
    """the real find_comment_start against the definition (first `!` outside a character literal, literals paired left to
    right, an unclosed literal runs to the end of the line): every string over {a ' " ! blank} up to max_len, plus the
    shapes a one-pass-per-quote-kind blanking gets wrong (the other kind of quote inside a literal)"""
    import itertools
    from fortls.parsers.internal.parser import find_comment_start

    def ref(line, skip=-1):
        q = ""
        for i, ch in enumerate(line):
            if q:
                if ch == q:
                    q = ""
            elif ch in "'\"":
                q = ch
            elif ch == "!" and i != skip:
                return i
        return -1
    extra_lines = ['print *, "n wasn\'t zero", n  ! n isn\'t zero here', 'print *, "n isn\'t done", \'stop!\', n',
                   "x = 'say \"hi!\"' ! c", 'c = "a\'b" // \'c"d\' ! t', "      x = 1 ! y", "!", ""]
    n = 0
    for line in itertools.chain(extra_lines, ("".join(t) for k in range(max_len + 1) for t in itertools.product("a'\"! ", repeat=k))):
        for skip in ((-1,) if len(line) > max_len else (-1, 0, 2)):
            n += 1
            got = find_comment_start(line, skip)
            if got != ref(line, skip):
                return {"function": "find_comment_start", "line": line, "skip_column": skip, "returned": got, "expected": ref(line, skip)}, n
    return None, n


def search(func, tier, seed, obligation=""):
    if "find_comment_start" in func:
        return comment_start_small_scope()[0] or native_references()
    if "strip_comment" in func:
        from fortls.parsers.internal.parser import FortranFile
        for fixed in (False, True):
            f = FortranFile()
            f.fixed = fixed
            for line in ["x = 1 ! c", "!$omp parallel", "c comment", "      x = 'a!b' ! t", "", "!", "  ! only"]:
                r = f.strip_comment(line)
                if not line.startswith(r):
                    return {"function": "strip_comment", "fixed": fixed, "line": line, "result": r}
        return None
    return native_references()


TRUSTED = ["str.split facts (first piece is a separator-free prefix); re look-around semantics of CPython (the lemma is "
           "checked with the real re on every run)"]
ASSUMPTIONS = ["identifier characters are word characters and `$`"]
RESIDUAL = ("that each textual hit is bound to the same entity (get_definition, C05) is decided only by the native "
            "stand-in; occurrences inside character literals are excluded by get_definition's literal guard, not here")
