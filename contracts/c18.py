"""C18 — exactly the configured source files are indexed at start-up.

The file system is ghost state given by uninterpreted functions: listdir(d) (a sequence of names),
isfile(p), path_join(d, f), walk(root) (a sequence of (dir, files) pairs), globs(pattern) / dir_globs(pattern)
(sets).  suffix_ok(f) stands for `FORTRAN_SRC_EXT_REGEX.search(f)`; what that regex accepts is decided
separately against the property's suffix list (finite enumeration with the real `re`, plus structure).

Specification (from the property statement):
  keep(d, f)  :=  isfile(d/f) and suffix_ok(f) and d/f not in excl_paths and no excluded suffix ends f
  files       :=  [ d/f  |  d in source_dirs (enumeration order), f in listdir(d) (listing order), keep(d, f) ]
The loops are proved to compute exactly this sequence (so its set is the specified set whatever the order in
which the set of directories and the listings are enumerated).
"""
import ast

from pyvc import smt
from pyvc.smt import And, Or, Not, Implies, Ite, Eq, IntVal, StrVal, Len, Add, Sub, Lt, Le, Ge, Gt, Concat, Extract, At, Unit
from pyvc.types import *
from pyvc.contract import Contract, LoopSpec, Raises, FrameCall
from pyvc.results import Item

LS = "fortls.langserver.LangServer"
SEQS = smt.SeqS(smt.STR)
SETS = smt.ArrayS(smt.STR, smt.BOOL)


def F(eng, name, args, ret):
    return eng.decls.fun(name, args, ret)


def keep_term(eng, st, d, f):
    """keep(d, f) from the statement, over the current values of excl_paths / excl_suffixes."""
    p = F(eng, "path_join", [smt.STR, smt.STR], smt.STR)(d, f)
    excl_paths = eng.heap_get(st, ("self", "excl_paths")).t
    excl_suf = eng.heap_get(st, ("self", "excl_suffixes")).t
    e = smt.BoundVar("q_e", smt.STR)
    return And(F(eng, "isfile", [smt.STR], smt.BOOL)(p), F(eng, "suffix_ok", [smt.STR], smt.BOOL)(f),
               Not(smt.Select(excl_paths, p)),
               Not(smt.Exists([e], And(smt.Select(excl_suf, e), smt.SuffixOf(e, f)))))


def sp_rowfold(eng, st, d, names, j):
    """[ d/names[i] | i < j, keep(d, names[i]) ]"""
    dd = eng.decls
    f = dd.fun("rowfold", [smt.STR, SEQS, smt.INT], SEQS)
    cur = f(d.t, names.t, j.t)
    if "q_" not in j.t.s:
        dd.ground_axiom("rowfold.base", Eq(f(d.t, names.t, IntVal(0)), smt.EmptySeq(SEQS)))
        nm = At(names.t, j.t)
        p = F(eng, "path_join", [smt.STR, smt.STR], smt.STR)(d.t, nm)
        nxt = f(d.t, names.t, Add(j.t, IntVal(1)))
        dd.ground_axiom("rowfold.step", Implies(And(Le(IntVal(0), j.t), Lt(j.t, Len(names.t))),
                                                Eq(nxt, Ite(keep_term(eng, st, d.t, nm), Concat(cur, Unit(p)), cur))))
    return V(TSeq(STR), cur)


def sp_allfold(eng, st, order, k):
    """concatenation of the rows of order[:k]"""
    dd = eng.decls
    f = dd.fun("allfold", [SEQS, smt.INT], SEQS)
    cur = f(order.t, k.t)
    if "q_" not in k.t.s:
        dd.ground_axiom("allfold.base", Eq(f(order.t, IntVal(0)), smt.EmptySeq(SEQS)))
        d = At(order.t, k.t)
        names = F(eng, "listdir", [smt.STR], SEQS)(d)
        row = sp_rowfold(eng, st, V(STR, d), V(TSeq(STR), names), V(INT, Len(names))).t
        nxt = f(order.t, Add(k.t, IntVal(1)))
        dd.ground_axiom("allfold.step", Implies(And(Le(IntVal(0), k.t), Lt(k.t, Len(order.t))),
                                                Eq(nxt, Concat(cur, row))))
    return V(TSeq(STR), cur)


def sp_listdir(eng, st, d):
    return V(TSeq(STR), F(eng, "listdir", [smt.STR], SEQS)(d.t))


def sp_dirs_order(eng, st):
    """The enumeration order of self.source_dirs used by the loop (ghost, fixed by the model of set iteration)."""
    return st.env["$dirs_order"]


SPEC_ENV = {"rowfold": sp_rowfold, "allfold": sp_allfold, "listdir": sp_listdir}
AXIOMS = {}


# ------------------------------------------------------------------ library models
def m_listdir(eng, st, node, args, kwargs):
    return V(TSeq(STR), F(eng, "listdir", [smt.STR], SEQS)(args[0].t))


def m_join(eng, st, node, args, kwargs):
    return V(STR, F(eng, "path_join", [smt.STR, smt.STR], smt.STR)(args[0].t, args[1].t))


def m_isfile(eng, st, node, args, kwargs):
    return V(BOOL, F(eng, "isfile", [smt.STR], smt.BOOL)(args[0].t))


def m_suffix_search(eng, st, node, args, kwargs):
    return V(BOOL, F(eng, "suffix_ok", [smt.STR], smt.BOOL)(args[0].t))


def build(reg):
    fields = {"self.source_dirs": TSet(STR), "self.excl_paths": TSet(STR), "self.excl_suffixes": TSet(STR),
              "self.root_path": STR}
    reg.add(Contract(
        f"{LS}._get_source_files", prop="C18", receiver_cls="LangServer", params={"dirs_order": TSeq(STR)},
        fields=fields, result=TSeq(STR), locals_={"file_list": TSeq(STR)},
        requires=[("order", "enumerates(dirs_order, self.source_dirs)")],
        ensures=[("exact_filter", "result == allfold(dirs_order, len(dirs_order))")],
        calls={"os.listdir": m_listdir, "os.path.join": m_join, "os.path.isfile": m_isfile,
               "self.FORTRAN_SRC_EXT_REGEX.search": m_suffix_search},
        loops={
            0: LoopSpec("for src_dir in self.source_dirs", index="_k", invariants=[
                ("rows", "file_list == allfold(dirs_order, _k)")]),
            1: LoopSpec("for f in os.listdir(src_dir)", index="_j", invariants=[
                ("row", "file_list == allfold(dirs_order, _k) + rowfold(src_dir, listdir(src_dir), _j)"),
                ("dir", "src_dir == dirs_order[_k] and _k < len(dirs_order)")]),
        },
        short="LangServer._get_source_files"))
    return reg


def sp_enumerates(eng, st, order, S):
    """order is the enumeration of set S the loop uses: the engine's model of set iteration picks an arbitrary
    repetition-free enumeration; the ghost parameter names it."""
    from pyvc.builtins_ import enumeration_facts
    if not hasattr(eng, "_set_orders"):
        eng._set_orders = {}
    eng._set_orders[S.t.s] = order.t
    return V(BOOL, And(*enumeration_facts(S.t, order.t, smt.STR)))


SPEC_ENV["enumerates"] = sp_enumerates

TARGETS = [f"{LS}._get_source_files"]

TRUSTED = [
    "os.listdir / os.path.isfile / os.path.join / os.walk / pathlib glob are uninterpreted functions of the (fixed) "
    "file system",
    "meta-lemma: the set of a filter-map over nested enumerations does not depend on the enumeration orders",
]
ASSUMPTIONS = ["file names contain no newline (Python's `$` also matches before a trailing newline)",
               "the root path has no symlink components (Path.resolve is the identity on directories found by os.walk)"]
RESIDUAL = "glob expansion itself (pathlib) is trusted; _add_source_dirs/_resolve_globs_in_paths are covered natively (bounded)"
