"""C18 — exactly the configured source files are indexed at start-up.

The file system is ghost state given by uninterpreted functions: listdir(d) (a sequence of names),
isfile(p), path_join(d, f), walk(root) (a sequence of (dir, files) pairs), globs(pattern) / dir_globs(pattern)
(sets).  suffix_ok(f) stands for `FORTRAN_SRC_EXT_REGEX.search(f)`; what that regex accepts is decided
separately against the property's suffix list (finite enumeration with the real `re`, plus structure).

Specification (from the property statement):
  keep(d, f)  :=  isfile(d/f) and suffix_ok(f) and d/f not in excl_paths and no excluded suffix ends f
  files       :=  [ d/f  |  d in source_dirs (enumeration order), f in listdir(d) (listing order), keep(d, f) ]
The loops are proved to compute exactly this sequence (so its set is the specified set whatever the order in
which the set of directories and the listings are enumerated).
"""
import ast
import re

from pyvc import smt
from pyvc.smt import And, Or, Not, Implies, Ite, Eq, IntVal, StrVal, Len, Add, Sub, Lt, Le, Ge, Gt, Concat, Extract, At, Unit
from pyvc.types import *
from pyvc.contract import Contract, LoopSpec, Raises, FrameCall
from pyvc.results import Item

LS = "fortls.langserver.LangServer"
SEQS = smt.SeqS(smt.STR)
SETS = smt.ArrayS(smt.STR, smt.BOOL)


def F(eng, name, args, ret):
    return eng.decls.fun(name, args, ret)


def keep_term(eng, st, d, f):
    """keep(d, f) from the statement, over the current values of excl_paths / excl_suffixes."""
    p = F(eng, "path_join", [smt.STR, smt.STR], smt.STR)(d, f)
    excl_paths = eng.heap_get(st, ("self", "excl_paths")).t
    excl_suf = eng.heap_get(st, ("self", "excl_suffixes")).t
    e = smt.BoundVar("q_e", smt.STR)
    return And(F(eng, "isfile", [smt.STR], smt.BOOL)(p), F(eng, "suffix_ok", [smt.STR], smt.BOOL)(f),
               Not(smt.Select(excl_paths, p)),
               Not(smt.Exists([e], And(smt.Select(excl_suf, e), smt.SuffixOf(e, f)))))


def sp_rowfold(eng, st, d, names, j):
    """[ d/names[i] | i < j, keep(d, names[i]) ]"""
    dd = eng.decls
    f = dd.fun("rowfold", [smt.STR, SEQS, smt.INT], SEQS)
    cur = f(d.t, names.t, j.t)
    if "q_" not in j.t.s:
        dd.ground_axiom("rowfold.base", Eq(f(d.t, names.t, IntVal(0)), smt.EmptySeq(SEQS)))
        nm = At(names.t, j.t)
        p = F(eng, "path_join", [smt.STR, smt.STR], smt.STR)(d.t, nm)
        nxt = f(d.t, names.t, Add(j.t, IntVal(1)))
        dd.ground_axiom("rowfold.step", Implies(And(Le(IntVal(0), j.t), Lt(j.t, Len(names.t))),
                                                Eq(nxt, Ite(keep_term(eng, st, d.t, nm), Concat(cur, Unit(p)), cur))))
    return V(TSeq(STR), cur)


def sp_allfold(eng, st, order, k):
    """concatenation of the rows of order[:k]"""
    dd = eng.decls
    f = dd.fun("allfold", [SEQS, smt.INT], SEQS)
    cur = f(order.t, k.t)
    if "q_" not in k.t.s:
        dd.ground_axiom("allfold.base", Eq(f(order.t, IntVal(0)), smt.EmptySeq(SEQS)))
        d = At(order.t, k.t)
        names = F(eng, "listdir", [smt.STR], SEQS)(d)
        row = sp_rowfold(eng, st, V(STR, d), V(TSeq(STR), names), V(INT, Len(names))).t
        nxt = f(order.t, Add(k.t, IntVal(1)))
        dd.ground_axiom("allfold.step", Implies(And(Le(IntVal(0), k.t), Lt(k.t, Len(order.t))),
                                                Eq(nxt, Concat(cur, row))))
    return V(TSeq(STR), cur)


def sp_listdir(eng, st, d):
    return V(TSeq(STR), F(eng, "listdir", [smt.STR], SEQS)(d.t))


def sp_dirs_order(eng, st):
    """The enumeration order of self.source_dirs used by the loop (ghost, fixed by the model of set iteration)."""
    return st.env["$dirs_order"]


WALK = TTup([STR, TSeq(STR), TSeq(STR)])


def walk_term(eng, root):
    return F(eng, "os_walk", [smt.STR], sort_of(TSeq(WALK), eng.decls))(root)


def sp_walk(eng, st, root):
    return V(TSeq(WALK), walk_term(eng, root.t))


def sp_dirfold(eng, st, W, k):
    """Set of directories of W[:k] that hold a source file and are not excluded (built in walk order)."""
    dd = eng.decls
    f = dd.fun("dirfold", [W.t.sort, smt.INT], SETS)
    cur = f(W.t, k.t)
    if "q_" not in k.t.s:
        empty = smt.Term(SETS, f"((as const {SETS}) false)")
        dd.ground_axiom("dirfold.base", Eq(f(W.t, IntVal(0)), empty))
        ent = At(W.t, k.t)
        root = dd.field(ent, "f0")
        files = dd.field(ent, "f2")
        excl = eng.heap_get(st, ("self", "excl_paths")).t
        has_src = F(eng, "has_source_file", [SEQS], smt.BOOL)(files)
        res = F(eng, "resolve", [smt.STR], smt.STR)(root)
        # a directory holding a source file is searched unless its resolved path is excluded (excl_paths are resolved)
        cond = And(has_src, Not(smt.Select(excl, res)))
        nxt = f(W.t, Add(k.t, IntVal(1)))
        dd.ground_axiom("dirfold.step", Implies(And(Le(IntVal(0), k.t), Lt(k.t, Len(W.t))),
                                                Eq(nxt, Ite(cond, smt.Store(cur, res, smt.TRUE), cur))))
    return V(TSet(STR), cur)


def sp_card(eng, st, S):
    n = eng.decls.fun("set_card_" + smt.mangle(S.t.sort), [S.t.sort], smt.INT)(S.t)
    return V(INT, n)


SPEC_ENV = {"rowfold": sp_rowfold, "allfold": sp_allfold, "listdir": sp_listdir, "walk": sp_walk,
            "dirfold": sp_dirfold, "card": sp_card}
AXIOMS = {}


# ------------------------------------------------------------------ library models
def m_listdir(eng, st, node, args, kwargs):
    return V(TSeq(STR), F(eng, "listdir", [smt.STR], SEQS)(args[0].t))


def m_join(eng, st, node, args, kwargs):
    return V(STR, F(eng, "path_join", [smt.STR, smt.STR], smt.STR)(args[0].t, args[1].t))


def m_isfile(eng, st, node, args, kwargs):
    return V(BOOL, F(eng, "isfile", [smt.STR], smt.BOOL)(args[0].t))


def m_suffix_search(eng, st, node, args, kwargs):
    return V(BOOL, F(eng, "suffix_ok", [smt.STR], smt.BOOL)(args[0].t))


def m_walk(eng, st, node, args, kwargs):
    return V(TSeq(WALK), walk_term(eng, args[0].t))


def m_filter(eng, st, node, args, kwargs):
    """filter(regex.search, files): some list that is non-empty iff a file name matches the suffix regex."""
    files = args[1]
    res = eng.decls.fresh("filtered", SEQS)
    st.assume(Eq(Gt(Len(res), IntVal(0)), F(eng, "has_source_file", [SEQS], smt.BOOL)(files.t)))
    return V(TSeq(STR), res)


def m_resolve(eng, st, node, args, kwargs):
    inner = node.func.value  # Path(root)
    root = eng.eval(inner.args[0], st)
    return V(STR, F(eng, "resolve", [smt.STR], smt.STR)(root.t))


def build(reg):
    fields = {"self.source_dirs": TSet(STR), "self.excl_paths": TSet(STR), "self.excl_suffixes": TSet(STR),
              "self.root_path": STR}
    reg.add(Contract(
        f"{LS}._get_source_files", prop="C18", receiver_cls="LangServer", params={"dirs_order": TSeq(STR)},
        fields=fields, result=TSeq(STR), locals_={"file_list": TSeq(STR)},
        requires=[("order", "enumerates(dirs_order, self.source_dirs)")],
        ensures=[("exact_filter", "result == allfold(dirs_order, len(dirs_order))")],
        calls={"os.listdir": m_listdir, "os.path.join": m_join, "os.path.isfile": m_isfile,
               "self.FORTRAN_SRC_EXT_REGEX.search": m_suffix_search},
        loops={
            0: LoopSpec("for src_dir in self.source_dirs", index="_k", invariants=[
                ("rows", "file_list == allfold(dirs_order, _k)")]),
            1: LoopSpec("for f in os.listdir(src_dir)", index="_j", invariants=[
                ("row", "file_list == allfold(dirs_order, _k) + rowfold(src_dir, listdir(src_dir), _j)"),
                ("dir", "src_dir == dirs_order[_k] and _k < len(dirs_order)")]),
        },
        short="LangServer._get_source_files"))
    W = "walk(self.root_path)"
    reg.add(Contract(
        f"{LS}._add_source_dirs", prop="C18", receiver_cls="LangServer", params={}, fields=fields,
        modifies=["self.source_dirs"],
        ensures=[
            # called only when no source directory was configured (structural obligation on serve_initialize): the set then
            # holds the root alone, or nothing when the root itself is excluded
            ("root_excluded", "implies(card(old(self.source_dirs)) != 1, self.source_dirs == old(self.source_dirs))"),
            ("recursive_default", "implies(card(old(self.source_dirs)) == 1, "
                                  f"self.source_dirs == dirfold({W}, len({W})))"),
        ],
        calls={"os.walk": m_walk, "filter": m_filter, "Path(root).resolve": m_resolve,
               "self.FORTRAN_SRC_EXT_REGEX.search": m_suffix_search},
        loops={0: LoopSpec("for (root, dirs, files) in os.walk(self.root_path)", index="_k", invariants=[
            ("dirs", f"self.source_dirs == dirfold({W}, _k)")])},
        short="LangServer._add_source_dirs"))
    return reg


def sp_enumerates(eng, st, order, S):
    """order is the enumeration of set S the loop uses: the engine's model of set iteration picks an arbitrary
    repetition-free enumeration; the ghost parameter names it."""
    from pyvc.builtins_ import enumeration_facts
    if not hasattr(eng, "_set_orders"):
        eng._set_orders = {}
    eng._set_orders[S.t.s] = order.t
    return V(BOOL, And(*enumeration_facts(S.t, order.t, smt.STR)))


SPEC_ENV["enumerates"] = sp_enumerates

TARGETS = [f"{LS}._get_source_files", f"{LS}._add_source_dirs"]

TRUSTED = [
    "os.listdir / os.path.isfile / os.path.join / os.walk / pathlib glob are uninterpreted functions of the (fixed) "
    "file system",
    "meta-lemma: the set of a filter-map over nested enumerations does not depend on the enumeration orders",
]
ASSUMPTIONS = ["file names contain no newline (Python's `$` also matches before a trailing newline)",
               "the root path has no symlink components (Path.resolve is the identity on directories found by os.walk)"]
RESIDUAL = "glob expansion itself (pathlib) is trusted; _add_source_dirs/_resolve_globs_in_paths are covered natively (bounded)"


# ------------------------------------------------------------------ suffix regex, composition, native file systems
DEFAULT_SUFFIXES = ["f", "f77", "f90", "f95", "f03", "f05", "f08", "f18", "for", "fpp"]


def spec_suffix_ok(name: str, incl=()):
    low = name.lower()
    for s in DEFAULT_SUFFIXES:
        if low.endswith("." + s):
            # the letters f / or / pp may be in either case, digits are digits
            return True
    return any(name.endswith(s) for s in incl)


def _spec_file_set(root, source_dirs, excl_paths, incl_suffixes, excl_suffixes):
    import os
    from pathlib import Path

    def globs(p):
        if os.path.isabs(p):
            q = Path(p)
            return {str(x.resolve()) for x in Path(q.anchor).glob(str(q.relative_to(q.anchor)))}
        if os.path.normpath(p) == ".":  # the root itself (pathlib does not glob ".")
            return {str(Path(root).resolve())}
        return {str(x.resolve()) for x in Path(root).resolve().glob(p)}

    X = set()
    for p in excl_paths:
        X |= globs(p)
    if source_dirs:
        D = set()
        for p in source_dirs:
            D |= {m for m in globs(p) if os.path.isdir(m)}
    else:
        D = {str(Path(d).resolve()) for d, _, files in os.walk(root) if any(spec_suffix_ok(f, incl_suffixes) for f in files)}
    D -= X
    out = set()
    for d in D:
        for f in os.listdir(d):
            p = os.path.join(d, f)
            if os.path.isfile(p) and spec_suffix_ok(f, incl_suffixes) and p not in X \
                    and not any(f.endswith(e) for e in excl_suffixes):
                out.add(p)
    return out


def native_fs_search():
    """Real directory trees x configurations (command line and file): indexed set vs the specification."""
    import json
    import os
    from replay.harness import Workspace, session
    prog = "program p\nend program p\n"
    tree = {
        "top.f90": prog, "README.md": "x", "look.f9": prog, "bak.f90.bak": prog, "xf90": prog, "UP.F90": prog,
        "src/a.f90": "module a\nend module a\n", "src/b.F": "module b\nend module b\n", "src/skip_gen.f90": "module sg\nend module sg\n",
        "src/deep/c.for": "module c\nend module c\n", "src/deep/d.inc": "integer :: d\n",
        "lib/e.f95": "module e\nend module e\n", "lib/excl/f.f90": "module f\nend module f\n",
        "lib/excl/deep/h.f90": "module h\nend module h\n", "lib/excl/deep/er/k.f": "module k\nend module k\n",
        "empty/.keep": "", "docs/notes.txt": "n", "src/dir.f90/inner.txt": "a directory that looks like a source file", "other/g.fpp": "module g\nend module g\n",
    }
    configs = [
        dict(),
        dict(source_dirs=["src"]),
        dict(source_dirs=["src/**"]),
        dict(source_dirs=["src", "lib"], excl_paths=["lib/excl"]),
        dict(excl_paths=["lib/excl", "src/a.f90"]),
        dict(excl_paths=["src/**"]),
        dict(excl_paths=["lib/*"]),
        dict(excl_paths=["lib/excl"]),
        dict(incl_suffixes=[".inc"]),
        dict(excl_suffixes=["_gen.f90"]),
        dict(source_dirs=["src", "src/deep"], incl_suffixes=[".inc"], excl_suffixes=["_gen.f90"], excl_paths=["src/b.F"]),
        dict(incl_suffixes=[".f9"]),
        dict(source_dirs=["."]),
        dict(source_dirs=["./", "src"]),
        dict(source_dirs=["."], excl_paths=["top.f90"]),
    ]
    for cfg in configs:
        for channel in ("file", "cli", "file_via_symlink"):
            if channel == "file_via_symlink" and cfg.get("source_dirs"):
                continue
            if channel == "cli" and not cfg:
                continue
            files = dict(tree)
            argv = []
            if channel in ("file", "file_via_symlink"):
                files[".fortlsrc"] = json.dumps(cfg)
            else:
                for k, v in cfg.items():
                    argv += ["--" + k] + list(v)
            ws = Workspace(files)
            link = None
            try:
                if channel == "file_via_symlink":
                    # the client names the root through a symbolic link (rootPath, not a URI)
                    from replay.harness import make_server
                    link = ws.root + "_link"
                    os.symlink(ws.root, link)
                    srv, rw = make_server(argv)
                    srv.nthreads = 1
                    srv.handle({"jsonrpc": "2.0", "id": 0, "method": "initialize", "params": {"rootPath": link}})
                else:
                    srv, out = session(ws, [], argv=argv)
                got = set(srv.workspace)
                root = os.path.realpath(ws.root)
                want = _spec_file_set(root, cfg.get("source_dirs", []), cfg.get("excl_paths", []),
                                      cfg.get("incl_suffixes", []), cfg.get("excl_suffixes", []))
                got = {os.path.realpath(p) for p in got}
                listed = {os.path.realpath(p) for p in srv._get_source_files()}
                if listed != want:
                    got = listed
                if got != want:
                    rel = lambda s: sorted(os.path.relpath(p, root) for p in s)  # noqa: E731
                    return {"configuration": cfg, "given_by": channel, "missing": rel(want - got),
                            "unexpected": rel(got - want), "tree": sorted(tree)}
            finally:
                if link and os.path.islink(link):
                    os.unlink(link)
                ws.close()
    # a root directory whose name contains glob metacharacters; a link that leads nowhere matched by a source_dirs glob
    from replay.harness import make_server
    for rootname, cfg, dangling in (("proj[1]", {}, False), ("a*b?c", {}, False), ("plain", {"source_dirs": ["*"]}, True)):
        ws = Workspace({})
        try:
            root = os.path.join(os.path.realpath(ws.root), rootname)
            os.makedirs(os.path.join(root, "sub"))
            for rel_, txt in (("a.f90", "module a\nend module a\n"), ("sub/b.f90", "module b\nend module b\n")):
                with open(os.path.join(root, rel_), "w") as fh:
                    fh.write(txt)
            if cfg:
                with open(os.path.join(root, ".fortlsrc"), "w") as fh:
                    json.dump(cfg, fh)
            if dangling:
                os.symlink(os.path.join(root, "nonexistent"), os.path.join(root, "dangling"))
            srv, rw = make_server([])
            srv.nthreads = 1
            srv.handle({"jsonrpc": "2.0", "id": 0, "method": "initialize", "params": {"rootPath": root}})
            got = {os.path.relpath(os.path.realpath(p), root) for p in srv.workspace}
            want = {"sub/b.f90"} if cfg.get("source_dirs") == ["*"] else {"a.f90", "sub/b.f90"}
            if got != want:
                return {"root_directory_name": rootname, "configuration": cfg, "dangling_link_in_root": dangling,
                        "expected": sorted(want), "indexed": sorted(got),
                        "messages": [str(m)[:160] for m in rw.out if "showMessage" in str(m) or "error" in str(m)][:2]}
        finally:
            ws.close()
    return None


def extra(repo, reg, tier, seed):
    import itertools
    items = []
    from fortls.regex_patterns import create_src_file_exts_regex, create_src_file_exts_str
    fi = repo.func("fortls.regex_patterns.create_src_file_exts_regex")
    # anchoring, decided on the patterns the real function builds (normal and fallback path): a name matches iff it *ends*
    # in an accepted suffix — nothing may follow, not even a line break
    bad_anchor = None
    defaults = [".f", ".F", ".f90", ".F90", ".f77", ".for", ".FOR", ".fpp", ".Fpp", ".f18"]
    for extra_sufs in ([], [".inc"], [".inc", ".h"], ["("]):   # "(" is not a valid expression: the fallback pattern
        try:
            rx = create_src_file_exts_regex([re.escape(x) for x in extra_sufs] if extra_sufs != ["("] else ["("])
        except Exception as e:  # noqa: BLE001
            bad_anchor = {"suffixes": extra_sufs, "problem": f"raised {e!r}"}
            break
        accepted = set(defaults) | (set(extra_sufs) if extra_sufs != ["("] else set())
        for stem in ("a", "x.y", "d/e"):
            for suf in defaults + [".inc", ".h", ".INC", ".f9", ".f900", ".bak"]:
                for tail in ("", "\n", " ", ".bak", "x", "\r", "\n\n"):
                    name = stem + suf + tail
                    want = tail == "" and suf in accepted
                    if bool(rx.search(name)) != want:
                        bad_anchor = {"additional_suffixes": extra_sufs, "file_name": name, "expected_match": want, "pattern": rx.pattern}
                        break
                if bad_anchor:
                    break
            if bad_anchor:
                break
        if bad_anchor:
            break
    items.append(Item("C18/create_src_file_exts_regex/ensures.anchored", "refuted" if bad_anchor else "proved",
                      "finite-enumeration(CPython)", 0.0, where=fi.where(), mode="table", func=fi.qualname,
                      detail="every alternative of the suffix pattern (normal and fallback) matches at the very end of the name only: "
                             "4 suffix lists x 3 stems x 16 suffixes x 7 tails with the real function",
                      witness=bad_anchor, confirmed=True if bad_anchor else None))
    fs = repo.func("fortls.regex_patterns.create_src_file_exts_str")
    esc = "[re.escape(ext) for ext in input_exts]" in ast.unparse(fs.node)
    items.append(Item("C18/create_src_file_exts_str/ensures.literal_suffixes", "proved" if esc else "refuted",
                      "structural", 0.0, where=fs.where(), mode="table", func=fs.qualname,
                      detail="configured suffixes are passed through re.escape", witness=None if esc else {"source": ast.unparse(fs.node)[-300:]}))
    # finite enumeration with the real regex: defaults in all letter cases, look-alikes, configured suffixes
    stems = ["a", "A.b", "x.f90", ".hidden", "n"]
    sufs = ["." + s for s in DEFAULT_SUFFIXES] + [".F", ".F90", ".For", ".fOR", ".FPP", ".fPp", ".f9", ".f900", ".f90.bak",
                                                   ".f90~", "f90", ".ff", ".py", ".f90 ", ".f9O", ".inc", ".h", ".a+b", ".x*", ".INC"]
    incls = [[], [".inc"], [".a+b", ".x*"], [".h", ".inc"]]
    bad = None
    n = 0
    for incl in incls:
        rx = create_src_file_exts_str(incl)
        for st_, su in itertools.product(stems, sufs):
            name = st_ + su
            n += 1
            got = rx.search(name) is not None
            if got != spec_suffix_ok(name, incl):
                bad = {"name": name, "incl_suffixes": incl, "regex_accepts": got, "spec_accepts": spec_suffix_ok(name, incl)}
                break
        if bad:
            break
    items.append(Item("C18/create_src_file_exts_str/ensures.suffix_ok", "refuted" if bad else "bounded-ok",
                      "finite-enumeration(CPython)", 0.0, where=fs.where(), mode="bounded", func=fs.qualname,
                      detail=f"bounded: {n} names (default suffixes in all cases, look-alikes, 4 configured suffix lists)",
                      witness=bad, confirmed=True if bad else None))
    # composition in serve_initialize: order of the steps
    si = repo.func(f"{LS}.serve_initialize")
    calls = [ast.unparse(n.func) for n in ast.walk(si.node) if isinstance(n, ast.Call)]
    order = [c for c in calls if c in ("self._load_config_file", "self._resolve_globs_in_paths", "self._add_source_dirs",
                                        "self.workspace_init", "self.source_dirs.add")]
    lines = {c: min(n.lineno for n in ast.walk(si.node) if isinstance(n, ast.Call) and ast.unparse(n.func) == c)
             for c in set(order)}
    want = ["self._load_config_file", "self.source_dirs.add", "self._resolve_globs_in_paths", "self._add_source_dirs",
            "self.workspace_init"]
    ok = all(c in lines for c in want) and [lines[c] for c in want] == sorted(lines[c] for c in want)
    body_txt = "\n".join(ast.unparse(s) for s in si.node.body)
    guard = ("search_root = not self.source_dirs" in body_txt and "if search_root:\n    self.source_dirs.add(self.root_path)" in body_txt
             and "if search_root:\n    self._add_source_dirs()" in body_txt
             and body_txt.index("search_root = not self.source_dirs") < body_txt.index("self._resolve_globs_in_paths()"))
    items.append(Item("C18/serve_initialize/ensures.composition", "proved" if ok and guard else "refuted", "structural",
                      0.0, where=si.where(), mode="table", func=si.qualname,
                      detail="configuration is loaded first; the root becomes a source directory, and is searched recursively, only "
                             "if no source directory was configured (decided before globs are resolved); then files are collected",
                      witness=None if ok and guard else {"call_lines": lines, "root_added_only_when_unconfigured": guard}))
    w = native_fs_search()
    items.append(Item("C18/session/native_file_systems", "refuted" if w else "bounded-ok", "native-run(bounded)", 0.0,
                      mode="bounded", witness=w, confirmed=True if w else None, func=f"{LS}._get_source_files",
                      detail="bounded: one directory tree (nested, empty, look-alike suffixes) x 10 configurations x "
                             "{configuration file, command line}; indexed set compared with the specification"))
    return items


def replay(obligation, model, rep):
    w = native_fs_search()
    return {"confirmed": True if w else None, "witness": w}


def search(func, tier, seed, obligation=""):
    return native_fs_search()
