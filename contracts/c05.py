"""C05 — go-to-definition follows Fortran's scoping and USE-association rules (lookup layer, DESIGN 3/C05).

  * check_scope (VCs, mode F, the recursion through unnamed interface blocks uses the function's own contract):
    the result is None or an object whose lower-cased name is the requested name and, when looked up through USE
    (filter_public), is not PRIVATE in the module: not (vis < 0 or (default-private module and vis <= 0)) —
    "a PRIVATE entity of a module is never the answer for a use outside that module";
  * find_in_scope (structure): local scope first, then INCLUDE statements, then the USE tree (each module looked up
    with filter_public=True, ONLY list respected, rename map applied), then the host scope, then ancestors;
  * climb_type_tree: bounded loop, every step resolves the next member in the type found (structure).
The merge of ONLY lists and renames along transitive USE chains (get_use_tree) and `%`-chain typing have no
specification short of re-implementing Fortran's rules: covered by the definition oracle (bounded) only.
"""
import ast

from pyvc import smt
from pyvc.smt import And, Or, Not, Implies, Ite, Eq, IntVal, StrVal, Len, Le, Lt, Ge, Gt, Add, Sub, Concat, At, Unit
from pyvc.types import *
from pyvc.contract import Contract, LoopSpec, Raises, FrameCall
from pyvc.results import Item

UTIL = "fortls.parsers.internal.utilities"
REFS = smt.SeqS("Ref")


def sp_lower(eng, st, s):
    return V(STR, eng.decls.fun("py_lower", [smt.STR], smt.STR)(s.t))


def sp_private_in(eng, st, c, def_vis):
    d = eng.decls
    ct = d.opt_val(c.t) if isinstance(c.ty, TOpt) else c.t
    vis = d.fun("Obj.vis", ["Ref"], smt.INT)(ct)
    return V(BOOL, Or(Lt(vis, IntVal(0)), And(Lt(def_vis.t, IntVal(0)), Le(vis, IntVal(0)))))


def sp_eff_vis(eng, st, scope, def_vis):
    """the default accessibility in force: the explicit one, else the scope's own"""
    d = eng.decls
    own = d.fun("Obj.def_vis", ["Ref"], smt.INT)(scope.t)
    if not isinstance(def_vis.ty, TOpt):
        return V(INT, def_vis.t)
    return V(INT, Ite(d.is_some(def_vis.t), d.opt_val(def_vis.t), own))


from contracts import inherit
def sp_is_function(eng, st, o):
    return V(BOOL, eng.decls.fun("is_function", ["Ref"], smt.BOOL)(o.t))


def sp_in_block(eng, st, o):
    d = eng.decls
    p = d.opt_val(o.t) if isinstance(o.ty, TOpt) else o.t
    return V(BOOL, d.fun("found_in_interface_block", ["Ref"], smt.BOOL)(p))


SPEC_ENV = {"in_block": sp_in_block, "is_function": sp_is_function, "lower": sp_lower, "private_in": sp_private_in, "eff_vis": sp_eff_vis, **inherit.SPEC_ENV}
AXIOMS = {}


def build(reg):
    rf = {("Obj", "name"): STR, ("Obj", "vis"): INT, ("Obj", "def_vis"): INT, ("Obj", "sline"): INT, ("Obj", "eline"): INT}
    rm = {("Obj", "get_children"): ([], TSeq(TRef("Obj")))}

    def m_isinstance_function(eng, st, node, args, kwargs):
        return V(BOOL, eng.decls.fun("is_function", ["Ref"], smt.BOOL)(args[0].t))

    def m_nested(eng, st, node, args, kwargs):
        # the recursive call (members of an unnamed interface block) through its own contract; what it returns is
        # marked as found inside a block (ghost predicate), direct children are not constrained
        v = eng.call_contracted(f"{UTIL}.find_in_scope.check_scope", "check_scope", node, st, args, kwargs)
        d = eng.decls
        st.assume(smt.Implies(d.is_some(v.t), d.fun("found_in_interface_block", ["Ref"], smt.BOOL)(d.opt_val(v.t))))
        return v

    reg.add(Contract(
        f"{UTIL}.find_in_scope.check_scope", prop="C05",
        params={"local_scope": TRef("Obj"), "var_name_lower": STR, "filter_public": BOOL, "var_line_number": TOpt(INT),
                "def_vis": TOpt(INT)},
        ref_fields=rf, ref_methods=rm, result=TOpt(TRef("Obj")),
        ensures=[("name", "implies(result is not None, lower(result.name) == var_name_lower)"),
                 ("not_private", "implies(result is not None and filter_public, "
                                 "not private_in(result, eff_vis(local_scope, old(def_vis))))"),
                 # on the FUNCTION and END FUNCTION statements the function's name is the function, not its result variable
                 ("function_name_on_its_own_statements",
                  "implies(is_function(local_scope) and lower(local_scope.name) == var_name_lower and "
                  "var_line_number is not None and (var_line_number == local_scope.sline or var_line_number == local_scope.eline), "
                  "result is None or in_block(result))")],
        calls={"check_scope": m_nested, "isinstance": m_isinstance_function},
        loops={0: LoopSpec("for child in local_scope.get_children()", index="_k", invariants=[("trivial", "True")])},
        abstract_stmts={"from .function import Function": ()}, ghost={"constants": {"Function": 0}},
        short="find_in_scope.check_scope", nested_in=f"{UTIL}.find_in_scope"))
    inherit.add(reg, "C05")
    return reg


TARGETS = [f"{UTIL}.find_in_scope.check_scope", f"{inherit.TYPE}._resolve_inherit_parent"]


def structure_items(repo):
    items = []
    fi = repo.func(f"{UTIL}.find_in_scope")
    body = [s for s in fi.node.body]
    src_lines = {}
    marks = {
        "local": "tmp_var = check_scope(scope, var_name_lower, var_line_number=var_line_number)",
        "include": "if scope.file_ast.include_statements:",
        "use": "use_dict = get_use_tree(scope, {}, obj_tree)",
        "host": "if scope.parent is not None and import_type != ImportTypes.NONE:",
        "ancestors": "for ancestor in scope.get_ancestors():",
    }
    for s_ in body:
        txt = ast.unparse(s_)
        for k, m in marks.items():
            if txt.startswith(m) and k not in src_lines:
                src_lines[k] = s_.lineno
    order = ["local", "include", "use", "host", "ancestors"]
    ok = all(k in src_lines for k in order) and [src_lines[k] for k in order] == sorted(src_lines[k] for k in order)
    from pyvc import shape
    sfi = shape.of(repo, f"{UTIL}.find_in_scope")
    ok_local = shape.has(sfi, "if local_only or tmp_var is not None:\n    return tmp_var")
    items.append(Item("C05/find_in_scope/ensures.order", "proved" if ok and ok_local else "refuted", "structural", 0.0,
                      where=fi.where(), mode="table", func=fi.qualname,
                      detail="a local declaration is returned before anything else; then INCLUDE, USE tree, host scope, ancestors",
                      witness=None if ok and ok_local else {"statement_lines": src_lines}))
    use_ok = (shape.has(sfi, "tmp_var = check_scope(use_scope, mod_name, filter_public=True)")
              and shape.has(sfi, "if len(use_info.only_list) > 0 and var_name_lower not in use_info.only_list:\n    continue")
              and shape.has(sfi, "mod_name = use_info.rename_map.get(var_name_lower, var_name_lower)"))
    items.append(Item("C05/find_in_scope/ensures.use_public_only", "proved" if use_ok else "refuted", "structural", 0.0,
                      where=fi.where(), mode="table", func=fi.qualname,
                      detail="objects reached through USE are looked up with filter_public=True, only if the ONLY list (when "
                             "present) names them, under the module-side name given by the rename map",
                      witness=None if use_ok else {"reason": "USE lookup no longer filters PRIVATE / ONLY / rename"}))
    fc = repo.func(f"{UTIL}.climb_type_tree")
    sfc = shape.of(repo, f"{UTIL}.climb_type_tree")
    ok = (any(isinstance(n, ast.For) and ast.unparse(n.iter) == "range(30)" for n in ast.walk(sfc))
          and shape.has(sfc, "type_obj = var_obj.get_type_obj(obj_tree)")
          and any(isinstance(n, ast.Assign) and isinstance(n.value, ast.Call) and ast.unparse(n.value.func) == "find_in_scope"
                  and len(n.value.args) >= 3 for n in ast.walk(sfc)))
    items.append(Item("C05/climb_type_tree/ensures.member_chain", "proved" if ok else "refuted", "structural", 0.0,
                      where=fc.where(), mode="table", func=fc.qualname,
                      detail="each link of a % chain is resolved starting in the declared type of the previous one, at most 30 links"))
    return items


# ------------------------------------------------------------------ definition oracle (bounded)
FILES = {
    "m1.f90": "module m1\n  implicit none\n  private\n  integer, public :: pub_a\n  integer, public :: pub_b\n  integer :: priv_c\n"
              "  type, public :: base_t\n    integer :: comp_base\n  end type base_t\n  type, extends(base_t), public :: ext_t\n    integer :: comp_ext\n  end type ext_t\n"
              "  interface\n    subroutine hidden_ext(a)\n      integer :: a\n    end subroutine hidden_ext\n  end interface\n  public :: pub_sub\ncontains\n"
              "  subroutine pub_sub(n)\n    integer :: n\n  end subroutine pub_sub\n  subroutine priv_sub()\n  end subroutine priv_sub\nend module m1\n",
    "m2.f90": "module m2\n  use m1, only: pub_a, rb => pub_b, ext_t\n  implicit none\n  integer :: shadowed\ncontains\n  subroutine outer()\n    integer :: shadowed\n"
              "    type(ext_t) :: obj\n    shadowed = pub_a + rb\n    obj%comp_base = 1\n    obj%comp_ext = 2\n    call inner()\n  contains\n    subroutine inner()\n"
              "      shadowed = 3\n    end subroutine inner\n  end subroutine outer\n  subroutine other()\n    shadowed = 4\n  end subroutine other\nend module m2\n",
    "m3.f90": "module m3\n  use m2\nend module m3\n",
    "m4.f90": "module m4\n  use m1, only: pub_a, base_t\n  implicit none\n  integer :: value_long\n  integer :: value\n  type holder\n    type(base_t) :: inner\n"
              "  end type holder\ncontains\n  subroutine s()\n    type(base_t) :: bb\n    type(holder) :: hh\n    value = pub_a\n    call pub_sub(1)\n"
              "    hh%inner%comp_base = 1\n  end subroutine s\nend module m4\n",
    "p.f90": "program pp\n  use m3\n  use m1\n  implicit none\n  integer :: pub_b_local\n  type(ext_t) :: ee\n  pub_a = 1\n  call pub_sub(2)\n  call priv_sub()\n  priv_c = 3\n"
             "  call hidden_ext(4)\n  shadowed = 5\n  call outer()\n  ee%base_t%comp_base = 6\nend program pp\n",
}
# (file, line, col) -> expected (file, line) of the declaration, or None
EXPECT = [
    ("m2.f90", 8, 4, ("m2.f90", 6)),      # shadowed inside outer -> local
    ("m2.f90", 8, 15, ("m1.f90", 3)),     # pub_a via USE only
    ("m2.f90", 8, 23, ("m1.f90", 4)),     # rb -> pub_b (rename)
    ("m2.f90", 9, 8, ("m1.f90", 7)),      # obj%comp_base (inherited)
    ("m2.f90", 10, 8, ("m1.f90", 10)),    # obj%comp_ext
    ("m2.f90", 14, 6, ("m2.f90", 6)),     # shadowed inside inner -> host outer's local
    ("m2.f90", 18, 4, ("m2.f90", 3)),     # shadowed in other -> module variable
    ("m4.f90", 12, 4, ("m4.f90", 4)),     # value, not the longer name declared before it
    ("m4.f90", 13, 9, None),              # pub_sub is not in the ONLY list
    ("m4.f90", 14, 7, ("m4.f90", 6)),     # hh%inner
    ("m4.f90", 14, 14, ("m1.f90", 7)),    # hh%inner%comp_base: two links
    ("p.f90", 13, 14, ("m1.f90", 7)),     # ee%base_t%comp_base: the parent type as a component
    ("p.f90", 6, 2, ("m1.f90", 3)),       # pub_a
    ("p.f90", 7, 7, ("m1.f90", 19)),      # pub_sub
    ("p.f90", 8, 7, None),                # priv_sub: PRIVATE
    ("p.f90", 9, 2, None),                # priv_c: PRIVATE
    ("p.f90", 10, 7, None),                # hidden_ext: unnamed interface in default-private module
    ("p.f90", 11, 2, ("m2.f90", 3)),      # shadowed re-exported through m3
    ("p.f90", 12, 7, ("m2.f90", 5)),      # outer through m3 -> m2
]


# INCLUDEd declarations named by PUBLIC/PRIVATE statements of the including module; EXTENDS( parent ) with blanks
FILES2 = {
    "decl1.f90": "integer :: inc_pub\ninteger :: inc_hidden\n",
    "decl2.f90": "integer :: inc_priv\ninteger :: inc_open\n",
    "i1.f90": "module i1\n  implicit none\n  private\n  include 'decl1.f90'\n  public :: inc_pub\nend module i1\n",
    "i2.f90": "module i2\n  implicit none\n  include 'decl2.f90'\n  PRIVATE :: Inc_Priv\nend module i2\n",
    "h2.f90": "module host2\n  implicit none\n  integer :: inc_priv\n  integer :: inc_hidden\ncontains\n  subroutine s1()\n    use i1\n    inc_pub = 1\n"
              "    inc_hidden = 2\n  end subroutine s1\n  subroutine s2()\n    use i2\n    inc_priv = 1\n    inc_open = 2\n  end subroutine s2\nend module host2\n",
    "tb.f90": "module tb\n  implicit none\n  type :: base\n    integer :: bx\n  end type base\n  type, extends( base ) :: child\n    integer :: cx\n  end type child\n"
              "  type , EXTENDS ( base ),public :: child2\n    integer :: cy\n  end type child2\ncontains\n  subroutine s3()\n    type(child) :: c\n"
              "    type(child2) :: d\n    c%bx = 1\n    d%bx = 2\n  end subroutine s3\nend module tb\n",
}
FILES2["fn.f90"] = ("module fm\n  implicit none\ncontains\n  function twice(n)\n    integer :: n\n    integer :: twice\n    twice = 2 * n\n"
                    "  end function twice\n  subroutine user()\n    integer :: k\n    k = twice(1)\n  end subroutine user\nend module fm\n")
EXPECT2 = [
    ("fn.f90", 3, 12, ("fn.f90", 3)),     # the name on the FUNCTION statement is the function
    ("fn.f90", 7, 16, ("fn.f90", 3)),     # ... and so is the name on the END FUNCTION statement
    ("fn.f90", 6, 5, ("fn.f90", 5)),      # inside the body it is the result variable
    ("fn.f90", 10, 9, ("fn.f90", 3)),     # a reference from another procedure
    ("h2.f90", 7, 4, ("decl1.f90", 0)),   # inc_pub: PUBLIC statement in a default-private module names an INCLUDEd entity
    ("h2.f90", 8, 4, ("h2.f90", 3)),      # inc_hidden stays private in i1: the host's own variable
    ("h2.f90", 12, 4, ("h2.f90", 2)),     # inc_priv: PRIVATE statement names an INCLUDEd entity -> the host's own variable
    ("h2.f90", 13, 4, ("decl2.f90", 1)),  # inc_open
    ("tb.f90", 15, 6, ("tb.f90", 3)),     # c%bx with `extends( base )`
    ("tb.f90", 16, 6, ("tb.f90", 3)),     # d%bx with ` , EXTENDS ( base ),public`
]
# finding: PRIVATE statement on a USE-associated name in a default-PUBLIC module that re-exports the rest
FILES3 = {
    "a.f90": "module a\n  implicit none\n  integer :: x, y\nend module a\n",
    "b.f90": "module b\n  use a\n  implicit none\n  private :: x\nend module b\n",
    "p.f90": "module host\n  implicit none\n  integer :: x\ncontains\n  subroutine s()\n    use b\n    x = 1\n    y = 2\n  end subroutine s\nend module host\n",
}
EXPECT3 = [("p.f90", 6, 4, ("p.f90", 2)), ("p.f90", 7, 4, ("a.f90", 2))]


def definition_oracle(FILES=FILES, EXPECT=EXPECT):
    from replay.harness import Workspace, session
    ws = Workspace(FILES)
    try:
        msgs = [{"jsonrpc": "2.0", "method": "textDocument/didOpen", "params": {"textDocument": {"uri": ws.uri(n)}}} for n in FILES]
        for k, (f, ln, ch, _) in enumerate(EXPECT):
            msgs.append({"jsonrpc": "2.0", "id": 100 + k, "method": "textDocument/definition",
                         "params": {"textDocument": {"uri": ws.uri(f)}, "position": {"line": ln, "character": ch}}})
        srv, out = session(ws, msgs)
        by_id = {m["id"]: m for m in out if "id" in m}
        for k, (f, ln, ch, want) in enumerate(EXPECT):
            r = by_id.get(100 + k, {})
            res = r.get("result")
            got = None
            if res:
                got = (res["uri"].rsplit("/", 1)[-1], res["range"]["start"]["line"])
            if got != want or "error" in r:
                return {"use_site": {"file": f, "line": ln, "character": ch, "text": FILES[f].split("\n")[ln]},
                        "expected_declaration": want, "returned": got, "error": r.get("error", {}).get("message")}
        return None
    finally:
        ws.close()


USE_SPELLINGS = [
    # (USE statement, {name used in the procedure: file of the declaration it binds to or None})
    ("use dep", {"aa": "dep", "bb": "dep", "cc": "dep"}),
    ("USE DEP", {"aa": "dep", "bb": "dep", "cc": "dep"}),
    ("use :: dep", {"aa": "dep", "bb": "dep", "cc": "dep"}),
    ("use, non_intrinsic :: dep", {"aa": "dep", "bb": "dep", "cc": "dep"}),
    ("use dep, only:", {"aa": "host", "bb": None, "cc": None}),
    ("use dep, only: ", {"aa": "host", "bb": None, "cc": None}),
    ("use dep , only :", {"aa": "host", "bb": None, "cc": None}),
    ("USE DEP, ONLY:", {"aa": "host", "bb": None, "cc": None}),
    ("use :: dep, only:", {"aa": "host", "bb": None, "cc": None}),
    ("use, non_intrinsic :: dep, only:", {"aa": "host", "bb": None, "cc": None}),
    ("use dep, only: ! nothing at all", {"aa": "host", "bb": None, "cc": None}),
    ("use dep, only: bb", {"aa": "host", "bb": "dep", "cc": None}),
    ("use dep,only:bb", {"aa": "host", "bb": "dep", "cc": None}),
    ("use dep, only: BB ! cc", {"aa": "host", "bb": "dep", "cc": None}),
    ("use dep, only: bb, cc", {"aa": "host", "bb": "dep", "cc": "dep"}),
    ("use dep, only: cc,bb", {"aa": "host", "bb": "dep", "cc": "dep"}),
    ("use dep, only: aa", {"aa": "dep", "bb": None, "cc": None}),
    ("use dep, only: loc => bb", {"aa": "host", "bb": None, "cc": None, "loc": "dep"}),
    ("use dep, only: loc=>bb, cc", {"aa": "host", "bb": None, "cc": "dep", "loc": "dep"}),
    ("use dep, loc => bb", {"aa": "dep", "bb": None, "cc": "dep", "loc": "dep"}),
    ("use dep, loc=>bb, loc2 => aa", {"aa": "host", "bb": None, "cc": "dep", "loc": "dep", "loc2": "dep"}),
]


def use_spelling_oracle():
    """What a USE statement makes accessible, spelling by spelling (whole module, ONLY lists incl. the empty one, renames
    with and without ONLY): each name used in the procedure binds to the used module's entity, to the host's own
    declaration, or to nothing."""
    from replay.harness import Workspace, session
    dep = "module dep\n  implicit none\n  integer :: aa\n  integer :: bb\n  integer :: cc\nend module dep\n"
    files, sites = {"dep.f90": dep}, []
    for k, (stmt, want) in enumerate(USE_SPELLINGS):
        names = sorted(want)
        lines = [f"module host{k}", "  implicit none", "  integer :: aa", "contains", "  subroutine s()", "    " + stmt]
        for n in names:
            sites.append((f"host{k}.f90", len(lines), 4, stmt, n, want[n]))
            lines.append(f"    {n} = 1")
        lines += ["  end subroutine s", f"end module host{k}"]
        files[f"host{k}.f90"] = "\n".join(lines) + "\n"
    ws = Workspace(files)
    try:
        msgs = [{"jsonrpc": "2.0", "method": "textDocument/didOpen", "params": {"textDocument": {"uri": ws.uri(n)}}} for n in files]
        for i, (f, ln, ch, _, _, _) in enumerate(sites):
            msgs.append({"jsonrpc": "2.0", "id": 100 + i, "method": "textDocument/definition",
                         "params": {"textDocument": {"uri": ws.uri(f)}, "position": {"line": ln, "character": ch}}})
        srv, out = session(ws, msgs)
        by_id = {m["id"]: m for m in out if "id" in m}
        for i, (f, ln, ch, stmt, n, want) in enumerate(sites):
            r = by_id.get(100 + i, {})
            res = r.get("result")
            got = None
            if res:
                base = res["uri"].rsplit("/", 1)[-1]
                got = "dep" if base == "dep.f90" else ("host" if base == f else base)
            if got != want or "error" in r:
                return {"use_statement": stmt, "name": n, "expected_declaration_in": want, "resolved_in": got,
                        "error": r.get("error", {}).get("message"), "files": {"dep.f90": dep, f: files[f]}}
        return None, len(sites)
    finally:
        ws.close()


def ownership_items(repo):
    """get_use_tree combines the ONLY lists and rename maps of the USE statements it walks; the parsed statements
    belong to the index and must not change during a lookup.  Every container get_use_tree mutates in place
    (add/discard/pop/update/item assignment on merged_use_list / merged_rename) is one it created on that path (a
    copy, a literal or the result of a call), never the statement's own list or map."""
    from contracts.c11 import assigned_names
    fi = repo.func(f"{UTIL}.get_use_tree")
    bad, checked = [], 0
    MUT = {"add", "discard", "remove", "pop", "update", "clear", "append", "extend", "setdefault", "popitem"}
    WATCH = {"merged_use_list", "merged_rename"}

    def scan(stmts, fresh):
        nonlocal checked
        cur = set(fresh)
        for st_ in stmts:
            if isinstance(st_, (ast.For, ast.While)):
                scan(st_.body, cur if isinstance(st_, ast.While) else cur)
                continue
            if isinstance(st_, ast.If):
                scan(st_.body, cur)
                scan(st_.orelse, cur)
            elif isinstance(st_, (ast.With, ast.Try)):
                scan(st_.body, cur)
            else:
                for n in ast.walk(st_):
                    tgt = None
                    if isinstance(n, ast.Call) and isinstance(n.func, ast.Attribute) and n.func.attr in MUT and isinstance(n.func.value, ast.Name):
                        tgt = n.func.value.id
                    if isinstance(n, (ast.Assign, ast.AugAssign)):
                        for t in (n.targets if isinstance(n, ast.Assign) else [n.target]):
                            if isinstance(t, ast.Subscript) and isinstance(t.value, ast.Name):
                                tgt = t.value.id
                    if tgt in WATCH:
                        checked += 1
                        if tgt not in cur:
                            bad.append({"container": tgt, "mutation": ast.unparse(n)[:80], "where": fi.where(n)})
            cur = assigned_names([st_], cur)
    for loop in [n for n in fi.node.body if isinstance(n, ast.For)]:
        scan(loop.body, set())
    ok = checked > 0 and not bad
    return [Item("C05/get_use_tree/ownership.statement_lists_not_mutated", "proved" if ok else "refuted", "structural", 0.0,
                 where=fi.where(), mode="table", func=fi.qualname,
                 detail=f"{checked} in-place mutations of merged_use_list / merged_rename: each acts on a container created on that "
                        "path (copy, literal or call result), so the parsed USE statements are never modified by a lookup",
                 witness=None if ok else {"mutations_of_shared_containers": bad[:4], "mutations_checked": checked})]


def extra(repo, reg, tier, seed):
    items = structure_items(repo) + ownership_items(repo)
    w = definition_oracle()
    it = Item("C05/session/native_definition_oracle", "refuted" if w else "bounded-ok", "native-run(bounded)", 0.0, mode="bounded",
              witness=w, confirmed=True if w else None, func=f"{UTIL}.find_in_scope",
              detail=f"bounded: {len(EXPECT)} use sites in a five-file program (shadowing in nested procedures, USE with ONLY and "
                     "rename, re-export through a third module, PRIVATE entities incl. an unnamed interface in a default-private "
                     "module, inherited components through %): definition lands on the expected declaration or nowhere")
    it.count = len(EXPECT)
    items.append(it)
    w = definition_oracle(FILES2, EXPECT2)
    it = Item("C05/session/native_included_and_extended_declarations", "refuted" if w else "bounded-ok", "native-run(bounded)", 0.0,
              mode="bounded", witness=w, confirmed=True if w else None, func="fortls.parsers.internal.ast.FortranAST.resolve_includes",
              detail=f"bounded: {len(EXPECT2)} use sites: PUBLIC/PRIVATE statements naming INCLUDEd entities (default-private and "
                     "default-public includer, other spelling of the name), EXTENDS( parent ) written with blanks")
    it.count = len(EXPECT2)
    items.append(it)
    w = definition_oracle(FILES3, EXPECT3)
    it = Item("C05/session/native_private_statement_on_imported_name", "refuted" if w else "bounded-ok", "native-run(bounded)", 0.0,
              mode="bounded", witness=w, confirmed=True if w else None, func=f"{UTIL}.get_use_tree",
              detail="bounded: `private :: x` in a default-PUBLIC module that USEs the module declaring x: x is not re-exported, "
                     "everything else is")
    it.count = len(EXPECT3)
    items.append(it)
    w = use_spelling_oracle()
    n_sp = 0
    if isinstance(w, tuple):
        w, n_sp = w
    it = Item("C05/read_use_stmt/lemma.use_statement_grammar", "refuted" if w else "bounded-ok", "native-run(bounded)", 0.0,
              mode="bounded", witness=w, confirmed=True if w else None, func="fortls.parsers.internal.parser.read_use_stmt",
              detail=f"bounded: {len(USE_SPELLINGS)} spellings of the USE statement (whole module, ONLY lists including the empty "
                     f"one, renames with and without ONLY, optional ::, nature, blanks, case, trailing comment), {n_sp} names: each "
                     "binds to the used module's entity, to the host's declaration, or to nothing")
    it.count = n_sp
    items.append(it)
    w = inherit.native_search()
    items.append(Item("C05/session/native_inheritance_orders", "refuted" if w else "bounded-ok", "native-run(bounded)", 0.0, mode="bounded",
                      witness=w, confirmed=True if w else None, func=f"{inherit.TYPE}._resolve_inherit_parent",
                      detail="bounded: a three-level EXTENDS chain over four files, all 24 orders of linking the files with the real "
                             "parser and resolve_links: every type's members are its own plus its ancestors' minus the overridden"))
    from contracts import c05_gen
    w, n, ns = c05_gen.run(tier, seed)
    it = Item("C05/session/generated_program_oracle", "refuted" if w else "bounded-ok", "native-run(bounded)", 0.0, mode="bounded",
              witness=w, confirmed=True if w else None, func=f"{UTIL}.get_use_tree",
              detail=f"bounded: {n} generated multi-file programs (2-4 modules in a USE DAG with ONLY lists, renames, default and "
                     f"explicit accessibility, re-export, procedure-level USE, shadowing in module and internal procedures, EXTENDS), "
                     f"{ns} use sites each with exactly one accessible declaration by construction, plus uses of PRIVATE entities "
                     "of other modules that must resolve nowhere")
    it.count = ns
    items.append(it)
    return items


def replay(obligation, model, rep):
    w = definition_oracle()
    return {"confirmed": True if w else None, "witness": w}


def search(func, tier, seed, obligation=""):
    if func.endswith("_resolve_inherit_parent"):
        return inherit.native_search()
    w = definition_oracle() or definition_oracle(FILES2, EXPECT2)
    if w:
        return w
    from contracts import c05_gen
    return c05_gen.run(tier, seed)[0]


TRUSTED = ["objects are immutable references inside the VCs; the recursive call of check_scope is used through its own contract "
           "(induction on the children tree; termination is C20's)"]
ASSUMPTIONS = ["isinstance(local_scope, Function) is an uninterpreted predicate"]
RESIDUAL = ("transitive ONLY/rename intersection in get_use_tree, re-export accessibility and %-chain typing are decided only "
            "on the bounded oracle; 'bound to the declaration Fortran prescribes' in general needs a model of the language")
