"""C17 — indexing never executes or writes anything on behalf of file contents (mode E, whole package).

Effect contract of the package: every function has effects within
  {read files, debug log under the root, version check + pip when not disable_autoupdate, multiprocessing}.
Obligations, regenerated from the current source on every run:
  * sink inventory: every call of a code-execution / process / deserialisation / file-modification primitive in
    the package is either (a) allowed by the table below *with arguments of the allowed shape* (literals,
    sys.executable, the root path), or (b) a failed obligation whose witness is the call and a call path from
    LangServer.run (or file_init) to it;
  * dynamic escape hatches (getattr/setattr/globals/__import__/importlib with non-constant names, calls of
    computed values) are listed and must match the committed allow-list.
"""
import ast

from pyvc.results import Item
from pyvc.effects import Effects

LS = "fortls.langserver.LangServer"

EXEC_SINKS = {"eval", "exec", "compile", "__import__", "execfile", "input"}
EXEC_PREFIXES = ("os.system", "os.popen", "os.exec", "os.spawn", "os.startfile", "subprocess.", "pickle.", "marshal.",
                 "shelve.", "ctypes.", "importlib.", "runpy.", "code.", "pty.", "commands.", "multiprocessing.Process",
                 "dill.", "yaml.load", "jsonpickle.")
WRITE_PREFIXES = ("os.remove", "os.unlink", "os.rename", "os.replace", "os.mkdir", "os.makedirs", "os.rmdir",
                  "os.removedirs", "os.chmod", "os.chown", "os.symlink", "os.link", "os.truncate", "os.utime",
                  "shutil.", "tempfile.", "logging.FileHandler", "logging.handlers.")
WRITE_METHODS = {"write_text", "write_bytes", "unlink", "mkdir", "rmdir", "rename", "replace", "touch", "chmod",
                 "symlink_to", "hardlink_to", "writelines", "truncate"}
NET_PREFIXES = ("socket.", "urllib.request.urlopen", "urllib.request.urlretrieve", "http.client.", "ftplib.",
                "smtplib.", "requests.", "socketserver.")


def _const_str(n):
    return isinstance(n, ast.Constant) and isinstance(n.value, str)


def _open_mode(call: ast.Call):
    mode = None
    if len(call.args) >= 2:
        mode = call.args[1]
    for kw in call.keywords:
        if kw.arg == "mode":
            mode = kw.value
    if mode is None:
        return "r"
    if _const_str(mode):
        return mode.value
    return None  # not a literal: cannot be shown read-only


def _names_in(node):
    return {ast.unparse(n) for n in ast.walk(node) if isinstance(n, (ast.Name, ast.Attribute))}


def allowed(q: str, sink: str, call: ast.Call, fe):
    """Is this sink occurrence within the effect contract?  Returns (ok, reason)."""
    if sink.startswith("subprocess.") and q.startswith(LS + "."):
        # wherever in the server it is made: a command line built from literals and the interpreter path only
        if call.args and isinstance(call.args[0], ast.List):
            ok = all(_const_str(e) or ast.unparse(e) == "sys.executable" for e in call.args[0].elts)
            shell = any(kw.arg == "shell" for kw in call.keywords)
            pip = [e.value for e in call.args[0].elts if _const_str(e)][:3] == ["-m", "pip", "install"]
            if ok and pip and not shell:
                return True, "pip self-update: argument vector of literals and sys.executable, no shell"
        return False, "subprocess call whose argument vector is not made of literals"
    if sink == "urllib.request.urlopen" and q == f"{LS}._update_version_pypi":
        return True, "version check (URL fixed by a literal Request in the same function)"
    if sink in ("logging.basicConfig",):
        for kw in call.keywords:
            if kw.arg == "filename":
                # the file name is <root>/<literal>.log, whatever the locals are called
                fn = fe.info.node

                def reaching(name, before):
                    """the assignment to `name` that textually precedes line `before` most closely (the function is straight
                    line code around the call; a computed value anywhere on the way is not a literal and fails the rule)"""
                    cands = [n for n in ast.walk(fn) if isinstance(n, ast.Assign) and len(n.targets) == 1
                             and isinstance(n.targets[0], ast.Name) and n.targets[0].id == name and n.lineno < before]
                    return max(cands, key=lambda n: n.lineno) if cands else None

                def literal_log(e, at, depth=0):
                    if _const_str(e):
                        return e.value.endswith(".log") and "/" not in e.value and ".." not in e.value
                    if isinstance(e, ast.Name) and depth < 3:
                        a = reaching(e.id, at)
                        return a is not None and literal_log(a.value, a.lineno, depth + 1)
                    return False

                def root_log(e, at, depth=0):
                    if (isinstance(e, ast.Call) and ast.unparse(e.func) == "os.path.join" and len(e.args) == 2
                            and ast.unparse(e.args[0]) == "self.root_path"):
                        return literal_log(e.args[1], at)
                    if isinstance(e, ast.Name) and depth < 3:
                        a = reaching(e.id, at)
                        return a is not None and root_log(a.value, a.lineno, depth + 1)
                    return False
                if q.startswith(LS + ".") and root_log(kw.value, call.lineno):
                    return True, "debug log: <root>/<literal>.log"
                return False, "log file name not of the form <root>/<literal>.log"
        return True, "console logging"
    if sink == "open" or sink.endswith(".open"):
        mode = _open_mode(call)
        if mode is not None and not any(c in mode for c in "wax+"):
            return True, f"read-only open (mode {mode!r})"
        return None, f"open() for writing or with a computed mode ({ast.unparse(call)[:80]})"
    return False, "not in the effect contract"


def extra(repo, reg, tier, seed):
    eff = Effects(repo)
    roots = [f"{LS}.run", f"{LS}.file_init", "fortls.main"]
    pred = eff.reachable([r for r in roots if r in eff.funcs])
    # handlers are dispatched through a table: add every method of LangServer as a root as well
    for q in list(eff.funcs):
        if q.startswith(LS + ".") and q.count(".") == LS.count(".") + 1:
            for k, v in eff.reachable([q]).items():
                pred.setdefault(k, v if v is not None else f"{LS}.handle")
    items = []
    inventory = []
    for q, fe in sorted(eff.funcs.items()):
        for name, call in fe.externals:
            kind = None
            base = name.split(".")[-1]
            if name in EXEC_SINKS or name.startswith(EXEC_PREFIXES):
                kind = "exec"
            elif name.startswith(WRITE_PREFIXES) or (name.startswith("<obj>.") and base in WRITE_METHODS
                                                     and not (base == "replace" and len(call.args) >= 2)):
                kind = "write"
            elif name == "open" or name.endswith(".open") and not name.startswith("<obj>"):
                kind = "open"
            elif name.startswith(NET_PREFIXES):
                kind = "net"
            elif name == "logging.basicConfig":
                kind = "log"
            if kind is None:
                continue
            if name == "re.compile" or name.endswith("re.compile"):
                continue
            inventory.append((q, name, call, kind, fe))
    n_ok = 0
    for q, name, call, kind, fe in inventory:
        reachable = q in pred
        ok, why = allowed(q, name, call, fe)
        oname = f"C17/{q.replace('fortls.', '')}/effects.{kind}[{name}]"
        where = fe.info.where(call)
        if ok:
            items.append(Item(oname, "proved", "frame-analysis", 0.0, where=where, mode="E", func=q, detail=why))
            n_ok += 1
        elif ok is None and not reachable:
            items.append(Item(oname, "proved", "frame-analysis", 0.0, where=where, mode="E", func=q,
                              detail=why + "; not reachable from LangServer.run / file_init / main"))
        else:
            path = eff.path(pred, q) if reachable else ["(not reachable from the server entry points)", q]
            items.append(Item(oname, "refuted", "frame-analysis", 0.0, where=where, mode="E", func=q, detail=why,
                              witness={"sink": name, "call": ast.unparse(call)[:200], "in": q, "call_path": path,
                                       "argument_names": sorted(_names_in(call))[:12]}))
    # dynamic escape hatches
    dyn = []
    for q, fe in sorted(eff.funcs.items()):
        for what, node in fe.dynamic:
            dyn.append((q, what, fe.info.where(node)))
    allowed_dyn = {
        ("fortls.parsers.internal.scope.Scope.copy_from", "setattr"),
        ("fortls.langserver.LangServer.__init__", "setattr"),
        ("fortls.interface.SetAction.__call__", "setattr"),
        ("fortls.langserver.LangServer.handle", "call of local value handler"),
        ("fortls.jsonrpc.JSONRPC2Connection.read_message", "call of local value want"),
        ("fortls.jsonrpc.deque_find_and_pop", "call of local value f"),
        ("fortls.parsers.internal.parser.FortranFile.parse", "call of local value fortran_def"),
        ("fortls.parsers.internal.parser.FortranFile.apply_change.check_change_reparse", "call of local value test"),
        ("fortls.main", "vars"),
        ("fortls.parsers.internal.base.FortranObj.links_back", "getattr"),  # field name is one of three literals
        ("fortls.parsers.internal.parser.eval_pp_expr.ev", "call of Subscript"),  # table of operator.* functions
        # def_regexes holds compiled patterns and the `substitute` closures made by expand_func_macro in the same function
        ("fortls.parsers.internal.parser.preprocess_file", "call of local value def_regex"),
    }
    bad_dyn = [(q, w, wh) for q, w, wh in dyn if (q, w) not in allowed_dyn and not q.startswith("fortls.debug")]
    items.append(Item("C17/package/effects.no_dynamic_dispatch", "refuted" if bad_dyn else "proved", "frame-analysis",
                      0.0, mode="E", detail=f"{len(dyn)} dynamic constructs in the package, all on the reviewed list "
                      "(setattr with dict keys of settings, dispatch through the handler table / def_tests list)",
                      witness=[{"in": q, "what": w, "where": wh} for q, w, wh in bad_dyn][:8] or None))
    # vacuity guard: the inventory must see the sinks that are known to exist
    seen = {n for _, n, _, _, _ in inventory}
    must = {"subprocess.run", "logging.basicConfig", "open"}
    items.append(Item("C17/package/inventory.nonempty", "proved" if must <= seen else "error", "frame-analysis", 0.0,
                      mode="E", detail=f"sink inventory has {len(inventory)} entries: {sorted(seen)}"))
    # native witness: audit hooks while a real server indexes a hostile workspace (bounded)
    w = hostile_workspace()
    items.append(Item("C17/session/native_audit", "refuted" if w else "bounded-ok", "native-run(bounded)", 0.0,
                      mode="bounded", witness=w, confirmed=True if w else None,
                      detail="bounded: one hostile workspace (macro bodies and #if conditions with python expressions, "
                             "config file with such strings) indexed and queried under sys.addaudithook"))
    return items


def hostile_workspace():
    """Index a workspace whose files try to get code executed / files written; observe audit events."""
    import os
    import sys
    from replay.harness import Workspace, session
    ws = Workspace({
        "a.F90": "#define X __import__('os').system('echo PWNED > pwned.txt')\n#if X\ninteger :: a\n#endif\n"
                 "#define Y open('pwned2.txt','w').write('x')\n#if Y || defined(X)\nprogram p\nend program p\n#endif\n"
                 "#if __import__('os').system('touch pwned3.txt')\n#endif\n",
        "inc.h": "#define Z eval(\"1\")\n",
        ".fortlsrc": '{"pp_defs": {"Q": "__import__(\'os\').system(\'touch pwned4.txt\')"}, "nthreads": 1}',
        "b.F90": "#if Q\nmodule m\nend module m\n#endif\n#include \"inc.h\"\n#if Z\n#endif\n",
    })
    events = []
    active = [True]

    def hook(event, args):
        if not active[0]:
            return
        if event == "exec":
            # module imports exec code objects that come from files; eval()/exec() of text has no file
            code = args[0] if args else None
            fname = getattr(code, "co_filename", "")
            caller = sys._getframe(1).f_code.co_filename
            if fname.startswith("<") and not fname.startswith("<frozen") and (os.sep + "fortls" + os.sep) in caller:
                # text compiled and executed directly by a function of the package (stdlib helpers such as
                # namedtuple/dataclass code generation are not on behalf of file contents)
                events.append((event, f"code object from {fname} executed by {caller}: names "
                                      f"{getattr(code, 'co_names', ())[:6]}"))
        elif event in ("os.system", "subprocess.Popen", "os.exec", "os.spawn", "os.posix_spawn", "pty.spawn"):
            events.append((event, str(args)[:120]))
        elif event == "open":
            path, mode = args[0], args[1]
            if isinstance(mode, str) and any(c in mode for c in "wax+") and isinstance(path, str) \
                    and path.startswith(ws.root):
                events.append((event, f"{path} mode={mode}"))

    sys.addaudithook(hook)
    try:
        before = set(os.listdir(ws.root))
        cwd = os.getcwd()
        os.chdir(ws.root)
        try:
            uri = ws.uri("a.F90")
            session(ws, [
                {"jsonrpc": "2.0", "method": "textDocument/didOpen", "params": {"textDocument": {"uri": uri}}},
                {"jsonrpc": "2.0", "id": 1, "method": "textDocument/hover",
                 "params": {"textDocument": {"uri": uri}, "position": {"line": 0, "character": 9}}},
                {"jsonrpc": "2.0", "id": 2, "method": "textDocument/documentSymbol", "params": {"textDocument": {"uri": uri}}},
            ])
        finally:
            os.chdir(cwd)
        after = set(os.listdir(ws.root))
    finally:
        active[0] = False
        ws.close()
    new = sorted(after - before)
    if events or new:
        return {"audit_events": events[:6], "files_created": new}
    return None


TARGETS = []
SPEC_ENV = {}
AXIOMS = {}


def build(reg):
    return reg


def replay(obligation, model, rep):
    w = hostile_workspace()
    return {"confirmed": bool(w), "witness": w}


TRUSTED = ["third-party json5 (pure parser) and CPython stdlib internals (re's own compile, multiprocessing's "
           "pickling of objects fortls itself created)",
           "the call graph resolves method calls by name over the package (over-approximation); the reviewed list of "
           "dynamic constructs is part of the trusted base"]
ASSUMPTIONS = ["the package is not monkey-patched; names resolve lexically"]
RESIDUAL = "resource exhaustion (regex backtracking, huge integer arithmetic in #if) is not an effect in this sense"
