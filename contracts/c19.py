"""C19 — command line and configuration file are interchangeable; the file wins.

Per option o of the (mechanically extracted) option table: present in the file => self.o is the file's value
(through set() for the set-valued ones); absent => unchanged.  A missing / unreadable / syntactically invalid /
wrongly-shaped file yields a message and leaves every option unchanged; no exception escapes the loader.
"""
import ast

from pyvc import smt
from pyvc.smt import And, Or, Not, Implies, Ite, Eq, IntVal, StrVal
from pyvc.types import *
from pyvc.contract import Contract, LoopSpec, Raises, FrameCall
from pyvc.results import Item
from pyvc.source import Repo

LS = "fortls.langserver.LangServer"
LOADERS = ["_load_config_file_dirs", "_load_config_file_general", "_load_config_file_preproc"]
SET_OPTIONS = {"excl_paths", "source_dirs", "incl_suffixes", "excl_suffixes", "include_dirs"}
CLI_ONLY = {"help", "version", "config"}


def option_table(repo: Repo) -> list[str]:
    """dests of cli() read from the AST of interface.py, minus CLI-only and debug_* options."""
    mod = repo.modules["fortls.interface"]
    dests = []
    for n in ast.walk(mod.tree):
        if isinstance(n, ast.Call) and isinstance(n.func, ast.Attribute) and n.func.attr == "add_argument":
            dest = None
            for kw in n.keywords:
                if kw.arg == "dest" and isinstance(kw.value, ast.Constant):
                    dest = kw.value.value
            if dest is None:
                for a in n.args:
                    if isinstance(a, ast.Constant) and isinstance(a.value, str) and a.value.startswith("--"):
                        dest = a.value[2:].replace("-", "_")
                        break
            if dest and dest not in dests:
                dests.append(dest)
    return [d for d in dests if d not in CLI_ONLY and (not d.startswith("debug_") or d == "debug_log")]


def loader_statements(repo: Repo):
    """{option: [(loader, form)]} for statements `self.o = [set(]config_dict.get("o", <default>)[)]`."""
    out = {}
    for ld in LOADERS:
        fi = repo.func(f"{LS}.{ld}")
        for n in ast.walk(fi.node):
            if not isinstance(n, (ast.Assign, ast.AnnAssign)):
                continue
            tgt = n.targets[0] if isinstance(n, ast.Assign) else n.target
            if not (isinstance(tgt, ast.Attribute) and isinstance(tgt.value, ast.Name) and tgt.value.id == "self"):
                continue
            val = n.value
            wrapped = False
            if isinstance(val, ast.Call) and isinstance(val.func, ast.Name) and val.func.id == "set" and len(val.args) == 1:
                val = val.args[0]
                wrapped = True
            if (isinstance(val, ast.Call) and isinstance(val.func, ast.Attribute) and val.func.attr == "get"
                    and ast.unparse(val.func.value) == "config_dict" and val.args
                    and isinstance(val.args[0], ast.Constant)):
                key = val.args[0].value
                default = ast.unparse(val.args[1]) if len(val.args) > 1 else None
                out.setdefault(tgt.attr, []).append((ld, key, default, wrapped, fi.where(n)))
    return out


def attribute_read_anywhere(repo: Repo, name: str) -> bool:
    for mod in repo.modules.values():
        if mod.name == "fortls.interface":
            continue
        for n in ast.walk(mod.tree):
            if isinstance(n, ast.Attribute) and n.attr == name and isinstance(n.ctx, ast.Load):
                return True
    return False


# ------------------------------------------------------------------ spec functions
def sp_is_dict(eng, st, j):
    return V(BOOL, eng.decls.fun("json_is_dict", [j.t.sort], smt.BOOL)(j.t))


def sp_is_list(eng, st, j):
    return V(BOOL, eng.decls.fun("json_is_list", [j.t.sort], smt.BOOL)(j.t))


def sp_jset(eng, st, j):
    return V(JSON, eng.decls.fun("json_set", [j.t.sort], j.t.sort)(j.t))


def sp_iterable(eng, st, j):
    return V(BOOL, eng.decls.fun("json_iterable", [j.t.sort], smt.BOOL)(j.t))


def sp_is_set(eng, st, j):
    eng.ensure_axioms("json_set")
    return V(BOOL, eng.decls.fun("json_is_set", [j.t.sort], smt.BOOL)(j.t))


def json_set_axioms(eng):
    d = eng.decls
    js = sort_of(JSON, d)
    x = smt.BoundVar("jx", js)
    is_set = d.fun("json_is_set", [js], smt.BOOL)
    jset = d.fun("json_set", [js], js)
    it = d.fun("json_iterable", [js], smt.BOOL)
    d.axiom("set.fixpoint", smt.Forall([x], Implies(is_set(x), Eq(jset(x), x)), [jset(x)]))
    d.axiom("set.is_set", smt.Forall([x], is_set(jset(x)), [jset(x)]))
    d.axiom("set.iterable", smt.Forall([x], Implies(is_set(x), it(x)), [is_set(x)]))


SPEC_ENV = {"is_set": sp_is_set, "is_dict": sp_is_dict, "is_list": sp_is_list, "jset": sp_jset, "iterable": sp_iterable}
AXIOMS = {"json_set": json_set_axioms}

_REPO = None
OPTIONS: list[str] = []
BY_LOADER: dict[str, list[str]] = {}


def option_fields():
    f = {f"self.{o}": JSON for o in OPTIONS}
    f["self.sync_type"] = INT
    f["self.FORTRAN_SRC_EXT_REGEX"] = JSON
    f["self.msgs"] = INT  # ghost: number of window/showMessage notifications sent
    f["self.config"] = STR
    f["self.root_path"] = STR
    return f


def conv(o, src="config_dict"):
    return f"jset({src}['{o}'])" if o in SET_OPTIONS else f"{src}['{o}']"


def loaded_clauses(opts, src="config_dict"):
    out = []
    for o in opts:
        if o == "pp_defs":
            out.append((f"present[{o}]", f"implies('{o}' in {src} and not is_list({src}['{o}']), self.{o} == {src}['{o}'])"))
        else:
            out.append((f"present[{o}]", f"implies('{o}' in {src}, self.{o} == {conv(o, src)})"))
        out.append((f"absent_unchanged[{o}]", f"implies('{o}' not in {src}, self.{o} == old(self.{o}))"))
    return out


def build(reg):
    global _REPO, OPTIONS, BY_LOADER
    _REPO = Repo()
    OPTIONS = option_table(_REPO)
    stmts = loader_statements(_REPO)
    BY_LOADER = {ld: [] for ld in LOADERS}
    for o, lst in stmts.items():
        for (ld, key, default, wrapped, where) in lst:
            if o in OPTIONS and o not in BY_LOADER[ld]:
                BY_LOADER[ld].append(o)
    fields = option_fields()

    def post_message(eng, st, node, args, kwargs):
        cur = eng.heap_get(st, ("self", "msgs"))
        eng.heap_set(st, ("self", "msgs"), V(INT, smt.Add(cur.t, IntVal(1))))
        return NoneV()
    post_message.modifies = ["self.msgs"]

    for ld in LOADERS:
        mine = BY_LOADER[ld]
        others = [o for o in OPTIONS if o not in mine]
        set_req = [(f"iterable[{o}]", f"implies('{o}' in config_dict, iterable(config_dict['{o}']))")
                   for o in mine if o in SET_OPTIONS]
        ens = loaded_clauses(mine)
        ens += [(f"frame[{o}]", f"self.{o} == old(self.{o})") for o in others]
        if ld == "_load_config_file_general":
            ens.append(("sync_type", "self.sync_type == (2 if self.incremental_sync else 1)"))
        ens.append(("silent", "self.msgs == old(self.msgs)"))
        reg.add(Contract(
            f"{LS}.{ld}", prop="C19", receiver_cls="LangServer", params={"config_dict": JSON}, fields=fields,
            requires=[("is_dict", "is_dict(config_dict)")] + set_req
            + [(f"inv.is_set[{o}]", f"is_set(self.{o})") for o in sorted(SET_OPTIONS)]
            + [("inv.pp_defs_dict", "not is_list(self.pp_defs)")],
            ensures=ens, modifies=[f"self.{o}" for o in mine] + (["self.sync_type"] if "general" in ld else [])
            + (["self.FORTRAN_SRC_EXT_REGEX"] if "dirs" in ld else []),
            calls={"create_src_file_exts_str": FrameCall(result=JSON)},
            short=f"LangServer.{ld}"))

    # _load_config_file: the file-system and the JSON5 parser are abstracted by ghost inputs
    def isfile(eng, st, node, args, kwargs):
        k = getattr(eng, "_isfile_k", 0)
        eng._isfile_k = k + 1
        return st.env[f"present{k}"]

    def join(eng, st, node, args, kwargs):
        return V(STR, eng.decls.fresh("joined", smt.STR))

    def open_(eng, st, node, args, kwargs):
        # open(path): a handle, FileNotFoundError, or another OSError (permissions, a directory, ...)
        ok = st.env["fs_readable"].t
        gone = st.env["fs_vanished"].t
        eng.may_raise(st, Or(ok, Not(gone)), "FileNotFoundError", "open(config_path)")
        eng.may_raise(st, ok, "PermissionError", "open(config_path)")
        return V(JSON, eng.decls.fresh("handle", sort_of(JSON, eng.decls)))

    def json5_load(eng, st, node, args, kwargs):
        eng.may_raise(st, st.env["parse_ok"].t, "ValueError", "json5.load(jsonfile)")
        return st.env["parsed"]

    opts = [o for ld in LOADERS for o in BY_LOADER[ld]]
    unchanged = " and ".join(f"self.{o} == old(self.{o})" for o in OPTIONS)
    anyp = "(present0 or present1 or present2 or present3)"
    good = f"({anyp} and fs_readable and parse_ok and is_dict(parsed) and types_ok)"
    # types_ok: the verdict of _check_config_types on the parsed object; for the set-valued options it means a list of
    # strings, in particular an iterable value (the rest of what it means is checked natively on typed/mistyped files)
    wt = " and ".join(f"implies(types_ok and '{o}' in parsed, iterable(parsed['{o}']))" for o in sorted(SET_OPTIONS))

    def check_types(eng, st, node, args, kwargs):
        eng.may_raise(st, st.env["types_ok"].t, "ValueError", "self._check_config_types(config_dict)")
        return NoneV()
    check_types.modifies = []
    # a file asked for by name (-c) that does not exist is missed with a message; the default names are optional
    named = "(self.config != '.fortlsrc' and self.config != '.fortls.json' and self.config != '.fortls')"
    ens = [("no_config_silent", f"implies(not {anyp} and not {named}, self.msgs == old(self.msgs) and {unchanged})"),
           ("named_file_missing_message", f"implies(not {anyp} and {named}, self.msgs == old(self.msgs) + 1 and {unchanged})"),
           ("bad_file_message", f"implies({anyp} and not {good}, self.msgs == old(self.msgs) + 1)"),
           ("bad_file_unchanged", f"implies({anyp} and not {good}, {unchanged})"),
           ("good_file_silent", f"implies({good}, self.msgs == old(self.msgs))"),
           ("debug_log_absent", f"implies({good} and 'debug_log' not in parsed, self.debug_log == old(self.debug_log))"),
           ("debug_log_file_wins", f"implies({good} and 'debug_log' in parsed, self.debug_log == parsed['debug_log'])")]
    for n, cl in loaded_clauses(opts, src="parsed"):
        ens.append((n, f"implies({good}, {cl})"))
    reg.add(Contract(
        f"{LS}._load_config_file", prop="C19", receiver_cls="LangServer",
        params={"fs_readable": BOOL, "fs_vanished": BOOL, "parse_ok": BOOL, "parsed": JSON, "types_ok": BOOL,
                "present0": BOOL, "present1": BOOL, "present2": BOOL, "present3": BOOL}, fields=fields,
        requires=[("wt_sets", wt)] + [(f"inv.is_set[{o}]", f"is_set(self.{o})") for o in sorted(SET_OPTIONS)]
        + [("inv.pp_defs_dict", "not is_list(self.pp_defs)")],
        ensures=ens,
        modifies=[f"self.{o}" for o in OPTIONS] + ["self.sync_type", "self.FORTRAN_SRC_EXT_REGEX", "self.msgs"],
        calls={"os.path.isfile": isfile, "os.path.join": join, "open": open_, "json5.load": json5_load,
               "self.post_message": post_message, "self._check_config_types": check_types,
               **{f"self.{ld}": f"{LS}.{ld}" for ld in LOADERS}},
        short="LangServer._load_config_file"))
    return reg


TARGETS = [f"{LS}.{ld}" for ld in LOADERS] + [f"{LS}._load_config_file"]

TRUSTED = [
    "option values are opaque JSON values (uninterpreted sort); set(x) is an injective-free function json_set(x) "
    "defined for iterable x",
    "os.path.isfile/join, open and json5.load are abstracted by ghost inputs: open raises FileNotFoundError or "
    "another OSError, json5.load raises ValueError or returns any JSON value",
    "create_src_file_exts_str only frame-checked here (its regex is C18's business)",
]
ASSUMPTIONS = ["types_ok is the verdict of _check_config_types; that it accepts exactly the well-typed files is checked natively "
               "on a table of typed and mistyped values per option (bounded)"]
RESIDUAL = "effects of option use downstream (C18/C08/C12); the type table of _check_config_types itself"


def extra(repo, reg, tier, seed):
    """Option-table obligations (mechanical, finite): every option has exactly one loader statement of the
    canonical form whose default is the current attribute."""
    items = []
    stmts = loader_statements(repo)
    for o in option_table(repo):
        name = f"C19/table.complete[{o}]"
        lst = stmts.get(o, [])
        if o == "debug_log":
            fi = repo.func(f"{LS}._load_config_file")
            ok = "config_dict.get('debug_log', self.debug_log)" in ast.unparse(fi.node)
            items.append(Item(name, "proved" if ok else "refuted", "table", 0.0, mode="table",
                              detail="debug_log is read in _load_config_file itself",
                              witness=None if ok else {"option": o, "reason": "no read of debug_log with default self.debug_log"}))
            continue
        if not lst:
            if not attribute_read_anywhere(repo, o):
                items.append(Item(name, "proved", "table", 0.0, mode="table",
                                  detail=f"{o}: accepted on both channels and never read anywhere (no-op option)"))
            else:
                items.append(Item(name, "refuted", "table", 0.0, mode="table", detail="no loader statement",
                                  witness={"option": o, "reason": "option is read by the server but the "
                                           "configuration file loader never assigns it"}))
            continue
        bad = []
        if len(lst) != 1:
            bad.append(f"{len(lst)} loader statements")
        for (ld, key, default, wrapped, where) in lst:
            if key != o:
                bad.append(f"reads key {key!r} at {where}")
            if default != f"self.{o}":
                bad.append(f"default is {default} (must be self.{o}) at {where}")
            if (o in SET_OPTIONS) != wrapped:
                bad.append(f"set() wrapping mismatch at {where}")
        items.append(Item(name, "refuted" if bad else "proved", "table", 0.0, mode="table", where=lst[0][4],
                          detail="; ".join(bad) or f"self.{o} = config_dict.get('{o}', self.{o}) in {lst[0][0]}",
                          witness={"option": o, "problems": bad} if bad else None))
    return items


def replay(obligation, model, rep):
    return {"confirmed": None, "detail": "C19 counter-models are replayed by search() on a real configuration file"}


def _relevant(obligation, kind, names):
    import re as _re
    m = _re.search(r"\[(\w+)\]", obligation)
    if "absent_unchanged" in obligation:
        return kind == "absent" and m is not None and m.group(1) in names
    if "present[" in obligation:
        return kind == "present" and m is not None and m.group(1) in names
    if "debug_log_file_wins" in obligation:
        return kind == "present" and "debug_log" in names
    if "debug_log_absent" in obligation:
        return kind == "absent" and "debug_log" in names
    if "ensures.sync_type" in obligation:
        return kind == "present" and any("sync" in n or "Sync" in n for n in names)
    if "bad_file" in obligation or "requires.is_dict" in obligation or "no_raise" in obligation or "generation" in obligation:
        return kind == "bad"
    return False


def search(func, tier, seed, obligation=""):
    """Native witnesses: start a real server on a scratch root with a configuration file."""
    import json
    from replay.harness import Workspace, session
    trials = []
    # (argv, config text or None, expectation)
    trials.append((["--pp_defs", '{"FOO": "1"}', "--pp_suffixes", ".F90"], '{"nthreads": 1}', "absent"))
    trials.append((["--hover_language", "f77", "--max_line_length", "90", "--nthreads", "3"], '{"notify_init": true}', "absent"))
    trials.append(([], '[1, 2]', "bad"))
    trials.append(([], '"text"', "bad"))
    trials.append(([], '{"nthreads": ', "bad"))
    trials.append((["--nthreads", "2"], '{"nthreads": 3, "hover_language": "f03", "excl_paths": ["a"], "pp_defs": {"X": 1}}', "present"))
    # every option given on both channels with different values: the file must win, derived settings included
    from fortls.interface import cli as _cli
    import json as _json
    for act in _cli("fortls")._actions:
        o = act.dest
        if o not in OPTIONS or not act.option_strings:
            continue
        flag = act.option_strings[-1]
        if type(act).__name__ == "_StoreTrueAction":
            trials.append(([flag], _json.dumps({o: False}), "present"))
        elif act.type is int:
            a, b = ("2000", 3000) if o == "recursion_limit" else (("2", 3) if o == "nthreads" else ("7", 9))
            trials.append(([flag, a], _json.dumps({o: b}), "present"))
        elif o == "hover_language":
            trials.append(([flag, "f77"], _json.dumps({o: "f08"}), "present"))
    import sys as _sys
    _limit = _sys.getrecursionlimit()
    for argv, cfg, kind in trials:
        _sys.setrecursionlimit(_limit)  # the server sets the interpreter's limit from its recursion_limit option
        ws = Workspace({".fortlsrc": cfg, "a.f90": "program p\nend program p\n"})
        try:
            srv, out = session(ws, [], argv=argv, keep_threads=True)
            init = [m for m in out if m.get("id") == 0]
            msgs = [m for m in out if m.get("method") == "window/showMessage"]
            from replay.harness import default_settings
            cli = default_settings(argv)
            if (not init or "result" not in init[0]) and _relevant(obligation, kind, []):
                return {"function": func, "argv": argv, "config": cfg, "problem": "initialize did not complete",
                        "response": init[:1]}
            if kind == "bad":
                changed = {k: (cli[k], getattr(srv, k)) for k in cli
                           if k in OPTIONS and k not in ("source_dirs", "excl_paths", "include_dirs")
                           and getattr(srv, k) != cli[k]}
                if (not msgs or changed) and _relevant(obligation, kind, []):
                    return {"function": func, "argv": argv, "config": cfg, "problem": "invalid file: expected a "
                            "message and unchanged options", "messages": msgs, "changed": changed}
            if kind == "absent":
                given = json.loads(cfg)
                changed = {k: (cli[k], getattr(srv, k)) for k in cli
                           if k in OPTIONS and k not in given and k not in ("source_dirs", "excl_paths", "include_dirs")
                           and getattr(srv, k) != cli[k]}
                if changed and _relevant(obligation, kind, list(changed)):
                    return {"function": func, "argv": argv, "config": cfg, "problem": "option absent from the file "
                            "did not keep its command-line value", "changed (cli, server)": changed}
            if kind == "present":
                given = json.loads(cfg)
                wrong = {}
                for k, v in given.items():
                    got = getattr(srv, k)
                    if k == "excl_paths":
                        continue
                    if got != v:
                        wrong[k] = (v, got)
                if srv.sync_type != (2 if srv.incremental_sync else 1):
                    wrong["sync_type"] = ("2 if incremental_sync else 1", srv.sync_type)
                caps = init[0]["result"]["capabilities"]
                if caps.get("textDocumentSync") != (2 if srv.incremental_sync else 1):
                    wrong["capabilities.textDocumentSync"] = (2 if srv.incremental_sync else 1, caps.get("textDocumentSync"))
                if wrong and _relevant(obligation, kind, list(wrong)):
                    return {"function": func, "argv": argv, "config": cfg, "problem": "file value not used",
                            "wrong (file, server)": wrong}
        finally:
            ws.close()
            _sys.setrecursionlimit(_limit)
    return None


_extra_table = extra


def option_effects():
    from contracts import c19_effects
    bad, n = c19_effects.run()
    return Item("C19/session/native_option_effects", "refuted" if bad else "bounded-ok", "native-run(bounded)", 0.0, mode="bounded",
                witness=bad, confirmed=True if bad else None, func=f"{LS}._load_config_file",
                detail=f"bounded: {len(c19_effects.EFFECT_OPTIONS)} options whose effect shows in an answer (hover, completion, diagnostics, "
                       f"outline), {n} server runs (one interpreter each): same answers from either channel after initialisation and "
                       "after a re-parse, the file wins")


def extra(repo, reg, tier, seed):  # noqa: F811
    items = _extra_table(repo, reg, tier, seed)
    # wrong value types (bounded, native): the contracts above assume set-valued options are iterable and do
    # not constrain scalar types; the property also covers those files, so they are run against the real server
    from replay.harness import Workspace, session, default_settings
    bad_cfgs = ['{"excl_paths": 5}', '{"nthreads": "four"}', '{"incl_suffixes": 1.5}', '{"include_dirs": null}', '{"nthreads": 0}',
                '{"recursion_limit": "a"}', '{"source_dirs": "src"}', '{"pp_defs": "FOO"}', '{"pp_defs": 3}', '{"hover_language": 3}',
                '{"pp_suffixes": 3}', '{"debug_log": "yes"}', '{"max_line_length": true}', '{"excl_suffixes": [1, 2]}',
                '{"nthreads": 2, "hover_language": "f08", "symbol_skip_mem": 1}', "[" * 5000, '{"a":' * 5000, "{", "[1, 2]", "null"]
    fails = []
    for cfg in bad_cfgs:
        ws = Workspace({".fortlsrc": cfg, "a.f90": "program p\nend program p\n"})
        try:
            try:
                srv, out = session(ws, [], keep_threads=True)
            except Exception as e:  # noqa: BLE001
                fails.append({"config": cfg, "problem": f"server loop died: {e!r}"})
                continue
            init = [m for m in out if m.get("id") == 0]
            msgs = [m for m in out if m.get("method") == "window/showMessage"]
            if not init or "result" not in init[0]:
                fails.append({"config": cfg, "problem": "initialize answered with an error",
                              "error": (init[0].get("error", {}).get("message") if init else None)})
            elif not msgs:
                fails.append({"config": cfg, "problem": "no user-visible message"})
            else:
                cli = default_settings([])
                changed = {k: (cli[k], getattr(srv, k)) for k in cli if k in OPTIONS and k not in ("source_dirs", "excl_paths", "include_dirs")
                           and getattr(srv, k) != cli[k]}
                if changed:
                    fails.append({"config": cfg, "problem": "options changed although the file is rejected", "changed (cli, server)": changed})
        finally:
            ws.close()
    # and a well-typed file with every option is accepted without a message
    good_cfg = {"excl_paths": ["x"], "source_dirs": ["."], "incl_suffixes": [".inc"], "excl_suffixes": ["_g.f90"], "include_dirs": ["inc"],
                "pp_suffixes": [".F90"], "pp_defs": {"A": "1"}, "nthreads": 2, "recursion_limit": 2000, "max_line_length": 100,
                "max_comment_line_length": 120, "notify_init": True, "incremental_sync": True, "sort_keywords": False,
                "disable_autoupdate": True, "autocomplete_no_prefix": True, "autocomplete_no_snippets": True,
                "autocomplete_name_only": True, "lowercase_intrinsics": True, "use_signature_help": True, "hover_signature": True,
                "disable_diagnostics": True, "symbol_skip_mem": True, "enable_code_actions": True, "hover_language": "f08",
                "debug_log": False}
    import json as _json
    import sys as _sys
    _limit = _sys.getrecursionlimit()
    for cfg in (good_cfg, {"pp_defs": ["A", "B"]}):
        ws = Workspace({".fortlsrc": _json.dumps(cfg), "a.f90": "program p\nend program p\n"})
        try:
            srv, out = session(ws, [], keep_threads=True)
            msgs = [m for m in out if m.get("method") == "window/showMessage" and "onfiguration" in str(m)]
            wrong = {k: (v, getattr(srv, k)) for k, v in cfg.items()
                     if k not in ("excl_paths", "source_dirs", "include_dirs", "incl_suffixes", "excl_suffixes", "pp_defs")
                     and getattr(srv, k) != v}
            if msgs or wrong:
                fails.append({"config": cfg, "problem": "a well-typed file is rejected or not applied", "messages": msgs[:1], "wrong": wrong})
        finally:
            ws.close()
            _sys.setrecursionlimit(_limit)
    # a configuration file asked for by name that does not exist; macro names given as a list on the command line
    ws = Workspace({"a.f90": "program p\nend program p\n"})
    try:
        srv, out = session(ws, [], argv=["-c", "no_such_config.json"], keep_threads=True)
        if not [m for m in out if m.get("method") == "window/showMessage"] or "result" not in [m for m in out if m.get("id") == 0][0]:
            fails.append({"config": "-c no_such_config.json (missing)", "problem": "no user-visible message, or initialize failed"})
        srv, out = session(ws, [], argv=["--pp_defs", '["AAA", "BBB"]'], keep_threads=True)
        if srv.pp_defs != {"AAA": "", "BBB": ""}:
            fails.append({"config": "--pp_defs [\"AAA\", \"BBB\"]", "problem": "a list of macro names on the command line is not "
                          "what the same list means in the file", "pp_defs": repr(srv.pp_defs)[:100]})
    finally:
        ws.close()
    items.append(option_effects())
    name = "C19/LangServer._load_config_file/ensures.wrong_value_types"
    if fails:
        items.append(Item(name, "refuted", "native-run(bounded)", 0.0, mode="bounded",
                          detail=f"bounded: {len(bad_cfgs)} configuration files with wrongly typed values",
                          witness=fails, confirmed=True, func=f"{LS}._load_config_file"))
    else:
        items.append(Item(name, "bounded-ok", "native-run(bounded)", 0.0, mode="bounded",
                          detail=f"bounded: {len(bad_cfgs)} configuration files with wrongly typed values",
                          func=f"{LS}._load_config_file"))
    return items
