"""Bounded stand-in of C07: generated valid programs (no error-severity diagnostic) and, for each defect class of
the property, the defect seeded at a random applicable position (a diagnostic of that class and severity on the
offending line, no unrelated error)."""
from __future__ import annotations

import random

ERR, WARN, INFO = 1, 2, 3


class Prog:
    """Two modules and a main program; every line carries an optional tag so seeding can find positions."""

    def __init__(self, rnd: random.Random):
        self.r = rnd
        # a second stream for the choices added later, so that the programs of earlier seeds keep their shape
        self.r2 = random.Random(hash(rnd.getstate()))
        self.files: dict[str, list[tuple[str, str]]] = {}  # file -> [(text, tag)]
        self.uid = 0

    def nm(self, pre):
        self.uid += 1
        return f"{pre}{self.uid}"

    def kw(self, s):
        c = self.r.random()
        return s.upper() if c < 0.25 else s

    def body(self, out, indent, depth):
        r = self.r
        pad = " " * indent
        for _ in range(r.randint(0, 3)):
            c = r.random()
            if c < 0.3:
                out.append((f"{pad}x = x + {r.randint(1, 9)}", "stmt"))
            elif depth > 0 and c < 0.45:
                out.append((f"{pad}{self.kw('do')} i = 1, 3", "open:do"))
                self.body(out, indent + 2, depth - 1)
                out.append((f"{pad}{self.kw('end do')}", "close:do"))
            elif depth > 0 and c < 0.6:
                out.append((f"{pad}{self.kw('if')} (x > 0) {self.kw('then')}", "open:if"))
                self.body(out, indent + 2, depth - 1)
                out.append((f"{pad}{self.kw('end if')}", "close:if"))
            elif depth > 0 and c < 0.7:
                out.append((f"{pad}{self.kw('block')}", "open:block"))
                out.append((f"{pad}  integer :: {self.nm('bl')}", "decl"))
                self.body(out, indent + 2, depth - 1)
                out.append((f"{pad}{self.kw('end block')}", "close:block"))
            elif depth > 0 and c < 0.8:
                out.append((f"{pad}{self.kw('associate')} (aa => x)", "open:associate"))
                self.body(out, indent + 2, depth - 1)
                out.append((f"{pad}{self.kw('end associate')}", "close:associate"))
            elif depth > 0 and c < 0.9:
                out.append((f"{pad}{self.kw('select case')} (x)", "open:select"))
                out.append((f"{pad}{self.kw('case')} (1)", "stmt"))
                out.append((f"{pad}  x = 2", "stmt"))
                out.append((f"{pad}{self.kw('case default')}", "stmt"))
                out.append((f"{pad}{self.kw('end select')}", "close:select"))
            else:
                out.append((f"{pad}if (x > 1) x = 0", "stmt"))

    def procedure(self, out, indent, modvars, is_module_proc=True):
        r = self.r
        pad = " " * indent
        fun = r.random() < 0.4
        name = self.nm("fn" if fun else "sb")
        args = [self.nm("a") for _ in range(r.randint(1, 3))]
        head = f"{pad}{self.kw('function' if fun else 'subroutine')} {name}({', '.join(args)})"
        if fun and r.random() < 0.5:
            head += f" result({name}_r)"
        out.append((head, f"proc:{name}:{','.join(args)}"))
        if r.random() < 0.4:
            out.append((f"{pad}  use iso_fortran_env, only: int32, real64", "use"))
        if is_module_proc and self.r2.random() < 0.4:
            pass  # IMPLICIT NONE is inherited from the host (every generated module and program has one)
        else:
            out.append((f"{pad}  {self.kw('implicit none')}", "implicit"))
        for a in args:
            intent = r.choice(["", ", intent(in)", ", intent(inout)"])
            out.append((f"{pad}  integer{intent} :: {a}", f"argdecl:{a}"))
        if fun:
            out.append((f"{pad}  integer :: {name}_r" if "result" in head else f"{pad}  integer :: {name}", "decl"))
        out.append((f"{pad}  integer :: x, i", "decl"))
        self.body(out, indent + 2, 2)
        if fun:
            out.append((f"{pad}  {name}_r = x" if "result" in head else f"{pad}  {name} = x", "stmt"))
        if r.random() < 0.3:
            out.append((f"{pad}{self.kw('contains')}", "contains"))
            iname = self.nm("in")
            iargs = [self.nm("ia") for _ in range(self.r2.randint(0, 2))]
            out.append((f"{pad}  subroutine {iname}({', '.join(iargs)})", f"proc:{iname}:{','.join(iargs)}"))
            for a in iargs:
                out.append((f"{pad}    integer :: {a}", f"argdecl:{a}"))
            out.append((f"{pad}    integer :: {self.nm('lv')}", "decl"))
            out.append((f"{pad}  end subroutine {iname}", "endproc"))
        out.append((f"{pad}{self.kw('end')} {self.kw('function' if fun else 'subroutine')} {name}", "endproc"))
        return name

    def module(self, idx, others):
        r = self.r
        name = f"dm{idx}"
        out: list[tuple[str, str]] = []
        out.append((f"{self.kw('module')} {name}", f"module:{name}"))
        if r.random() < 0.5:
            out.append(("  use, intrinsic :: iso_c_binding", "use"))
        for o in others:
            if r.random() < 0.7:
                out.append((f"  use {o}", "use"))
        out.append((f"  {self.kw('implicit none')}", "implicit"))
        if r.random() < 0.4:
            out.append(("  private", "vis"))
            pub = True
        else:
            pub = False
        mv = [self.nm("mv") for _ in range(r.randint(1, 3))]
        for v in mv:
            out.append((f"  integer{', public' if pub else ''} :: {v}", f"modvar:{v}"))
        # an abstract type with a deferred binding and an implementing extension
        tname = self.nm("ty")
        if r.random() < 0.6:
            ab = self.nm("ab")
            out.append((f"  type, abstract{', public' if pub else ''} :: {ab}", f"type:{ab}"))
            out.append((f"    integer :: {self.nm('cm')}", "comp"))
            out.append(("  contains", "tcontains"))
            out.append((f"    procedure(iface_{ab}), deferred :: run", "deferred"))
            out.append((f"  end type {ab}", "endtype"))
            out.append(("  abstract interface", "open:interface"))
            out.append((f"    subroutine iface_{ab}(self)", f"proc:iface_{ab}:self"))
            out.append((f"      import {ab}", "import"))
            out.append((f"      class({ab}), intent(inout) :: self", "argdecl:self"))
            out.append((f"    end subroutine iface_{ab}", "endproc"))
            out.append(("  end interface", "close:interface"))
            out.append((f"  type, extends({ab}){', public' if pub else ''} :: {tname}", f"type:{tname}"))
            out.append((f"    integer :: {self.nm('cm')}", "comp"))
            out.append(("  contains", "tcontains"))
            out.append((f"    procedure :: run => run_{tname}", f"binding:{tname}"))
            out.append((f"  end type {tname}", "endtype"))
            impl = f"run_{tname}"
        else:
            out.append((f"  type{', public' if pub else ''} :: {tname}", f"type:{tname}"))
            out.append((f"    integer :: {self.nm('cm')}", "comp"))
            out.append((f"  end type {tname}", "endtype"))
            impl = None
        out.append((f"  type({tname}){', public' if pub else ''} :: {self.nm('ob')}", f"typedvar:{tname}"))
        procs_at = len(out)
        out.append((f"{self.kw('contains')}", "contains"))
        names = []
        for _ in range(r.randint(1, 3)):
            names.append(self.procedure(out, 2, mv))
        if impl:
            out.append((f"  subroutine {impl}(self)", f"proc:{impl}:self"))
            out.append((f"    class({tname}), intent(inout) :: self", "argdecl:self"))
            out.append((f"  end subroutine {impl}", "endproc"))
            names.append(impl)
        if pub:
            out.insert(procs_at, ("  public :: " + ", ".join(names), "vis"))
        out.append((f"{self.kw('end module')} {name}", "endmodule"))
        self.files[f"{name}.f90"] = out
        self.types = getattr(self, "types", {})
        self.types[name] = (tname, pub)
        return name

    def program(self, mods):
        r = self.r
        out = [(f"{self.kw('program')} main_prog", "program")]
        for m in mods:
            out.append((f"  use {m}", "use"))
        out.append(("  use iso_fortran_env", "use"))
        out.append((f"  {self.kw('implicit none')}", "implicit"))
        out.append(("  integer :: x, i", "decl"))
        for m in mods:
            out.append((f"  type({self.types[m][0]}) :: {self.nm('pv')}", f"typedvar:{self.types[m][0]}"))
        self.body(out, 2, 2)
        out.append((f"{self.kw('end program')} main_prog", "endprogram"))
        self.files["main.f90"] = out

    def generate(self):
        m1 = self.module(1, [])
        m2 = self.module(2, [m1])
        self.program([m1, m2])
        return self


def text_of(lines):
    return "\n".join(t for t, _ in lines) + "\n"


# ------------------------------------------------------------------------------------------------ defects
def positions(lines, pred):
    return [i for i, (t, tag) in enumerate(lines) if pred(t, tag)]


def seed_defect(p: Prog, cls: str, r: random.Random):
    """returns (files dict name->text, expectation) or None when not applicable.
    expectation: {file, line0, severity, fragment, also: [(file, line0, fragment)] allowed further errors}"""
    files = {f: list(ls) for f, ls in p.files.items()}
    fname = r.choice(sorted(files))
    L = files[fname]

    def done(line0, sev, frag, also=(), options=None, alt_lines=()):
        return ({f: text_of(ls) for f, ls in files.items()},
                {"class": cls, "file": fname, "line": line0, "severity": sev, "fragment": frag, "also": list(also),
                 "options": options or {}, "lines": [line0] + list(alt_lines)})

    if cls == "declared_twice":
        c = positions(L, lambda t, g: g.startswith("modvar:") or g.startswith("argdecl:"))
        if not c:
            return None
        i = r.choice(c)
        nm = L[i][1].split(":")[1]
        if nm == "self":
            return None
        pad = L[i][0][: len(L[i][0]) - len(L[i][0].lstrip())]
        L.insert(i + 1, (f"{pad}integer :: {nm}", "dup"))
        return done(i + 1, ERR, "declared twice")
    if cls == "declared_twice_same_statement":
        c = positions(L, lambda t, g: g == "decl" and t.strip().startswith("integer :: x, i"))
        if not c:
            return None
        i = r.choice(c)
        L[i] = (L[i][0] + ", x", "dup")
        return done(i, ERR, "declared twice")
    if cls == "masks_host":
        mv = [g.split(":")[1] for t, g in L if g.startswith("modvar:")]
        c = positions(L, lambda t, g: g.startswith("proc:") and t.startswith("  ") and not t.startswith("    ") and "iface_" not in g)
        if not mv or not c:
            return None
        i = r.choice(c)
        # after the last declaration of this procedure's specification part
        j = i + 1
        while L[j][1] in ("use", "implicit", "decl") or L[j][1].startswith("argdecl:"):
            j += 1
        L.insert(j, (f"    integer :: {r.choice(mv)}", "mask"))
        return done(j, WARN, "masks variable in parent scope")
    if cls == "bare_end":
        c = positions(L, lambda t, g: g in ("close:do", "close:if", "close:block", "close:associate", "close:select"))
        if not c:
            return None
        i = r.choice(c)
        pad = L[i][0][: len(L[i][0]) - len(L[i][0].lstrip())]
        L[i] = (pad + "end", "bareend")
        # the construct left open: the matching opening statement (the diagnostic may sit there, naming the END line)
        depth, j = 0, i - 1
        while True:
            if L[j][1].startswith("close:"):
                depth += 1
            elif L[j][1].startswith("open:"):
                if depth == 0:
                    break
                depth -= 1
            j -= 1
        return done(i, ERR, "Unexpected end of scope", alt_lines=[j])
    if cls == "unknown_module":
        c = positions(L, lambda t, g: g == "implicit")
        i = r.choice(c)
        pad = L[i][0][: len(L[i][0]) - len(L[i][0].lstrip())]
        L.insert(i, (f"{pad}use no_such_module_{r.randint(1, 99)}", "baduse"))
        return done(i, INFO, "not found in project")
    if cls == "type_not_accessible":
        # dm1 cannot see dm2's type
        fname = "dm1.f90"
        L = files[fname]
        t2, pub2 = p.types["dm2"]
        c = positions(L, lambda t, g: g.startswith("typedvar:"))
        i = r.choice(c)
        L.insert(i + 1, (f"  type({t2}) :: zz_hidden", "badtype"))
        return done(i + 1, ERR, "not found in scope")
    if cls == "type_accessible_in_sibling_scope":
        # a new module whose procedures differ in whether they can see dm1's type: only the one without USE is wrong
        t1, _ = p.types["dm1"]
        if _:
            pass
        ok_first = r.random() < 0.5
        okp = ["  subroutine zz_sees(a)", "    use dm1", f"    type({t1}), intent(in) :: a", "  end subroutine zz_sees"]
        badp = ["  subroutine zz_blind(b)", f"    type({t1}), intent(in) :: b", "  end subroutine zz_blind"]
        body = (okp + badp) if ok_first else (badp + okp)
        lines = ["module dm3", "  implicit none", "contains"] + body + ["end module dm3"]
        fname = "dm3.f90"
        files[fname] = [(t, "x") for t in lines]
        return done(lines.index(badp[1]), ERR, "not found in scope")
    if cls == "arg_undeclared":
        c = positions(L, lambda t, g: g.startswith("proc:") and g.split(":")[2] not in ("", "self") and "iface_" not in g)
        if not c:
            return None
        i = r.choice(c)
        t = L[i][0]
        L[i] = (t.replace("(", "(zz_undeclared, ", 1), L[i][1])
        return done(i, ERR, "No matching declaration found for argument")
    if cls == "arg_undeclared_nested":
        # IMPLICIT NONE in force two host levels up, none in between
        lines = ["module dm4", "  implicit none", "contains", "  subroutine zz_outer(c)", "    integer :: c", "  contains",
                 "    subroutine zz_inner(zz_a, zz_b)", "      integer :: zz_b", "    end subroutine zz_inner",
                 "  end subroutine zz_outer", "end module dm4"]
        fname = "dm4.f90"
        files[fname] = [(t, "x") for t in lines]
        return done(6, ERR, 'No matching declaration found for argument "zz_a"')
    if cls == "intent_not_arg_no_args":
        c = positions(L, lambda t, g: g.startswith("proc:") and g.split(":")[2] == "" and "iface_" not in g)
        if c:
            i = r.choice(c)
            pad = L[i][0][: len(L[i][0]) - len(L[i][0].lstrip())] + "  "
            j = i + 1
            while L[j][1] in ("use", "implicit"):
                j += 1
            L.insert(j, (f"{pad}integer, intent(in) :: zz_notarg", "badintent"))
            return done(j, ERR, "with INTENT keyword not found in argument list")
        lines = ["module dm4", "  implicit none", "contains", "  subroutine zz_noargs()", "    integer, intent(in) :: zz_notarg",
                 "  end subroutine zz_noargs", "  subroutine zz_noparen", "    real, intent(out) :: zz_other", "  end subroutine zz_noparen",
                 "end module dm4"]
        fname = "dm4.f90"
        files[fname] = [(t, "x") for t in lines]
        return done(4, ERR, "with INTENT keyword not found in argument list", also=[("dm4.f90", 7, "with INTENT keyword")])
    if cls == "intent_not_arg":
        c = positions(L, lambda t, g: g.startswith("argdecl:") and g != "argdecl:self")
        if not c:
            return None
        i = r.choice(c)
        pad = L[i][0][: len(L[i][0]) - len(L[i][0].lstrip())]
        L.insert(i + 1, (f"{pad}integer, intent(in) :: zz_notarg", "badintent"))
        return done(i + 1, ERR, "with INTENT keyword not found in argument list")
    if cls == "second_contains":
        c = positions(L, lambda t, g: g == "contains")
        if not c:
            return None
        i = r.choice(c)
        L.insert(i + 1, (L[i][0], "contains2"))
        return done(i + 1, ERR, "Multiple CONTAINS statements in scope")
    if cls in ("contains_no_scope", "implicit_no_scope", "public_no_scope", "private_no_scope"):
        word = {"contains_no_scope": "contains", "implicit_no_scope": "implicit none", "public_no_scope": "public",
                "private_no_scope": "private"}[cls]
        where = r.choice([0, len(L)])
        L.insert(where, (word, "stray"))
        frag = {"contains_no_scope": "CONTAINS statement without enclosing scope",
                "implicit_no_scope": "IMPLICIT statement without enclosing scope",
                "public_no_scope": "Visibility statement without enclosing scope",
                "private_no_scope": "Visibility statement without enclosing scope"}[cls]
        return done(where, ERR, frag)
    if cls == "import_outside_interface":
        c = positions(L, lambda t, g: g.startswith("proc:") and t.startswith("  ") and not t.startswith("    ") and "iface_" not in g)
        mv = [g.split(":")[1] for t, g in L if g.startswith("modvar:")]
        if not c or not mv:
            return None
        i = r.choice(c)
        L.insert(i + 1, (f"    import {mv[0]}", "badimport"))
        return done(i + 1, ERR, "IMPORT statement outside of interface")
    if cls == "use_after_implicit":
        c = positions(L, lambda t, g: g == "implicit")
        i = r.choice(c)
        pad = L[i][0][: len(L[i][0]) - len(L[i][0].lstrip())]
        L.insert(i + 1, (f"{pad}use iso_fortran_env, only: int64", "lateuse"))
        return done(i, ERR, "USE statements after IMPLICIT statement")
    if cls == "procedure_before_contains":
        if fname == "main.f90":
            return None
        c = positions(L, lambda t, g: g == "contains" and not t.startswith(" "))
        i = c[0]
        L[i:i] = [("  subroutine zz_early()", "early"), ("  end subroutine zz_early", "endproc")]
        return done(i, ERR, "definition before CONTAINS statement")
    if cls == "procedure_in_block":
        c = positions(L, lambda t, g: g in ("open:do", "open:if", "open:block", "open:associate"))
        if not c:
            return None
        i = r.choice(c)
        pad = L[i][0][: len(L[i][0]) - len(L[i][0].lstrip())] + "  "
        L[i + 1:i + 1] = [(f"{pad}subroutine zz_nested()", "nested"), (f"{pad}end subroutine zz_nested", "endproc")]
        return done(i + 1, ERR, "Invalid parent for")
    if cls == "procedure_in_type":
        c = positions(L, lambda t, g: g == "comp")
        if not c:
            return None
        i = r.choice(c)
        L[i + 1:i + 1] = [("    subroutine zz_intype()", "nested"), ("    end subroutine zz_intype", "endproc")]
        return done(i + 1, ERR, "Invalid parent for")
    if cls == "deferred_not_implemented":
        c = positions(L, lambda t, g: g.startswith("binding:"))
        if not c:
            return None
        i = c[0]
        # drop the implementing binding (and an orphan CONTAINS) from the extension
        del L[i]
        if L[i - 1][1] == "tcontains":
            del L[i - 1]
            i -= 1
        # the diagnostic is reported on the END TYPE line of the extension
        return done(i, ERR, "not implemented")
    if cls == "long_line":
        c = positions(L, lambda t, g: g == "stmt" or g == "decl")
        if not c:
            return None
        i = r.choice(c)
        L[i] = (L[i][0] + " " * 5 + "! " + "x" * 140, L[i][1])
        return done(i, WARN, 'Line length exceeds "max_line_length"', options={"max_line_length": 132})
    raise ValueError(cls)


CLASSES = ["declared_twice", "declared_twice_same_statement", "masks_host", "bare_end", "unknown_module", "type_not_accessible", "type_accessible_in_sibling_scope",
           "arg_undeclared", "arg_undeclared_nested", "intent_not_arg_no_args",
           "intent_not_arg", "second_contains", "contains_no_scope", "implicit_no_scope", "public_no_scope",
           "private_no_scope", "import_outside_interface", "use_after_implicit", "procedure_before_contains",
           "procedure_in_block", "procedure_in_type", "deferred_not_implemented", "long_line"]


def diagnostics_of(files: dict, options=None):
    """open every file, save every file once more (cross-file facts), return uri-basename -> last published list"""
    from replay.harness import Workspace, session
    ws = Workspace(files)
    try:
        argv = []
        for k, v in (options or {}).items():
            argv += [f"--{k}", str(v)]
        msgs = []
        for n in files:
            msgs.append({"jsonrpc": "2.0", "method": "textDocument/didOpen", "params": {"textDocument": {"uri": ws.uri(n)}}})
        for n in files:
            msgs.append({"jsonrpc": "2.0", "method": "textDocument/didSave", "params": {"textDocument": {"uri": ws.uri(n)}}})
        srv, out = session(ws, msgs, argv=argv) if argv else session(ws, msgs)
        last = {n: None for n in files}
        errors = []
        for m in out:
            if m.get("method") == "textDocument/publishDiagnostics":
                last[m["params"]["uri"].rsplit("/", 1)[-1]] = m["params"]["diagnostics"]
            if "error" in m:
                errors.append(m["error"])
        return last, errors
    finally:
        ws.close()


# every form of the IMPORT statement in interface bodies of a valid module (checked with each generated program)
IMPORT_FORMS = ("module dm5\n  implicit none\n  type :: ta\n    integer :: i\n  end type ta\n  type :: tb\n    integer :: j\n  end type tb\n"
                "  integer, parameter :: kk = 4\n  interface\n    subroutine two_imports(x, y, z)\n      import :: ta\n      import tb, kk\n"
                "      type(ta) :: x\n      type(tb) :: y\n      integer(kk) :: z\n    end subroutine two_imports\n"
                "    subroutine three_imports(x, y)\n      import :: kk\n      import :: tb\n      import :: ta\n      type(ta) :: x\n      type(tb) :: y\n"
                "    end subroutine three_imports\n    subroutine import_everything(x)\n      import\n      type(tb) :: x\n    end subroutine import_everything\n"
                "    subroutine import_all(x)\n      import, all\n      type(ta) :: x\n    end subroutine import_all\n"
                "    subroutine import_only(x)\n      import, only: tb\n      type(tb) :: x\n    end subroutine import_only\n  end interface\nend module dm5\n"
                # the type of an EXTERNAL procedure given by a separate statement, in another spelling of the name
                "subroutine dm5_ext(y)\n  implicit none\n  real :: y\n  external foo\n  real FOO\n  double precision Bar\n  EXTERNAL bar\n"
                "  y = foo(1.0) + bar(2.0)\nend subroutine dm5_ext\n"
                # a generic interface named like a derived type (overloaded structure constructor), before and after the type;
                # a generic named like one of its specific procedures
                "module dm6\n  implicit none\n  interface vec\n    module procedure new_vec\n  end interface vec\n  type :: vec\n    real :: x\n"
                "  end type vec\n  type :: pt\n    real :: y\n  end type pt\n  interface pt\n    module procedure new_pt\n  end interface pt\n"
                "  interface area\n    module procedure area, area2\n  end interface area\ncontains\n"
                "  function new_vec(a) result(v)\n    real, intent(in) :: a\n    type(vec) :: v\n    v%x = a\n  end function new_vec\n"
                "  function new_pt(a) result(v)\n    real, intent(in) :: a\n    type(pt) :: v\n    v%y = a\n  end function new_pt\n"
                "  real function area(a)\n    real, intent(in) :: a\n    area = a\n  end function area\n"
                "  real function area2(a, b)\n    real, intent(in) :: a, b\n    area2 = a * b\n  end function area2\nend module dm6\n"
                # USE and IMPLICIT sharing a line; a derived type of a BLOCK construct
                "subroutine dm6_user()\n  use dm6; implicit none\n  type(vec) :: v\n  v = vec(1.0)\n  block\n    type :: local_t\n      integer :: a\n"
                "    end type local_t\n    type(local_t) :: w\n    w%a = 1\n  end block\nend subroutine dm6_user\n"
                # alternate returns in the dummy argument list; an implicitly typed dummy argument in a length selector while a
                # module declares a public variable of that name
                "subroutine dm7_alt(a, *)\n  integer, intent(in) :: a\n  if (a > 0) return 1\nend subroutine dm7_alt\n"
                "subroutine dm7_alt2(*, b, *)\n  implicit none\n  integer, intent(in) :: b\nend subroutine dm7_alt2\n"
                "module dm7\n  integer :: mlen = 3\nend module dm7\n"
                "subroutine dm7_len(mlen, str)\n  character(len=mlen) :: str\nend subroutine dm7_len\n")


def check_valid(p: Prog):
    files = {f: text_of(ls) for f, ls in p.files.items()}
    files["dm5.f90"] = IMPORT_FORMS
    diags, errs = diagnostics_of(files)
    if errs:
        return {"problem": "server error", "errors": errs, "files": files}
    for f, ds in diags.items():
        for d in ds or []:
            if d.get("severity") == 1:
                return {"problem": "error-severity diagnostic on a valid program", "file": f, "diagnostic": d,
                        "line_text": files[f].split("\n")[d["range"]["start"]["line"]], "files": files}
    return None


def check_defect(files, exp):
    diags, errs = diagnostics_of(files, exp.get("options"))
    if errs:
        return {"problem": "server error", "errors": errs, "files": files, "seeded": exp}
    ds = diags.get(exp["file"]) or []
    hit = [d for d in ds if d["range"]["start"]["line"] in exp["lines"] and exp["fragment"] in d["message"]
           and d.get("severity") == exp["severity"]]
    if not hit:
        return {"problem": "seeded defect not diagnosed on its line with its class and severity", "seeded": exp,
                "line_text": files[exp["file"]].split("\n")[exp["line"]],
                "published_for_file": [(d["range"]["start"]["line"], d.get("severity"), d["message"]) for d in ds], "files": files}
    for f, dl in diags.items():
        for d in dl or []:
            if d.get("severity") != 1:
                continue
            if f == exp["file"] and d["range"]["start"]["line"] in exp["lines"] and exp["fragment"] in d["message"]:
                continue
            if any(f == a[0] and d["range"]["start"]["line"] == a[1] and a[2] in d["message"] for a in exp["also"]):
                continue
            return {"problem": "unrelated error published next to the seeded defect", "seeded": exp, "file": f, "diagnostic": d,
                    "line_text": files[f].split("\n")[d["range"]["start"]["line"]], "files": files}
    return None


def run(tier: str, seed: int):
    n_valid = n_def = 0
    per_class = {}
    for k in range(40 if tier == "thorough" else 8):
        r = random.Random(seed * 104729 + k)
        p = Prog(r).generate()
        n_valid += 1
        w = check_valid(p)
        if w:
            w["generator_seed"] = seed * 104729 + k
            return w, n_valid, n_def, per_class
        for cls in CLASSES:
            sd = seed_defect(p, cls, r)
            if sd is None:
                continue
            files, exp = sd
            n_def += 1
            per_class[cls] = per_class.get(cls, 0) + 1
            w = check_defect(files, exp)
            if w:
                w["generator_seed"] = seed * 104729 + k
                return w, n_valid, n_def, per_class
    return None, n_valid, n_def, per_class
