"""C01 — one response per request, in order; the server outlives any handler failure.

Ghost state on the connection: `responses` (what write_response / write_error put on the wire, as records
kind/id/code), `resp_ids` (their ids, in order), `inbox` (the messages the client sent) and `served`.
The handler family contract H is assumed at the call `handler(request)` in `handle` and proved for every
entry of the dispatch table by frame obligations (mode E): a handler may return a value or raise, but it never
reaches write_response/write_error and never writes `running` (serve_exit excepted).
"""
import ast

from pyvc import smt
from pyvc.smt import And, Or, Not, Implies, Ite, Eq, IntVal, StrVal, Len, Add, Sub, Lt, Le, Ge, Gt, Concat, Extract, At, Unit
from pyvc.types import *
from pyvc.contract import Contract, LoopSpec, Raises, FrameCall
from pyvc.results import Item
from pyvc.pyops import to_json, fresh_val, coerce

LS = "fortls.langserver.LangServer"
RPC = "fortls.jsonrpc.JSONRPC2Connection"

REQ = TRec("Req", {"method": STR, "id": JSON, "params": JSON}, optional=("id", "params"))
RESP = TRec("Resp", {"is_error": BOOL, "id": JSON, "code": JSON})

CONN = {"self.conn.responses": TSeq(RESP), "self.conn.resp_ids": TSeq(JSON), "self.conn.inbox": TSeq(REQ),
        "self.conn.served": INT, "self.conn": TObj("JSONRPC2Connection"), "self.running": BOOL}
SELF_CONN = {"self.responses": TSeq(RESP), "self.resp_ids": TSeq(JSON)}

WRITERS = {"responses": [f"{RPC}.write_response", f"{RPC}.write_error"],
           "resp_ids": [f"{RPC}.write_response", f"{RPC}.write_error"]}


def dispatch_table(repo):
    """method name -> handler expression text, read from the dict literal in LangServer.handle."""
    fi = repo.func(f"{LS}.handle")
    for n in ast.walk(fi.node):
        if isinstance(n, ast.Dict) and len(n.keys) > 5 and all(isinstance(k, ast.Constant) for k in n.keys):
            return {k.value: ast.unparse(v) for k, v in zip(n.keys, n.values)}, fi
    return {}, fi


# ------------------------------------------------------------------ spec functions
def _json_sort(eng):
    return sort_of(JSON, eng.decls)


def sp_jint(eng, st, i):
    return to_json(eng, i)


def sp_in_table(eng, st, m):
    keys = st_table_keys(eng)
    return V(BOOL, Or(*[Eq(m.t, StrVal(k)) for k in keys]))


def st_table_keys(eng):
    if not hasattr(eng, "_c01_keys"):
        eng._c01_keys = sorted(dispatch_table(eng.repo)[0])
    return eng._c01_keys


def _req_fold(eng, name, ret):
    d = eng.decls
    return d.fun(name, [sort_of(TSeq(REQ), d), smt.INT], ret)


def sp_req_ids(eng, st, inbox, k):
    """ids of the requests (messages carrying an id) among inbox[:k], in order."""
    d = eng.decls
    js = _json_sort(eng)
    f = _req_fold(eng, "req_ids", smt.SeqS(js))
    cur = f(inbox.t, k.t)
    if "q_" not in k.t.s:
        d.ground_axiom("req_ids.base", Eq(f(inbox.t, IntVal(0)), smt.EmptySeq(smt.SeqS(js))))
        m = At(inbox.t, k.t)
        has = d.field(m, "has_id")
        nxt = f(inbox.t, Add(k.t, IntVal(1)))
        d.ground_axiom("req_ids.step", Implies(And(Le(IntVal(0), k.t), Lt(k.t, Len(inbox.t))),
                                               Eq(nxt, Ite(has, Concat(cur, Unit(d.field(m, "id"))), cur))))
    return V(TSeq(JSON), cur)


def sp_has_exit(eng, st, inbox, k):
    d = eng.decls
    f = _req_fold(eng, "has_exit", smt.BOOL)
    cur = f(inbox.t, k.t)
    if "q_" not in k.t.s:
        d.ground_axiom("has_exit.base", Not(f(inbox.t, IntVal(0))))
        m = At(inbox.t, k.t)
        nxt = f(inbox.t, Add(k.t, IntVal(1)))
        d.ground_axiom("has_exit.step", Implies(And(Le(IntVal(0), k.t), Lt(k.t, Len(inbox.t))),
                                                Eq(nxt, Or(cur, Eq(d.field(m, "method"), StrVal("exit"))))))
    return V(BOOL, cur)


def sp_last(eng, st, s):
    return V(s.ty.elem, At(s.t, Sub(Len(s.t), IntVal(1))))


def sp_butlast(eng, st, s):
    return V(s.ty, Extract(s.t, IntVal(0), Sub(Len(s.t), IntVal(1))))


SPEC_ENV = {"jint": sp_jint, "in_table": sp_in_table, "req_ids": sp_req_ids, "has_exit": sp_has_exit,
            "last": sp_last, "butlast": sp_butlast}
AXIOMS = {}


# ------------------------------------------------------------------ models
def m_send(eng, st, node, args, kwargs):
    """JSONRPC2Connection._send(body) at the level C01 needs: a body with a "result" or "error" member is a
    response and is appended to the ghost response channel; anything else leaves it unchanged.  (That the
    bytes written are a correct frame of this body is C16.)"""
    d = eng.decls
    body = args[0]
    if not isinstance(body, DictV):
        raise_gen("body of _send is not a dict literal")
    is_resp = "result" in body.items or "error" in body.items
    if not is_resp:
        return NoneV()
    rid = to_json(eng, body.items["id"])
    is_err = "error" in body.items
    if is_err:
        e = body.items["error"]
        code = to_json(eng, e.items["code"]) if isinstance(e, DictV) else to_json(eng, e)
    else:
        code = to_json(eng, NoneV())
    rec = d.mk(sort_of(RESP, d), smt.BoolVal(is_err), rid.t, code.t)
    cur = eng.heap_get(st, ("self", "responses"))
    eng.heap_set(st, ("self", "responses"), V(TSeq(RESP), Concat(cur.t, Unit(rec))))
    ids = eng.heap_get(st, ("self", "resp_ids"))
    eng.heap_set(st, ("self", "resp_ids"), V(TSeq(JSON), Concat(ids.t, Unit(rid.t))))
    return NoneV()


m_send.modifies = ["self.responses", "self.resp_ids"]


def raise_gen(msg):
    from pyvc.pyops import GenerationError
    raise GenerationError(msg)


def m_handler(eng, st, node, args, kwargs):
    """The call handler(request) under the handler family contract H."""
    d = eng.decls
    req = args[0]
    method = d.field(req.t, "method")
    keys = st_table_keys(eng)
    in_table = Or(*[Eq(method, StrVal(k)) for k in keys])
    is_exit = Eq(method, StrVal("exit"))
    # serve_exit clears `running`; no other handler writes it (frame obligations)
    run0 = eng.heap_get(st, ("self", "running"))
    js = _json_sort(eng)
    # outcome 1: raises JSONRPC2Error(code, message, data); serve_default always does, with code -32601
    bad = st.fork()
    bad.guards = []
    bad.pc = st.pc + st.guards
    code = d.fresh("h_code", js)
    bad.assume(Implies(Not(in_table), Eq(code, to_json(eng, V(INT, IntVal(-32601))).t)))
    bad.env["h_outcome"] = V(INT, IntVal(1))
    bad.env["h_code"] = V(JSON, code)
    bad.heap[("self", "running")] = run0
    bad.trace.append("handler raises JSONRPC2Error")
    st.pending.append((bad, ExcV("JSONRPC2Error", {"code": V(JSON, code), "message": V(JSON, d.fresh("h_msg", js)),
                                                   "data": V(JSON, d.fresh("h_data", js))}, "handler(request)")))
    # outcome 2: raises any other exception (only table entries; serve_default raises JSONRPC2Error)
    bad2 = st.fork()
    bad2.guards = []
    bad2.pc = st.pc + st.guards + [in_table]
    bad2.env["h_outcome"] = V(INT, IntVal(2))
    bad2.env["h_code"] = V(JSON, d.fresh("h_code2", js))
    bad2.trace.append("handler raises another exception")
    st.pending.append((bad2, ExcV("NonRPCException", {}, "handler(request)")))
    # outcome 0: returns a JSON-serialisable value
    st.assume(in_table)
    st.env["h_outcome"] = V(INT, IntVal(0))
    st.env["h_code"] = V(JSON, d.fresh("h_code0", js))
    eng.heap_set(st, ("self", "running"), V(BOOL, And(run0.t, Not(is_exit))))
    return V(JSON, d.fresh("h_result", js))


m_handler.modifies = ["self.running"]


def m_fresh_str(eng, st, node, args, kwargs):
    return V(STR, eng.decls.fresh("s", smt.STR))


def m_read_message(eng, st, node, args, kwargs):
    """read_message(): the next message of the inbox, EOFError when the client has sent them all
    (C16: a grammatical stream decodes into exactly the messages sent)."""
    inbox = eng.heap_get(st, ("self", "conn", "inbox"))
    served = eng.heap_get(st, ("self", "conn", "served"))
    eng.may_raise(st, Lt(served.t, Len(inbox.t)), "EOFError", "self.conn.read_message()")
    eng.heap_set(st, ("self", "conn", "served"), V(INT, Add(served.t, IntVal(1))))
    return V(REQ, At(inbox.t, served.t))


m_read_message.modifies = ["self.conn.served"]


def build(reg):
    ghost = {"exc_fields": {"JSONRPC2Error": ["code", "message", "data"]}, "writers": WRITERS}
    for name, params, ens in [
        ("write_response", {"rid": JSON, "result": JSON},
         [("appended", "len(self.responses) == len(old(self.responses)) + 1 and butlast(self.responses) == old(self.responses)"),
          ("kind", "not last(self.responses)['is_error']"), ("id", "last(self.responses)['id'] == rid"),
          ("ids", "self.resp_ids == old(self.resp_ids) + [rid]")]),
        ("write_error", {"rid": JSON, "code": JSON, "message": JSON, "data": JSON},
         [("appended", "len(self.responses) == len(old(self.responses)) + 1 and butlast(self.responses) == old(self.responses)"),
          ("kind", "last(self.responses)['is_error']"), ("id", "last(self.responses)['id'] == rid"),
          ("code", "last(self.responses)['code'] == code"),
          ("ids", "self.resp_ids == old(self.resp_ids) + [rid]")]),
        ("send_notification", {"method": JSON, "params": JSON},
         [("no_response", "self.responses == old(self.responses) and self.resp_ids == old(self.resp_ids)")]),
    ]:
        reg.add(Contract(f"{RPC}.{name}", prop="C01", receiver_cls="JSONRPC2Connection", params=params,
                         fields=SELF_CONN, ensures=ens, modifies=["self.responses", "self.resp_ids"],
                         calls={"self._send": m_send}, short=f"JSONRPC2Connection.{name}", ghost=ghost))
    reg.add(Contract(
        f"{LS}.serve_default", prop="C01", receiver_cls="LangServer", params={"request": REQ}, fields={},
        raises=[Raises("JSONRPC2Error", ensures=[("code", "exc.code == -32601")])],
        short="LangServer.serve_default", ghost=ghost))
    reg.add(Contract(
        f"{LS}.serve_exit", prop="C01", receiver_cls="LangServer", params={"request": REQ},
        fields={"self.running": BOOL}, ensures=[("stops", "not self.running")], modifies=["self.running"],
        abstract_stmts={"self.workspace = {}": (), "self.obj_tree = {}": ()}, short="LangServer.serve_exit",
        ghost=ghost))
    HAS = "'id' in request"
    reg.add(Contract(
        f"{LS}.handle", prop="C01", receiver_cls="LangServer",
        params={"request": REQ, "h_outcome": INT, "h_code": JSON}, fields=CONN,
        modifies=["self.conn.responses", "self.conn.resp_ids", "self.running"],
        requires=[("handler_not_called_yet", "h_outcome == -1")],
        ensures=[
            ("notification_silent", f"implies(not {HAS}, self.conn.responses == old(self.conn.responses) "
                                    "and self.conn.resp_ids == old(self.conn.resp_ids))"),
            ("one_response", f"implies({HAS}, len(self.conn.responses) == len(old(self.conn.responses)) + 1 "
                             "and butlast(self.conn.responses) == old(self.conn.responses))"),
            ("response_id", f"implies({HAS}, last(self.conn.responses)['id'] == request['id'] "
                            "and self.conn.resp_ids == old(self.conn.resp_ids) + [request['id']])"),
            ("method_not_found", f"implies({HAS} and not in_table(request['method']), "
                                 "last(self.conn.responses)['is_error'] and last(self.conn.responses)['code'] == jint(-32601))"),
            ("internal_error", f"implies({HAS} and h_outcome == 2, last(self.conn.responses)['is_error'] "
                               "and last(self.conn.responses)['code'] == jint(-32603))"),
            ("rpc_error", f"implies({HAS} and h_outcome == 1, last(self.conn.responses)['is_error'] "
                          "and last(self.conn.responses)['code'] == h_code)"),
            ("result", f"implies({HAS} and h_outcome == 0, not last(self.conn.responses)['is_error'])"),
            ("running", "self.running == (old(self.running) and not (h_outcome == 0 and request['method'] == 'exit'))"),
        ],
        calls={"handler": m_handler, "traceback.format_exc": m_fresh_str,
               "self.conn.write_error": f"{RPC}.write_error", "self.conn.write_response": f"{RPC}.write_response"},
        short="LangServer.handle", ghost=ghost))
    # handle as seen by run(): the outcome of the handler is existentially hidden
    reg.add(Contract(
        f"{LS}.handle#run", prop="C01", receiver_cls="LangServer", params={"request": REQ}, fields=CONN,
        modifies=["self.conn.responses", "self.conn.resp_ids", "self.running"], assumed=True,
        ensures=[
            ("ids", f"self.conn.resp_ids == ite({HAS}, old(self.conn.resp_ids) + [request['id']], old(self.conn.resp_ids))"),
            ("count", f"len(self.conn.responses) == len(old(self.conn.responses)) + (1 if {HAS} else 0)"),
            ("running", "implies(self.running, old(self.running)) and implies(old(self.running) and "
                        "request['method'] != 'exit', self.running)"),
        ],
        short="LangServer.handle", note="projection of the verified contract of handle (ensures.response_id, "
        "one_response, notification_silent, running) with the handler outcome hidden"))
    reg.contracts[f"{LS}.handle#run"].qualname = f"{LS}.handle"
    INB = "self.conn.inbox"
    reg.add(Contract(
        f"{LS}.run", prop="C01", receiver_cls="LangServer", params={}, fields=CONN,
        requires=[("start", "self.conn.served == 0 and self.running")],
        ensures=[
            ("answers_in_order", f"self.conn.resp_ids == old(self.conn.resp_ids) + req_ids({INB}, self.conn.served)"),
            ("serves_until_exit_or_eof", f"self.conn.served == len({INB}) or not self.running"),
            ("stops_only_on_exit", f"implies(not self.running, has_exit({INB}, self.conn.served))"),
        ],
        modifies=["self.conn.responses", "self.conn.resp_ids", "self.running", "self.conn.served"],
        calls={"self.conn.read_message": m_read_message, "self.handle": reg.contracts[f"{LS}.handle#run"],
               "self.post_message": FrameCall()},
        abstract_stmts={"self.post_messages = []": ()},
        loops={
            0: LoopSpec("while self.running", invariants=[
                ("served", f"0 <= self.conn.served and self.conn.served <= len({INB})"),
                ("ids", f"self.conn.resp_ids == old(self.conn.resp_ids) + req_ids({INB}, self.conn.served)"),
                ("running", f"self.running or has_exit({INB}, self.conn.served)"),
            ], variant=f"len({INB}) - self.conn.served + (1 if self.running else 0)"),
            1: LoopSpec("for message in self.post_messages", abstract=True),
        },
        short="LangServer.run", ghost=ghost))
    return reg


TARGETS = [f"{RPC}.write_response", f"{RPC}.write_error", f"{RPC}.send_notification", f"{LS}.serve_default",
           f"{LS}.serve_exit", f"{LS}.handle", f"{LS}.run"]

TRUSTED = [
    "read_message() returns the client's messages in order and raises EOFError at end of stream (C16 for "
    "grammatical streams; protocol errors on ungrammatical input end the loop through the generic handler)",
    "logging calls have no effect and do not raise; KeyboardInterrupt/SystemExit/MemoryError are not modelled",
    "post_message (window/showMessage) does not raise",
]
ASSUMPTIONS = ["messages are JSON objects with a string member 'method' (well-formed JSON-RPC, per the property)"]
RESIDUAL = ("JSON-serialisability of every handler result is not decided here (json.dumps failing inside "
            "write_response would escape handle); it is covered only by the run-time replay of the sample sessions")


def replay(obligation, model, rep):
    """Counter-models of `handle`: run the real method on the model's request, with stub handlers realising each
    outcome of the family contract when the method is in the dispatch table."""
    if "LangServer.handle" not in obligation or not isinstance(model.get("request"), dict):
        return {"confirmed": None, "detail": "protocol-level counter-models are replayed by search() on a real session"}
    from replay.harness import make_server, parse_out
    from fortls.langserver import JSONRPC2Error
    from pyvc.source import Repo
    req = {"jsonrpc": "2.0", "method": model["request"].get("method", "")}
    if "id" in model["request"]:
        req["id"] = 41
    table, _ = dispatch_table(Repo())

    def returns(r):
        return {"ok": 1}

    def rpc_error(r):
        raise JSONRPC2Error(code=-32001, message="boom")

    def other_error(r):
        raise RuntimeError("boom")

    for stub, outcome in ((returns, 0), (rpc_error, 1), (other_error, 2)):
        srv, rw = make_server()
        expr = table.get(req["method"])
        if expr and expr.startswith("self."):
            setattr(srv, expr[5:], stub)
        try:
            srv.handle(dict(req))
        except Exception as e:  # noqa: BLE001
            return {"confirmed": True, "request": req, "handler_outcome": outcome, "problem": f"handle raised {e!r}"}
        out = [m for m in parse_out(rw.out) if "result" in m or "error" in m]
        want = 1 if "id" in req else 0
        if len(out) != want or (want and out[0].get("id") != req["id"]):
            return {"confirmed": True, "request": req, "handler_outcome": outcome,
                    "problem": f"{len(out)} response(s) for a message {'with' if want else 'without'} an id",
                    "responses": out}
        if want and req["method"] not in table and out[0].get("error", {}).get("code") != -32601:
            return {"confirmed": True, "request": req, "problem": "unknown method not answered with -32601",
                    "responses": out}
    return {"confirmed": False, "request": req, "detail": "the real handle behaves as specified on this request"}


def _session_check(messages, files=None):
    """Run a real server over the messages; return a problem description or None."""
    from replay.harness import Workspace, session
    ws = Workspace(files or {"a.f90": "program p\nend program p\n"})
    try:
        msgs = [dict(m) for m in messages]
        for m in msgs:
            if isinstance(m.get("params"), dict) and m["params"].get("textDocument", {}).get("uri") == "$A":
                m["params"] = dict(m["params"], textDocument={"uri": ws.uri("a.f90")})
        try:
            srv, out = session(ws, msgs)
        except Exception as e:  # noqa: BLE001
            return {"problem": f"server loop raised {e!r}", "messages": messages}
        broken = [m for m in out if "_unparsed" in m or "_bad_length" in m]
        if broken:
            return {"problem": "what the server wrote cannot be read back as a sequence of frames (length in bytes, JSON body)",
                    "first_bad_frame": {k: (v if k != "_unparsed" else v[:200]) for k, v in broken[0].items() if k in ("_unparsed", "_bad_length", "id")},
                    "messages": messages}
        resp = [m for m in out if "id" in m and ("result" in m or "error" in m)]
        want = [0] + [m["id"] for m in msgs if "id" in m]
        # after `exit` nothing is served
        got = [m["id"] for m in resp]
        cut = None
        for k, m in enumerate(msgs):
            if m.get("method") == "exit":
                cut = k
                break
        if cut is not None:
            want = [0] + [m["id"] for m in msgs[:cut + 1] if "id" in m]
        if got != want:
            return {"problem": "response ids differ from request ids (order/count)", "request_ids": want,
                    "response_ids": got, "messages": messages}
        for m, r in zip([None] + [x for x in msgs if "id" in x], resp):
            if m is not None and m["method"].startswith("nosuch") and r.get("error", {}).get("code") != -32601:
                return {"problem": "unknown method not answered with MethodNotFound", "response": r}
        return None
    finally:
        ws.close()


def _handle_with_stubs():
    """The real LangServer.handle with stub handlers realising the three outcomes of the family contract H."""
    from replay.harness import make_server, parse_out
    from fortls.langserver import JSONRPC2Error

    def returns(req):
        return {"ok": 1}

    def rpc_error(req):
        raise JSONRPC2Error(code=-32001, message="boom")

    def other_error(req):
        raise RuntimeError("boom")

    for stub, outcome in ((returns, 0), (rpc_error, 1), (other_error, 2)):
        for req in ({"jsonrpc": "2.0", "id": 11, "method": "textDocument/hover", "params": {}},
                    {"jsonrpc": "2.0", "method": "textDocument/hover", "params": {}},
                    {"jsonrpc": "2.0", "id": "x", "method": "nosuch/method"},
                    {"jsonrpc": "2.0", "method": "nosuch/method"}):
            srv, rw = make_server()
            srv.serve_hover = stub
            try:
                srv.handle(dict(req))
            except Exception as e:  # noqa: BLE001
                return {"problem": f"handle raised {e!r}", "request": req, "handler_outcome": outcome}
            out = [m for m in parse_out(rw.out) if "result" in m or "error" in m]
            if "id" not in req:
                if out:
                    return {"problem": "response to a notification", "request": req, "responses": out}
                continue
            if len(out) != 1 or out[0].get("id") != req["id"]:
                return {"problem": "not exactly one response with the request id", "request": req, "responses": out}
            r = out[0]
            known = req["method"] == "textDocument/hover"
            want = None
            if not known:
                want = -32601
            elif outcome == 1:
                want = -32001
            elif outcome == 2:
                want = -32603
            if want is None and "result" not in r:
                return {"problem": "handler returned but no result response", "request": req, "response": r}
            if want is not None and r.get("error", {}).get("code") != want:
                return {"problem": f"expected error code {want}", "request": req, "handler_outcome": outcome,
                        "response": {k: v for k, v in r.items() if k != "error"} | {"error_code": r.get("error", {}).get("code")}}
    return None


def search(func, tier, seed, obligation=""):
    if not any(k in obligation for k in ("ensures.", "frame", "generation", "binding", "no_raise", "raises.")):
        return None
    if func.endswith(".handle") or func.endswith("serve_default"):
        w = _handle_with_stubs()
        if w:
            return w
    did = {"jsonrpc": "2.0", "method": "textDocument/didOpen", "params": {"textDocument": {"uri": "$A"}}}
    hov = lambda i: {"jsonrpc": "2.0", "id": i, "method": "textDocument/hover",  # noqa: E731
                     "params": {"textDocument": {"uri": "$A"}, "position": {"line": 0, "character": 9}}}
    scripts = [
        [did, hov(1), {"jsonrpc": "2.0", "id": 2, "method": "nosuch/method", "params": {}}, hov(3)],
        [{"jsonrpc": "2.0", "method": "nosuch/notification", "params": {}}, hov(1)],
        [{"jsonrpc": "2.0", "id": 1, "method": "textDocument/hover", "params": {}}, hov(2)],
        [hov(1), {"jsonrpc": "2.0", "id": 5, "method": "shutdown"}, {"jsonrpc": "2.0", "method": "exit"}, hov(9)],
        [{"jsonrpc": "2.0", "method": "textDocument/didChange", "params": {"bogus": 1}}, hov(4)],
        # requests between shutdown and exit are still answered
        [hov(1), {"jsonrpc": "2.0", "id": 2, "method": "shutdown"}, hov(3), {"jsonrpc": "2.0", "id": 4, "method": "nosuch/m"},
         {"jsonrpc": "2.0", "id": 5, "method": "shutdown"}, hov(6), {"jsonrpc": "2.0", "method": "exit"}],
        [{"jsonrpc": "2.0", "id": "s-1", "method": "workspace/symbol", "params": {"query": ""}}, hov(2)],
    ]
    for sc in scripts:
        w = _session_check(sc)
        if w:
            return w
    # documentation with non-ASCII text travels through hover and symbol answers
    w = _session_check([did, {"jsonrpc": "2.0", "id": 1, "method": "textDocument/hover",
                              "params": {"textDocument": {"uri": "$A"}, "position": {"line": 2, "character": 12}}},
                        {"jsonrpc": "2.0", "id": 2, "method": "textDocument/documentSymbol", "params": {"textDocument": {"uri": "$A"}}},
                        {"jsonrpc": "2.0", "id": 3, "method": "nosuch/é", "params": {"x": "—"}}],
                       files={"a.f90": "module météo\n  !> Calcule la température moyenne (°C) — données d'été 中\n  real :: température\nend module météo\n"})
    if w:
        return w
    # a notification whose handler fails inside diagnostics (self-referential submodule)
    w = _session_check([did, hov(1)], files={"a.f90": "submodule (m) m\ntype(nosuch) :: x\nend submodule m\n"})
    return w


def extra(repo, reg, tier, seed):
    """Frame obligations (mode E) that discharge the handler family contract H for every table entry."""
    from pyvc.effects import Effects
    eff = Effects(repo)
    items = []
    table, fi = dispatch_table(repo)
    resp_writers = {f"{RPC}.write_response", f"{RPC}.write_error"}
    for method, expr in sorted(table.items()):
        name = f"C01/H[{method}]/modifies.responses"
        if expr.startswith("self."):
            q = f"{LS}.{expr[5:]}"
        else:
            q = f"{LS}.handle.{expr}"
        if q not in eff.funcs:
            items.append(Item(name, "unknown", "frame-analysis", 0.0, mode="E", detail=f"handler {expr} not found"))
            continue
        pred = eff.reachable([q])
        hit = [w for w in resp_writers if w in pred]
        where = eff.funcs[q].info.where()
        if hit:
            items.append(Item(name, "refuted", "frame-analysis", 0.0, where=where, mode="E", func=q,
                              detail="a handler reaches the response channel",
                              witness={"method": method, "handler": q, "call_path": eff.path(pred, hit[0])}))
        else:
            items.append(Item(name, "proved", "frame-analysis", 0.0, where=where, mode="E", func=q,
                              detail=f"{len(pred)} functions reachable from {expr}; none is write_response/write_error"))
        # `running` and `conn` are written by no handler except serve_exit (running)
        bad = []
        for callee in pred:
            for recv, f, node, cls in eff.funcs[callee].writes:
                if f in ("running", "conn") and eff.related(cls, LS.rsplit(".", 0)[0]) and cls in (None, LS):
                    # the exit notification alone may clear `running` (through serve_exit); any other method that reaches
                    # that write stops the server before `exit`
                    if not (f == "running" and callee == f"{LS}.serve_exit" and method == "exit"):
                        bad.append({"field": f, "in": callee, "where": eff.funcs[callee].info.where(node),
                                    "call_path": eff.path(pred, callee)})
        items.append(Item(f"C01/H[{method}]/modifies.running", "refuted" if bad else "proved", "frame-analysis", 0.0,
                          where=where, mode="E", func=q, detail="writes of LangServer.running / .conn reachable from the handler",
                          witness=bad[:3] if bad else None))
    # only handle() answers: every path to write_response/write_error starts in handle
    offenders = []
    for q, fe in eff.funcs.items():
        for callee, node in fe.calls:
            if callee in resp_writers and q != f"{LS}.handle":
                offenders.append({"caller": q, "callee": callee, "where": fe.info.where(node)})
    items.append(Item("C01/responses/only_handle_answers", "refuted" if offenders else "proved", "frame-analysis", 0.0,
                      mode="E", detail="callers of write_response/write_error in the whole package",
                      witness=offenders or None, func=f"{LS}.handle"))
    # bounded native sessions (labelled bounded): known/unknown/malformed methods interleaved with sync events
    w = search(f"{LS}.run", tier, seed, "ensures.session")
    items.append(Item("C01/session/native_protocol", "refuted" if w else "bounded-ok", "native-run(bounded)", 0.0,
                      mode="bounded", detail="bounded: 9 scripted sessions over the real server (ids, order, error codes, exit)",
                      witness=w, confirmed=True if w else None, func=f"{LS}.run"))
    return items
