"""Bounded stand-in of C12: a multi-module program with hand-derived accessibility, completion probes with the
expected label sets."""
from __future__ import annotations

M1 = """module m1
  implicit none
  private
  integer, public :: pub_alpha, pub_beta
  integer :: priv_gamma
  type, public :: t1
    integer :: comp_x
    integer, private :: comp_hidden
  contains
    procedure :: bind_f
  end type t1
  type, extends(t1), public :: t2
    integer :: comp_y
  end type t2
  public :: pub_sub, pub_fun
contains
  subroutine bind_f(self)
    class(t1) :: self
  end subroutine bind_f
  subroutine pub_sub(n)
    integer :: n
  end subroutine pub_sub
  integer function pub_fun(n)
    integer :: n
    pub_fun = n
  end function pub_fun
  subroutine priv_sub()
  end subroutine priv_sub
end module m1
"""

M2 = """module m2
  use m1, only: pub_alpha, ren_beta => pub_beta, t2, pub_sub
  implicit none
  integer :: m2_var
  integer :: pu_local_mod
contains
  subroutine s2(arg_one)
    integer :: arg_one, loc_value, pu_inner
    type(t2) :: obj
    loc_value = pu
    loc_value = re
    loc_value = obj%
    loc_value = obj%co
    call pu
    loc_value = ar
    loc_value = pr
  end subroutine s2
end module m2
"""

M3 = """program main
  use m
  use m2, only: p
  use m1
  implicit none
  type(t
  integer :: zz
  zz = pub_
  zz = priv_
  zz = m2_
end program main
"""

M5 = """module m5
  implicit none
  private
  public :: ext_sub
  interface
    subroutine ext_sub(a)
      integer :: a
    end subroutine ext_sub
    subroutine ext_hidden(a)
      integer :: a
    end subroutine ext_hidden
  end interface
end module m5
module m6
  implicit none
  interface
    subroutine ext6_priv(a)
      integer :: a
    end subroutine ext6_priv
    subroutine ext6_pub(a)
      integer :: a
    end subroutine ext6_pub
  end interface
  private :: ext6_priv
end module m6
program p5
  use m5
  use m6
  implicit none
  call ext
end program p5
module m7
  implicit none
  interface
    subroutine ext7_alpha(a)
      integer :: a
    end subroutine ext7_alpha
    subroutine ext7_beta(a)
      integer :: a
    end subroutine ext7_beta
    integer function ext7_gamma(a)
      integer :: a
    end function ext7_gamma
  end interface
end module m7
subroutine u7()
  use m7, only: ext7_alpha
  integer :: k7
  call ext7
  k7 = ext7
end subroutine u7
subroutine v7()
  use m7
  integer :: k7
  k7 = ext7
end subroutine v7
"""

M4 = """module m4
  implicit none
  integer :: xval = 1
  integer :: yval = 1
end module m4
subroutine s1()
  use m4, only: xval, aval => xval
  print *, xv
  print *, av
end subroutine s1
subroutine s2()
  use m4, only: aval => xval, bval => xval
  print *, av
  print *, bv
  print *, xv
end subroutine s2
subroutine s3()
  use m4, cval => xval
  print *, xv
  print *, cv
  print *, yv
end subroutine s3
"""

USER_NAMES = {"ext7_alpha", "ext7_beta", "ext7_gamma", "m7", "u7", "v7", "k7", "ext_sub", "ext_hidden", "ext6_priv", "ext6_pub", "m5", "m6", "p5", "xval", "yval", "aval", "bval", "cval", "m4", "s1", "s3","pub_alpha", "pub_beta", "priv_gamma", "t1", "t2", "comp_x", "comp_hidden", "comp_y", "bind_f", "pub_sub", "pub_fun",
              "priv_sub", "m2_var", "pu_local_mod", "s2", "arg_one", "loc_value", "pu_inner", "obj", "ren_beta", "m1", "m2",
              "main", "zz", "self", "n"}

# (file, 0-based line, text that must end the line prefix, must_have, must_not_have (user names))
PROBES = [
    ("m2.f90", 9, "loc_value = pu", {"pub_alpha", "pu_inner", "pu_local_mod", "pub_sub"}, {"pub_beta", "pub_fun", "priv_gamma"}),
    ("m2.f90", 10, "loc_value = re", {"ren_beta"}, {"pub_beta"}),
    ("m2.f90", 11, "loc_value = obj%", {"comp_x", "comp_y", "bind_f"}, {"pub_alpha", "loc_value", "m2_var", "m1", "m2", "m4", "m5", "main", "s1", "s2"}),
    ("m2.f90", 12, "loc_value = obj%co", {"comp_x", "comp_y"}, {"bind_f", "pub_alpha"}),
    ("m2.f90", 13, "call pu", {"pub_sub"}, {"pub_alpha", "pu_inner", "pu_local_mod", "pub_fun"}),
    ("m2.f90", 14, "loc_value = ar", {"arg_one"}, set()),
    ("m2.f90", 15, "loc_value = pr", set(), {"priv_gamma", "priv_sub"}),
    ("main.f90", 1, "use m", {"m1", "m2"}, {"main", "pub_alpha", "t1"}),
    ("main.f90", 2, "use m2, only: p", {"pu_local_mod", "pub_alpha", "pub_sub"}, {"priv_gamma", "pu_inner", "pub_fun", "pub_beta"}),
    ("main.f90", 5, "type(t", {"t1", "t2"}, {"pub_alpha", "zz"}),
    ("main.f90", 7, "zz = pub_", {"pub_alpha", "pub_beta", "pub_sub", "pub_fun"}, {"priv_gamma", "priv_sub"}),
    ("main.f90", 8, "zz = priv_", set(), {"priv_gamma", "priv_sub"}),
    ("main.f90", 9, "zz = m2_", set(), {"m2_var"}),
    # members of unnamed interface blocks: accessibility by the default of the module and PUBLIC/PRIVATE statements
    ("m5.f90", 29, "call ext", {"ext_sub", "ext6_pub"}, {"ext_hidden", "ext6_priv"}),
    # ... and the ONLY list of the USE statement (procedures of an unnamed interface block of the used module)
    ("m5.f90", 48, "call ext7", {"ext7_alpha"}, {"ext7_beta", "ext7_gamma"}),
    ("m5.f90", 49, "k7 = ext7", {"ext7_alpha"}, {"ext7_beta", "ext7_gamma"}),
    ("m5.f90", 54, "k7 = ext7", {"ext7_alpha", "ext7_beta", "ext7_gamma"}, set()),
    # one entity under several local names; an entity renamed away without ONLY
    ("m4.f90", 7, "print *, xv", {"xval"}, set()),
    ("m4.f90", 8, "print *, av", {"aval"}, set()),
    ("m4.f90", 12, "print *, av", {"aval"}, {"bval"}),
    ("m4.f90", 13, "print *, bv", {"bval"}, {"aval"}),
    ("m4.f90", 14, "print *, xv", set(), {"xval"}),
    ("m4.f90", 18, "print *, xv", set(), {"xval"}),
    ("m4.f90", 19, "print *, cv", {"cval"}, set()),
    ("m4.f90", 20, "print *, yv", {"yval"}, set()),
]


def run():
    from replay.harness import Workspace, session
    files = {"m1.f90": M1, "m2.f90": M2, "main.f90": M3, "m4.f90": M4, "m5.f90": M5}
    ws = Workspace(files)
    try:
        msgs = []
        for name in files:
            msgs.append({"jsonrpc": "2.0", "method": "textDocument/didOpen", "params": {"textDocument": {"uri": ws.uri(name)}}})
        for k, (fname, ln, prefix, must, must_not) in enumerate(PROBES):
            line = files[fname].split("\n")[ln]
            col = line.index(prefix.strip()) + len(prefix.strip()) if prefix.strip() in line else len(line)
            if prefix.endswith(" "):
                col = len(line)
            msgs.append({"jsonrpc": "2.0", "id": 100 + k, "method": "textDocument/completion",
                         "params": {"textDocument": {"uri": ws.uri(fname)}, "position": {"line": ln, "character": col}}})
        srv, out = session(ws, msgs)
        by_id = {m["id"]: m for m in out if "id" in m}
        for k, (fname, ln, prefix, must, must_not) in enumerate(PROBES):
            r = by_id.get(100 + k, {})
            if "error" in r:
                return {"probe": [fname, ln, prefix], "error": r["error"].get("message")}
            labels = {str(i.get("label")).lower() for i in (r.get("result") or [])}
            missing = {m for m in must if m not in labels}
            wrong = {m for m in must_not if m in labels}
            # nothing user-declared that does not start with the typed prefix
            typed = prefix.strip().split()[-1] if not prefix.endswith(" ") else ""
            typed = typed.split("%")[-1].split("(")[-1].split("=")[-1].strip().lower()
            if typed in ("only:",):
                typed = ""
            off_prefix = {l for l in labels if l in USER_NAMES and typed and not l.startswith(typed)}
            if missing or wrong or off_prefix:
                return {"probe": {"file": fname, "line": ln, "typed": prefix}, "missing": sorted(missing),
                        "inaccessible_or_wrong_context_offered": sorted(wrong), "not_starting_with_prefix": sorted(off_prefix),
                        "offered_user_names": sorted(labels & USER_NAMES)}
        return None
    finally:
        ws.close()
