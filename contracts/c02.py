"""C02 — server-side document text equals the client's after any edit sequence.

Spec (LSP 3.17 TextDocumentContentChangeEvent, at line-list level), written from the property:
  T = lines(text)   (split on \\r\\n | \\n | \\r ; a text ending in a break yields a trailing "")
  apply(L,(sl,sc,el,ec),T) = L[:sl] ++ glue(L[sl][:sc], T, L[el][ec:]) ++ L[el+1:]
  without a range: apply = T.
"""
from pyvc import smt
from pyvc.smt import And, Or, Not, Implies, Ite, Eq, IntVal, StrVal, Len, Add, Sub, Lt, Le, Ge, Gt, Concat, Extract, At, Unit
from pyvc.types import *
from pyvc.contract import Contract, LoopSpec, Raises, FrameCall
from pyvc.results import Item

PARSER = "fortls.parsers.internal.parser"
LS = "fortls.langserver.LangServer"

POS = TRec("Pos", {"line": INT, "character": INT})
RANGE = TRec("Range", {"start": POS, "end": POS})
CHANGE = TRec("Change", {"text": STR, "range": RANGE}, optional=("text", "range"))

SEQS = smt.SeqS(smt.STR)


# ------------------------------------------------------------------ spec functions (symbolic)
def _lines_fun(eng):
    return eng.decls.fun("lines", [smt.STR], SEQS)


def lines_axioms(eng):
    """Axioms about lines() — the properties of re.split(r"\\n|\\r\\n?", t) the proofs use.  They are
    validated against CPython's re.split by exhaustive enumeration (bounded; see lemma_lines)."""
    d = eng.decls
    f = _lines_fun(eng)
    t = smt.BoundVar("t", smt.STR)
    i = smt.BoundVar("i", smt.INT)
    L = f(t)
    nl, cr = StrVal("\n"), StrVal("\r")
    has_break = Or(smt.Contains(t, nl), smt.Contains(t, cr))
    d.axiom("lines.nonempty", smt.Forall([t], Ge(Len(L), IntVal(1)), [L]))
    d.axiom("lines.single", smt.Forall([t], Eq(Eq(Len(L), IntVal(1)), Not(has_break)), [L]))
    d.axiom("lines.single_val", smt.Forall([t], Implies(Not(has_break), Eq(L, Unit(t))), [L]))
    d.axiom("lines.no_breaks", smt.Forall([t, i], Implies(And(Le(IntVal(0), i), Lt(i, Len(L))),
                                                        And(Not(smt.Contains(At(L, i), nl)),
                                                            Not(smt.Contains(At(L, i), cr)))), [At(L, i)]))
    d.axiom("lines.trailing", smt.Forall([t], Implies(Or(smt.SuffixOf(nl, t), smt.SuffixOf(cr, t)),
                                                      Eq(At(L, Sub(Len(L), IntVal(1))), StrVal(""))), [L]))


def lines_of(eng, t):
    """lines(t) plus the ground instances of the axioms for this argument."""
    eng.ensure_axioms("lines")
    d = eng.decls
    L = _lines_fun(eng)(t)
    nl, cr = StrVal("\n"), StrVal("\r")
    has_break = Or(smt.Contains(t, nl), smt.Contains(t, cr))
    d.ground_axiom("lines.nonempty", Ge(Len(L), IntVal(1)))
    d.ground_axiom("lines.single", Eq(Eq(Len(L), IntVal(1)), Not(has_break)))
    d.ground_axiom("lines.single_val", Implies(Not(has_break), Eq(L, Unit(t))))
    d.ground_axiom("lines.trailing", Implies(Or(smt.SuffixOf(nl, t), smt.SuffixOf(cr, t)),
                                             Eq(At(L, Sub(Len(L), IntVal(1))), StrVal(""))))
    return L


def sp_lines(eng, st, text):
    return V(TSeq(STR), lines_of(eng, text.t))


def apply_term(L, sl, sc, el, ec, T):
    n, m = Len(L), Len(T)
    one = IntVal(1)
    p = Extract(At(L, sl), IntVal(0), sc)
    sline = At(L, el)
    s = Extract(sline, ec, Sub(Len(sline), ec))
    t0 = At(T, IntVal(0))
    glue1 = Unit(Concat(Concat(p, t0), s))
    gluen = Concat(Concat(Unit(Concat(p, t0)), Extract(T, one, Sub(m, IntVal(2)))),
                   Unit(Concat(At(T, Sub(m, one)), s)))
    glue = Ite(Eq(m, one), glue1, gluen)
    return Concat(Concat(Extract(L, IntVal(0), sl), glue), Extract(L, Add(el, one), Sub(Sub(n, el), one)))


def sp_apply(eng, st, L, sl, sc, el, ec, T):
    return V(TSeq(STR), apply_term(L.t, sl.t, sc.t, el.t, ec.t, T.t))


def sp_expected(eng, st, L, change):
    """Document after `change` per the LSP spec; the empty representation [] is viewed as [""]."""
    d = eng.decls
    c = change.t
    text = Ite(d.field(c, "has_text"), d.field(c, "text"), StrVal(""))
    T = lines_of(eng, text)
    r = d.field(c, "range")
    sl = d.field(d.field(r, "start"), "line")
    sc = d.field(d.field(r, "start"), "character")
    el = d.field(d.field(r, "end"), "line")
    ec = d.field(d.field(r, "end"), "character")
    view = Ite(Eq(Len(L.t), IntVal(0)), Unit(StrVal("")), L.t)
    return V(TSeq(STR), Ite(d.field(c, "has_range"), apply_term(view, sl, sc, el, ec, T), T))


def sp_in_range(eng, st, L, change):
    d = eng.decls
    c = change.t
    r = d.field(c, "range")
    sl = d.field(d.field(r, "start"), "line")
    sc = d.field(d.field(r, "start"), "character")
    el = d.field(d.field(r, "end"), "line")
    ec = d.field(d.field(r, "end"), "character")
    z = IntVal(0)
    n = Len(L.t)
    nonempty = And(Le(z, sl), Le(sl, el), Lt(el, n), Le(z, sc), Le(sc, Len(At(L.t, sl))), Le(z, ec),
                   Le(ec, Len(At(L.t, el))), Implies(Eq(sl, el), Le(sc, ec)))
    empty = And(Eq(n, z), Eq(sl, z), Eq(sc, z), Eq(el, z), Eq(ec, z))
    return V(BOOL, Implies(d.field(c, "has_range"), Or(nonempty, empty)))


def sp_take(eng, st, L, k):
    return V(L.ty, Extract(L.t, IntVal(0), k.t))


def sp_prefix_part(eng, st, L, sl, sc, T, j):
    """L[:sl] ++ [L[sl][:sc] + T[0]] ++ T[1:j]  (j >= 1 pieces of the inserted text placed)."""
    p = Extract(At(L.t, sl.t), IntVal(0), sc.t)
    return V(L.ty, Concat(Concat(Extract(L.t, IntVal(0), sl.t), Unit(Concat(p, At(T.t, IntVal(0))))),
                          Extract(T.t, IntVal(1), Sub(j.t, IntVal(1)))))


def sp_no_breaks(eng, st, L):
    i = smt.BoundVar("nb", smt.INT)
    return V(BOOL, smt.Forall([i], Implies(And(Le(IntVal(0), i), Lt(i, Len(L.t))),
                                           And(Not(smt.Contains(At(L.t, i), StrVal("\n"))),
                                               Not(smt.Contains(At(L.t, i), StrVal("\r")))))))


def sp_fold(eng, st, L0, cs, k):
    """Document after the first k changes of cs applied in order to L0 (defining axioms, instantiated at k)."""
    d = eng.decls
    f = d.fun("fold_doc", [SEQS, cs.t.sort, smt.INT], SEQS)
    cur = f(L0.t, cs.t, k.t)
    if "q_" not in k.t.s:  # ground index: instantiate the two defining equations around k
        d.ground_axiom("fold.base", Eq(f(L0.t, cs.t, IntVal(0)), L0.t))
        nxt = f(L0.t, cs.t, Add(k.t, IntVal(1)))
        step = sp_expected(eng, st, V(TSeq(STR), cur), V(CHANGE, At(cs.t, k.t)))
        d.ground_axiom("fold.step", Implies(And(Le(IntVal(0), k.t), Lt(k.t, Len(cs.t))), Eq(nxt, step.t)))
    return V(TSeq(STR), cur)


SPEC_ENV = {"fold_doc": sp_fold, "lines": sp_lines, "apply_spec": sp_apply, "expected_doc": sp_expected, "in_range": sp_in_range,
            "take": sp_take, "prefix_part": sp_prefix_part, "no_breaks": sp_no_breaks}
AXIOMS = {"lines": lines_axioms}


# ------------------------------------------------------------------ native spec (replay / lemma validation)
def native_lines(text: str) -> list:
    out, cur, i = [], "", 0
    while i < len(text):
        ch = text[i]
        if ch == "\r":
            out.append(cur)
            cur = ""
            if i + 1 < len(text) and text[i + 1] == "\n":
                i += 1
        elif ch == "\n":
            out.append(cur)
            cur = ""
        else:
            cur += ch
        i += 1
    out.append(cur)
    return out


def native_apply(L, change):
    T = native_lines(change.get("text", ""))
    r = change.get("range")
    if r is None:
        return T
    view = L if L else [""]
    sl, sc = r["start"]["line"], r["start"]["character"]
    el, ec = r["end"]["line"], r["end"]["character"]
    p, s = view[sl][:sc], view[el][ec:]
    if len(T) == 1:
        glue = [p + T[0] + s]
    else:
        glue = [p + T[0]] + T[1:-1] + [T[-1] + s]
    return view[:sl] + glue + view[el + 1:]


# ------------------------------------------------------------------ contracts
FILE_FIELDS = {
    "self.contents_split": TSeq(STR), "self.contents_pp": TSeq(STR), "self.nLines": INT,
    "self.hash": TOpt(STR), "self.fixed": BOOL,
}


def build(reg):
    reg.add(Contract(
        f"{PARSER}.splitlines", prop="C02", params={"text": STR}, result=TSeq(STR),
        ensures=[("lines", "result == lines(text)")], pure=True, short="splitlines",
        note="body is `re.split(<literal>, text)`; discharged by the re.split lemma (pattern read from the AST, "
             "lemma validated against CPython exhaustively up to a bound)", assumed=True))
    reg.add(Contract(
        f"{PARSER}.detect_fixed_format", prop="C02", params={"file_lines": TSeq(STR)}, result=BOOL, pure=True,
        assumed=True, short="detect_fixed_format",
        note="heuristic; only its result type and purity are used (purity checked by the frame analysis)"))
    reg.add(Contract(
        f"{PARSER}.FortranFile.apply_change.check_change_reparse", prop="C02", params={"line_no": INT}, result=BOOL,
        pure=True, assumed=True, short="check_change_reparse",
        note="decides re-parsing only; reads the buffer, writes nothing (frame analysis); its exception "
             "freedom belongs to C03/C09"))
    reg.add(Contract(
        f"{PARSER}.FortranFile.set_contents", prop="C02", receiver_cls="FortranFile",
        params={"contents_split": TSeq(STR), "detect_format": BOOL}, fields=FILE_FIELDS,
        modifies=["self.contents_split", "self.contents_pp", "self.nLines", "self.fixed"],
        ensures=[("contents", "self.contents_split == contents_split"),
                 ("pp", "self.contents_pp == contents_split"),
                 ("nlines", "self.nLines == len(contents_split)"),
                 ("hash_kept", "self.hash == old(self.hash)")],
        calls={"detect_fixed_format": f"{PARSER}.detect_fixed_format"},
        short="FortranFile.set_contents"))
    reg.add(Contract(
        f"{PARSER}.FortranFile.apply_change", prop="C02", receiver_cls="FortranFile",
        params={"change": CHANGE}, fields=FILE_FIELDS, result=BOOL,
        requires=[("wf.nlines", "self.nLines == len(self.contents_split)"),
                  ("wf.pp", "len(self.contents_pp) == self.nLines"),
                  ("in_range", "in_range(self.contents_split, change)")],
        ensures=[("contents", "self.contents_split == expected_doc(old(self.contents_split), change)"),
                 ("nlines", "self.nLines == len(self.contents_split)"),
                 ("pp_len", "len(self.contents_pp) == self.nLines"),
                 ("hash_none", "self.hash is None")],
        modifies=["self.contents_split", "self.contents_pp", "self.nLines", "self.fixed", "self.hash"],
        locals_={"new_contents": TSeq(STR)},
        calls={"splitlines": f"{PARSER}.splitlines", "self.set_contents": f"{PARSER}.FortranFile.set_contents",
               "check_change_reparse": f"{PARSER}.FortranFile.apply_change.check_change_reparse"},
        loops={
            0: LoopSpec("for (i, line) in enumerate(self.contents_split)", index="_k", invariants=[
                ("before", "implies(_k <= start_line, new_contents == take(self.contents_split, _k))"),
                ("between", "implies(start_line < _k and _k <= end_line, new_contents == prefix_part("
                            "self.contents_split, start_line, start_col, text_split, len(text_split)))"),
                ("after", "implies(_k > end_line, new_contents == take(apply_spec(self.contents_split, start_line, "
                          "start_col, end_line, end_col, text_split), start_line + len(text_split) + (_k - end_line - 1)))"),
            ]),
            1: LoopSpec("for (j, change_line) in enumerate(text_split)", index="_j", invariants=[
                ("zero", "implies(_j == 0, new_contents == take(self.contents_split, start_line))"),
                ("some", "implies(_j >= 1, new_contents == prefix_part(self.contents_split, start_line, start_col, "
                         "text_split, _j))"),
            ]),
        },
        short="FortranFile.apply_change"))
    WS = {"ws_file.contents_split": TSeq(STR), "ws_file.contents_pp": TSeq(STR), "ws_file.nLines": INT,
          "ws_file.hash": TOpt(STR), "ws_file.fixed": BOOL, "ws_file.preproc": BOOL, "self.sync_type": INT}

    def ws_get(eng, st, node, args, kwargs):
        # self.workspace.get(path): either None or the FortranFile registered for that path
        return ObjV("FortranFile", ("ws_file",), present=st.env["ws_found"].t)

    REQ = TRec("DidChangeReq", {"params": TRec("DidChangeParams", {
        "textDocument": TRec("TextDocId", {"uri": STR}), "contentChanges": TSeq(CHANGE)})})
    CS = "request['params']['contentChanges']"
    reg.add(Contract(
        f"{LS}.update_workspace_file", prop="C02", receiver_cls="LangServer", assumed=True,
        params={"filepath": STR, "read_file": BOOL, "allow_empty": BOOL, "update_links": BOOL},
        result=TTup([BOOL, TOpt(STR)]), short="LangServer.update_workspace_file",
        requires=[("no_reload", "not read_file")],
        note="with read_file=False the buffer is only read (re-parsed); load_from_disk is not on this path. "
             "Verified under C10 (obj_tree view); the frame part is re-checked there"))
    reg.add(Contract(
        f"{LS}.serve_onChange", prop="C02", receiver_cls="LangServer",
        params={"request": REQ, "ws_file": TObj("FortranFile"), "ws_found": BOOL}, fields=WS,
        requires=[("wf.nlines", "ws_file.nLines == len(ws_file.contents_split)"),
                  ("wf.pp", "len(ws_file.contents_pp) == ws_file.nLines"),
                  ("full_sync_one", f"implies(self.sync_type == 1, len({CS}) == 1)"),
                  ("in_range", f"forall(k, 0, len({CS}), in_range(fold_doc(ws_file.contents_split, {CS}, k), {CS}[k]))")],
        ensures=[("fold", f"implies(ws_found, ws_file.contents_split == fold_doc(old(ws_file.contents_split), {CS}, len({CS})))"),
                 ("unknown_file", "implies(not ws_found, ws_file.contents_split == old(ws_file.contents_split))"),
                 ("nlines", "ws_file.nLines == len(ws_file.contents_split)")],
        calls={"path_from_uri": FrameCall(result=STR),
               "self.workspace.get": ws_get,
               "self.post_message": FrameCall(),
               "file_obj.apply_change": f"{PARSER}.FortranFile.apply_change",
               "self.update_workspace_file": f"{LS}.update_workspace_file",
               "file_obj.ast.resolve_includes": FrameCall(),
               "file_obj.preprocess": FrameCall(allow_writes=("contents_pp",), modifies=("ws_file.contents_pp",))},
        abstract_stmts={"self.pp_defs = {**self.pp_defs, **file_obj.pp_defs}": ()},
        loops={
            0: LoopSpec("for change in params['contentChanges']", index="_c", invariants=[
                ("fold", f"ws_file.contents_split == fold_doc(old(ws_file.contents_split), {CS}, _c)"),
                ("nlines", "ws_file.nLines == len(ws_file.contents_split)"),
                ("pp", "len(ws_file.contents_pp) == ws_file.nLines")]),
            1: LoopSpec("for (_, tmp_file) in self.workspace.items()", abstract=True),
        },
        short="LangServer.serve_onChange"))
    return reg


# ------------------------------------------------------------------ driver hooks
TARGETS = [
    f"{PARSER}.FortranFile.set_contents",
    f"{PARSER}.FortranFile.apply_change",
    f"{LS}.serve_onChange",
]

TRUSTED = [
    "Python lists are modelled by value: in-place mutation is visible only through the access path used "
    "(contents_pp aliases contents_split after set_contents; apply_change writes both with the same value)",
    "re.split lemma for the literal pattern of splitlines (validated exhaustively over {a,\\n,\\r}^<=9 against CPython)",
    "LSP character offsets taken as code-point offsets (exact for BMP text)",
]
ASSUMPTIONS = [
    "change ranges lie inside the current document (property quantifier); text is a str; range fields are ints",
]
RESIDUAL = ("UTF-16 vs code-point columns for astral characters; the decision to re-parse (check_change_reparse) "
            "is not part of the buffer contract")


def replay(obligation, model, rep):
    """Run the real FortranFile.apply_change on the counter-model and compare with the native spec."""
    from fortls.parsers.internal.parser import FortranFile
    if "set_contents" in obligation:
        return {"confirmed": None, "detail": "no replay builder for set_contents"}
    L = list(model.get("self.contents_split") or [])
    change = model.get("change") or {}
    f = FortranFile()
    f.contents_split = list(L)
    f.contents_pp = f.contents_split
    f.nLines = len(L)
    f.hash = model.get("self.hash")
    expected = native_apply(L, change)
    try:
        f.apply_change(dict(change))
        observed = {"contents_split": list(f.contents_split), "nLines": f.nLines, "hash": f.hash,
                    "contents_pp_len": len(f.contents_pp)}
        exc = None
    except Exception as e:  # noqa: BLE001
        observed, exc = None, repr(e)
    bad = exc is not None
    if observed is not None:
        if "ensures.contents" in obligation:
            bad = observed["contents_split"] != expected
        elif "ensures.nlines" in obligation:
            bad = observed["nLines"] != len(observed["contents_split"])
        elif "ensures.pp_len" in obligation:
            bad = observed["contents_pp_len"] != observed["nLines"]
        elif "ensures.hash_none" in obligation:
            bad = observed["hash"] is not None
        else:
            bad = (observed["contents_split"] != expected or observed["nLines"] != len(expected)
                   or observed["hash"] is not None)
    return {"confirmed": bool(bad), "input": {"contents_split": L, "change": change}, "expected_doc": expected,
            "observed": observed, "exception": exc}


def cache_items(repo):
    """A field of FortranFile that is filled lazily from the text (`if self.F is None: self.F = ... self.contents_split
    ...`) is a cache of the text: every method that writes the text (assigns contents_split / contents_pp or one of their
    elements) must reset it on every path, or an answer may be computed from a superseded text."""
    import ast as _ast
    cls_q = f"{PARSER}.FortranFile"
    methods = {q[len(cls_q) + 1:]: fi for q, fi in repo.all_functions() if q.startswith(cls_q + ".") and "." not in q[len(cls_q) + 1:]}
    text_fields = {"contents_split", "contents_pp"}

    def mentions_text(e):
        return any(isinstance(n, _ast.Attribute) and isinstance(n.value, _ast.Name) and n.value.id == "self" and n.attr in text_fields
                   for n in _ast.walk(e))
    caches = {}
    for name, fi in methods.items():
        for n in _ast.walk(fi.node):
            if isinstance(n, _ast.If) and isinstance(n.test, _ast.Compare) and len(n.test.ops) == 1 and isinstance(n.test.ops[0], _ast.Is) \
                    and isinstance(n.test.comparators[0], _ast.Constant) and n.test.comparators[0].value is None \
                    and isinstance(n.test.left, _ast.Attribute) and _ast.unparse(n.test.left.value) == "self":
                f = n.test.left.attr
                for a in _ast.walk(_ast.Module(body=n.body, type_ignores=[])):
                    if isinstance(a, _ast.Assign) and any(_ast.unparse(t) == f"self.{f}" for t in a.targets) and mentions_text(a.value) \
                            and f not in text_fields:
                        caches[f] = fi.where(a)
    writers = {}
    for name, fi in methods.items():
        for n in _ast.walk(fi.node):
            tg = []
            if isinstance(n, _ast.Assign):
                tg = n.targets
            elif isinstance(n, (_ast.AugAssign, _ast.AnnAssign)):
                tg = [n.target]
            for t in tg:
                for e in (t.elts if isinstance(t, _ast.Tuple) else [t]):
                    base = e.value if isinstance(e, _ast.Subscript) else e
                    if isinstance(base, _ast.Attribute) and _ast.unparse(base.value) == "self" and base.attr in text_fields:
                        writers.setdefault(name, []).append(n)
    bad = []
    for f, where in caches.items():
        for w, nodes in writers.items():
            fn = methods[w].node
            for node in nodes:
                # the reset must be in the same statement list as the write (or the write goes through set_contents)
                resets = [a for a in _ast.walk(fn) if isinstance(a, _ast.Assign) and any(_ast.unparse(t) == f"self.{f}" for t in a.targets)
                          and isinstance(a.value, _ast.Constant) and a.value.value is None]
                lists = [lst for n2 in _ast.walk(fn) for fld in ("body", "orelse", "finalbody") for lst in [getattr(n2, fld, None)]
                         if isinstance(lst, list) and any(x is node or any(y is node for y in _ast.walk(x)) for x in lst)]
                ok = any(any(r is x or any(y is r for y in _ast.walk(x)) for x in lst) for lst in lists for r in resets)
                if not ok:
                    bad.append({"cache_field": f, "filled_at": where, "text_written_by": f"FortranFile.{w}",
                                "where": methods[w].where(node), "statement": _ast.unparse(node)[:100]})
    return [Item("C02/FortranFile/frame.caches_follow_the_text", "refuted" if bad else "proved", "frame-analysis", 0.0, mode="E",
                 func=f"{cls_q}.apply_change", witness=bad[:4] or None,
                 detail=f"{len(caches)} lazily filled cache(s) of the text in FortranFile {sorted(caches)}; {sum(len(v) for v in writers.values())} "
                        f"statements in {sorted(writers)} write the text: each resets every cache")]


def extra(repo, reg, tier, seed):
    """Lemma behind the contract of splitlines: bounded, exhaustive, against the real function."""
    import ast as _ast
    import itertools
    import time as _t
    from fortls.parsers.internal import parser as real
    t0 = _t.time()
    items = []
    fi = repo.func(f"{PARSER}.splitlines")
    body = [s for s in fi.node.body if not (isinstance(s, _ast.Expr) and isinstance(s.value, _ast.Constant))]
    shape_ok = (len(body) == 1 and isinstance(body[0], _ast.Return) and isinstance(body[0].value, _ast.Call)
                and _ast.unparse(body[0].value.func) == "re.split" and len(body[0].value.args) == 2
                and isinstance(body[0].value.args[0], _ast.Constant) and _ast.unparse(body[0].value.args[1]) == "text")
    pattern = body[0].value.args[0].value if shape_ok else None
    bound = 9 if tier == "thorough" else 8
    alphabet = "a\n\r"
    n = 0
    bad = None
    for ln in range(bound + 1):
        for tup in itertools.product(alphabet, repeat=ln):
            t = "".join(tup)
            n += 1
            got = real.splitlines(t)
            if got != native_lines(t):
                bad = (t, got)
                break
        if bad:
            break
    name = "C02/splitlines/ensures.lines"
    detail = (f"bounded: all {n} strings over {{a,\\n,\\r}} up to length {bound}; real splitlines(t) == lines(t); "
              f"pattern literal {pattern!r}; body shape re.split(<literal>, text): {shape_ok}")
    if bad:
        items.append(Item(name, "refuted", "finite-enumeration(CPython)", _t.time() - t0, where=fi.where(),
                          detail=detail, mode="bounded", func=fi.qualname,
                          witness={"text": bad[0], "splitlines": bad[1], "lines_spec": native_lines(bad[0])},
                          confirmed=True))
    else:
        items.append(Item(name, "bounded-ok", "finite-enumeration(CPython)", _t.time() - t0, where=fi.where(),
                          detail=detail, mode="bounded", func=fi.qualname))
    w = _aliasing_scenarios()
    items.append(Item("C02/FortranFile/buffers_not_shared", "refuted" if w else "bounded-ok", "native-run(bounded)", 0.0,
                      mode="bounded", func=f"{PARSER}.FortranFile.apply_change", witness=w, confirmed=True if w else None,
                      detail="bounded: edit/revert and twin-document histories; the proofs model lists by value, so "
                             "sharing of the line list between calls or documents is checked natively"))
    items += cache_items(repo)
    w = _cr_joins_lf()
    items.append(Item("C02/session/native_cr_joins_following_lf", "refuted" if w else "bounded-ok", "native-run(bounded)", 0.0,
                      mode="bounded", func="fortls.parsers.internal.parser.FortranFile.apply_change", witness=w, confirmed=True if w else None,
                      detail="bounded: one history in which an inserted CR meets the LF that already ends the line"))
    w = _full_sync_batches()
    items.append(Item("C02/session/full_sync_batches", "refuted" if w else "bounded-ok", "native-run(bounded)", 0.0,
                      mode="bounded", func="fortls.langserver.LangServer.serve_onChange", witness=w, confirmed=True if w else None,
                      detail="bounded: didChange notifications with one, two and three whole documents under full synchronisation: "
                             "the server holds the last one"))
    w = _typing_histories()
    items.append(Item("C02/session/typing_histories", "refuted" if w else "bounded-ok", "native-run(bounded)", 0.0,
                      mode="bounded", func="fortls.parsers.internal.parser.FortranFile.apply_change", witness=w, confirmed=True if w else None,
                      detail=f"bounded: {len(TYPED_LINES)} statements typed and deleted one keystroke at a time with incremental sync "
                             "(declarations with kind selectors, USE with rename, CALL, labels, END, `;`, a directive): the server's "
                             "lines equal the client model's after every keystroke"))
    w = _open_histories()
    items.append(Item("C02/session/open_close_histories", "refuted" if w else "bounded-ok", "native-run(bounded)", 0.0,
                      mode="bounded", func="fortls.langserver.LangServer.serve_onOpen", witness=w, confirmed=True if w else None,
                      detail="bounded: didOpen carrying a text that differs from the file on disk, didOpen of a file that does "
                             "not exist, ranged edits after each, close without saving and reopen: the server's lines equal "
                             "the client model's after every step"))
    # the axioms the proofs use must hold of the native spec function too (consistency of the axiomatisation)
    ok = True
    for ln in range(7):
        for tup in itertools.product(alphabet, repeat=ln):
            t = "".join(tup)
            L = native_lines(t)
            hb = ("\n" in t) or ("\r" in t)
            ok &= len(L) >= 1 and ((len(L) == 1) == (not hb)) and (hb or L == [t])
            ok &= all("\n" not in x and "\r" not in x for x in L)
            ok &= (not (t.endswith("\n") or t.endswith("\r"))) or L[-1] == ""
    items.append(Item("C02/lines/axioms_hold_of_spec", "bounded-ok" if ok else "error", "finite-enumeration", 0.0,
                      detail="axioms lines.* evaluated on the native spec function, strings up to length 6",
                      mode="bounded"))
    return items


TYPED_LINES = ["  real(8) :: x", "  integer(kind=4), intent(in) :: i", "  type(t) :: v", "  class(c), allocatable :: o",
               "  character(len=*), parameter :: s = 'a!b'", "  procedure(iface), pointer :: p => null()", "  real*8 w", "  use m, only: a => b",
               "  call s(x=1, y=(/1, 2/))  ! c", "10 continue", "  end subroutine", "  if (a) then; b = 1; end if", "#define N 4"]


def _cr_joins_lf():
    """a lone CR inserted directly in front of an LF line break forms one CRLF break with it in the client's text"""
    from fortls.parsers.internal.parser import FortranFile
    f = FortranFile("cr.f90")
    f.apply_change({"text": "a\nb"})
    f.apply_change({"range": {"start": {"line": 0, "character": 1}, "end": {"line": 0, "character": 1}}, "text": "\r"})
    client = "a\r\nb".splitlines()
    got = list(f.contents_split)
    if got != client:
        return {"history": ["whole document 'a\\nb'", "insert '\\r' at 0:1"], "client_lines": client, "server_lines": got}
    return None


def _full_sync_batches():
    """Full synchronisation: a notification may carry several whole documents; the client holds the last one."""
    from replay.harness import Workspace, make_server
    from fortls.jsonrpc import path_to_uri
    for batch in (["first\n"], ["first\n", "second\nline\n"], ["a\n", "b\n", "program p\nend program p\n"]):
        ws = Workspace({"a.f90": "program a\nend program a\n"})
        try:
            srv, rw = make_server()
            srv.nthreads = 1
            srv.handle({"jsonrpc": "2.0", "id": 0, "method": "initialize", "params": {"rootUri": path_to_uri(ws.root), "rootPath": ws.root}})
            uri = ws.uri("a.f90")
            srv.handle({"jsonrpc": "2.0", "method": "textDocument/didOpen", "params": {"textDocument": {"uri": uri}}})
            srv.handle({"jsonrpc": "2.0", "method": "textDocument/didChange",
                        "params": {"textDocument": {"uri": uri}, "contentChanges": [{"text": t} for t in batch]}})
            fobj = srv.workspace.get(ws.path("a.f90"))
            got = list(fobj.contents_split) if fobj is not None else None
            if got != native_lines(batch[-1]):
                return {"synchronisation": "full", "contentChanges": batch, "client_lines": native_lines(batch[-1]), "server_lines": got}
        finally:
            ws.close()
    return None


def _typing_histories():
    """A statement typed one keystroke at a time, then deleted one keystroke at a time (incremental sync): after every
    keystroke the reparse heuristic runs the statement parsers on a half-written line; the server's text must follow."""
    from replay.harness import Workspace, make_server
    from fortls.jsonrpc import path_to_uri
    disk = "subroutine s(i, s)\n  implicit none\n\nend subroutine s\n"
    for text in TYPED_LINES:
        ws = Workspace({"a.F90": disk})
        try:
            srv, rw = make_server(("--incremental_sync",))
            srv.nthreads = 1
            srv.handle({"jsonrpc": "2.0", "id": 0, "method": "initialize", "params": {"rootUri": path_to_uri(ws.root), "rootPath": ws.root}})
            uri = ws.uri("a.F90")
            srv.handle({"jsonrpc": "2.0", "method": "textDocument/didOpen", "params": {"textDocument": {"uri": uri}}})
            client = native_lines(disk)
            steps = [("ins", k, ch) for k, ch in enumerate(text)] + [("del", k, "") for k in range(len(text) - 1, -1, -1)]
            for n, (op, k, ch) in enumerate(steps):
                rng = {"start": {"line": 2, "character": k}, "end": {"line": 2, "character": k + (1 if op == "del" else 0)}}
                change = {"range": rng, "text": ch}
                client = native_apply(client, change)
                rw.out.clear()
                srv.handle({"jsonrpc": "2.0", "method": "textDocument/didChange",
                            "params": {"textDocument": {"uri": uri}, "contentChanges": [change]}})
                fobj = srv.workspace.get(ws.path("a.F90"))
                got = list(fobj.contents_split) if fobj is not None else None
                if got != client:
                    return {"typed_line": text, "keystroke": n, "operation": op, "column": k, "character": ch,
                            "client_line": client[2] if len(client) > 2 else None, "server_line": got[2] if got and len(got) > 2 else None,
                            "server_messages": [str(m)[:200] for m in rw.out][:2]}
        finally:
            ws.close()
    return None


def _open_histories():
    """Histories around didOpen/didClose; the client model is the text the editor shows."""
    from replay.harness import Workspace, make_server
    from fortls.jsonrpc import path_to_uri
    disk = "program a\nend program a\n"
    unsaved = "program a\n  integer :: restored\nend program a\n"
    ins = {"range": {"start": {"line": 1, "character": 0}, "end": {"line": 1, "character": 0}}, "text": "x"}
    ins2 = {"range": {"start": {"line": 0, "character": 9}, "end": {"line": 0, "character": 9}}, "text": " ! c"}
    histories = {
        "open_with_unsaved_text": [("open", "a.f90", unsaved)],
        "open_with_disk_text": [("open", "a.f90", disk)],
        "open_missing_file_with_text_then_edit": [("open", "n.f90", "program n\nend program n\n"), ("change", "n.f90", ins)],
        "open_unsaved_then_edit": [("open", "a.f90", unsaved), ("change", "a.f90", ins)],
        "edit_close_reopen_from_disk": [("open", "a.f90", None), ("change", "a.f90", ins2), ("close", "a.f90", None), ("open", "a.f90", None)],
        "edit_close_reopen_with_text": [("open", "a.f90", None), ("change", "a.f90", ins2), ("close", "a.f90", None), ("open", "a.f90", disk)],
        "open_without_text": [("open", "a.f90", None), ("change", "a.f90", ins)],
        # texts that differ from the file only in ways str.splitlines hides
        "open_text_without_final_break": [("open", "a.f90", disk[:-1])],
        "open_text_with_second_final_break": [("open", "a.f90", disk + "\n")],
        "open_text_with_form_feed": [("open", "a.f90", "program a\x0c! x\nend program a\n")],
        "open_text_with_line_separator": [("open", "a.f90", "program a ! \u2028 \x85\nend program a\n")],
        "open_text_with_tab": [("open", "a.f90", "program a\n\tinteger :: i\nend program a\n"),
                               ("change", "a.f90", {"range": {"start": {"line": 1, "character": 1}, "end": {"line": 1, "character": 1}}, "text": "x"})],
    }
    # the file on disk itself holds tabs and the client opens it with exactly that text (load_from_disk replaces tabs by
    # blanks: the text of didOpen must win), then edits behind the tab
    tabbed = "program t\n\tinteger :: counter\n\tcounter = 1\nend program t\n"
    edit_t = {"range": {"start": {"line": 2, "character": 11}, "end": {"line": 2, "character": 12}}, "text": "12"}
    histories["open_tabbed_file_with_its_disk_text"] = [("open", "t.f90", tabbed), ("change", "t.f90", edit_t)]
    histories["open_tabbed_file_with_its_disk_text_crlf"] = [("open", "t.f90", tabbed.replace("\n", "\r\n")), ("change", "t.f90", edit_t)]
    histories["edit_tabbed_file_close_reopen_with_disk_text"] = [("open", "t.f90", tabbed), ("change", "t.f90", edit_t), ("close", "t.f90", None),
                                                                  ("open", "t.f90", tabbed), ("change", "t.f90", edit_t)]
    for hname, steps in histories.items():
        ws = Workspace({"a.f90": disk, "t.f90": tabbed})
        try:
            srv, rw = make_server()
            srv.nthreads = 1
            srv.handle({"jsonrpc": "2.0", "id": 0, "method": "initialize", "params": {"rootUri": path_to_uri(ws.root), "rootPath": ws.root}})
            client = {}
            for op, name, arg in steps:
                uri = ws.uri(name)
                if op == "open":
                    td = {"uri": uri}
                    if arg is not None:
                        td["text"] = arg
                        client[name] = native_lines(arg)
                    else:
                        client[name] = native_lines(disk)
                    srv.handle({"jsonrpc": "2.0", "method": "textDocument/didOpen", "params": {"textDocument": td}})
                elif op == "change":
                    client[name] = native_apply(client[name], arg)
                    srv.handle({"jsonrpc": "2.0", "method": "textDocument/didChange",
                                "params": {"textDocument": {"uri": uri}, "contentChanges": [arg]}})
                elif op == "close":
                    srv.handle({"jsonrpc": "2.0", "method": "textDocument/didClose", "params": {"textDocument": {"uri": uri}}})
                    client.pop(name, None)
                    continue
                fobj = srv.workspace.get(ws.path(name))
                got = list(fobj.contents_split) if fobj is not None else None
                if got != client[name]:
                    return {"history": hname, "steps": [(o, n_) for o, n_, _ in steps], "after": op, "file": name,
                            "client_text": client[name], "server_text": got}
        finally:
            ws.close()
    return None


def _aliasing_scenarios():
    """Edit sequences in which a shared (aliased or cached) line list would show: a whole-document change, a
    one-line edit, then the same whole text again; and two documents holding identical text."""
    from fortls.parsers.internal.parser import FortranFile, splitlines
    text = "program p\n  integer :: n\n  n = 1\nend program p"
    a, b = splitlines(text), splitlines(text)
    if a is b:
        return {"function": "splitlines", "problem": "two calls with equal text return the same list object",
                "text": text}
    edit = {"text": "42", "range": {"start": {"line": 2, "character": 6}, "end": {"line": 2, "character": 7}}}
    for first in ("full", "disk_like"):
        f1, f2 = FortranFile(), FortranFile()
        for f in (f1, f2):
            if first == "full":
                f.apply_change({"text": text})
            else:
                f.set_contents(splitlines(text))
        exp1 = native_apply(native_lines(text), edit)
        f1.apply_change(dict(edit))
        if list(f2.contents_split) != native_lines(text):
            return {"function": "FortranFile.apply_change", "problem": "editing one document changed another "
                    "document that holds identical text", "history": [first, "edit doc1"],
                    "doc2_expected": native_lines(text), "doc2_observed": list(f2.contents_split)}
        if list(f1.contents_split) != exp1:
            return {"function": "FortranFile.apply_change", "history": [first, "edit"], "expected_doc": exp1,
                    "observed_doc": list(f1.contents_split)}
        f1.apply_change({"text": text})
        if list(f1.contents_split) != native_lines(text):
            return {"function": "FortranFile.apply_change", "problem": "whole-document change back to the original "
                    "text does not restore it", "history": [first, "one-line edit", "full text again"],
                    "expected_doc": native_lines(text), "observed_doc": list(f1.contents_split)}
    return None


def search(func, tier, seed, obligation=""):
    """Bounded native search for an input on which the real code violates the C02 contract."""
    import itertools
    from fortls.parsers.internal.parser import FortranFile
    texts = ["", "a", "\n", "a\n", "\r\n", "a\nb", "a\r", "x\ny\n", "\n\n", "p\r\nq"]
    docs = [[], [""], ["xyz"], ["ab", "cd"], ["ab", "", "cd"], ["a", "b", "c", "d"]]

    def changes_for(L):
        yield {"text": None}
        n = len(L)
        if n == 0:
            yield (0, 0, 0, 0)
            return
        for sl in range(n):
            for el in range(sl, n):
                for sc in sorted({0, len(L[sl]) // 2, len(L[sl])}):
                    for ec in sorted({0, len(L[el]) // 2, len(L[el])}):
                        if sl == el and sc > ec:
                            continue
                        yield (sl, sc, el, ec)

    def mk(r, text):
        if isinstance(r, dict):
            return {"text": text}
        return {"text": text, "range": {"start": {"line": r[0], "character": r[1]},
                                        "end": {"line": r[2], "character": r[3]}}}

    if func.endswith("apply_change") or func.endswith("set_contents") or func.endswith("splitlines"):
        w = _aliasing_scenarios()
        if w:
            return w
        for L in docs:
            for r in changes_for(L):
                for text in texts:
                    ch = mk(r, text)
                    f = FortranFile()
                    f.contents_split = list(L)
                    f.contents_pp = f.contents_split
                    f.nLines = len(L)
                    f.hash = "h"
                    exp = native_apply(L, ch)
                    try:
                        f.apply_change(dict(ch))
                        got, exc = list(f.contents_split), None
                    except Exception as e:  # noqa: BLE001
                        got, exc = None, repr(e)
                    if exc or got != exp or f.nLines != len(exp) or f.hash is not None or len(f.contents_pp) != f.nLines:
                        return {"function": "FortranFile.apply_change", "contents_split": L, "change": ch,
                                "expected_doc": exp, "observed_doc": got, "exception": exc, "nLines": f.nLines,
                                "hash": f.hash}
        return None
    if func.endswith("serve_onChange"):
        from replay.harness import Workspace, session
        seqs = []
        single = [((0, 1, 0, 2), "Q"), ((0, 0, 0, 0), "n\n"), ((1, 0, 1, 2), ""), ((0, 2, 1, 1), "u\nv")]
        for a, b in itertools.permutations(single, 2):
            seqs.append([a, b])
        seqs += [[c] for c in single] + [[single[0], single[1], single[3]]]
        for seq in seqs:
            ws = Workspace({"t.f90": "abcd\nefgh\nijkl"})
            try:
                L = ["abcd", "efgh", "ijkl"]
                chs = [mk(r, t) for r, t in seq]
                exp = L
                ok = True
                for ch in chs:
                    r = ch["range"]
                    if not (r["end"]["line"] < len(exp) and r["start"]["character"] <= len(exp[r["start"]["line"]])
                            and r["end"]["character"] <= len(exp[r["end"]["line"]])):
                        ok = False
                        break
                    exp = native_apply(exp, ch)
                if not ok:
                    continue
                uri = ws.uri("t.f90")
                srv, out = session(ws, [
                    {"jsonrpc": "2.0", "method": "textDocument/didOpen", "params": {"textDocument": {"uri": uri}}},
                    {"jsonrpc": "2.0", "method": "textDocument/didChange",
                     "params": {"textDocument": {"uri": uri}, "contentChanges": chs}}], argv=["--incremental_sync"])
                fobj = srv.workspace.get(ws.path("t.f90")) or next(iter(srv.workspace.values()), None)
                got = list(fobj.contents_split) if fobj is not None else None
                if got != exp:
                    return {"function": "LangServer.serve_onChange", "initial": L, "contentChanges": chs,
                            "expected_doc": exp, "observed_doc": got}
            finally:
                ws.close()
        return None
    return None
